#!/usr/bin/env python3
"""Regenerates MANIFEST.json from harness/*/checks.json fragments + properties.jsonl + NOT_APPLICABLE.json."""
import json, glob, os, subprocess
V = os.path.dirname(os.path.abspath(__file__))
props = [json.loads(l) for l in open(os.path.join(V, "properties.jsonl"))]
checks = {}
engines = {}
for frag in sorted(glob.glob(os.path.join(V, "harness", "*", "checks.json"))):
    ws = os.path.basename(os.path.dirname(frag))
    d = json.load(open(frag))
    for pid, c in d["checks"].items():
        checks[pid] = (ws, c)
        e = engines.setdefault(ws, {"name": ws, "path": f"harness/{ws}", "serves_properties": [], "kind_free_text": d.get("engine_text", "")})
        e["serves_properties"].append(pid)
na_path = os.path.join(V, "NOT_APPLICABLE.json")
na_reasons = json.load(open(na_path)) if os.path.exists(na_path) else {}
ready = set(json.load(open(os.path.join(V, "READY.json"))))
try:
    hooks = subprocess.run(["git", "-C", "/repo", "log", "--format=%H %s"], capture_output=True, text=True).stdout.splitlines()
    hook_commits = [l.split()[0] for l in hooks if " verif hook " in l]
except Exception:
    hook_commits = []
out_checks = []
na = []
for p in props:
    pid = p["id"]
    if pid in checks and pid in ready and pid not in na_reasons:
        ws, c = checks[pid]
        out_checks.append({
            "property_id": pid,
            "quick_cmd": f"./check {pid} --tier quick",
            "thorough_cmd": f"./check {pid} --tier thorough",
            "evidence_file": f"/verif/evidence/{pid}.json",
            "replay_cmd_template": f"./check {pid} --replay {{path}}",
            "engine": c.get("engine", ws),
            "level_claimed": {"category": c["level"], "text": c["text"], "design_ref": "DESIGN.md " + c.get("design_ref", "")},
            "level_note": c["note"],
            "technique": c.get("technique", ""),
        })
    else:
        na.append({"property_id": pid, "reason": na_reasons.get(pid, "check not built yet (construction in progress; see DESIGN.md section 10)")})
m = {
    "version": 1,
    "setup_cmd": "./setup.sh",
    "hooks": {
        "guard": "--cfg aranya_core_verif",
        "enable": "RUSTFLAGS='--cfg aranya_core_verif' (flavour S builds of the harness crates, separate target-s dirs; DESIGN.md section 3)",
        "baseline_off_cmd": "cd /repo && cargo nextest run --workspace --no-fail-fast --tool-config-file pb:/w/lib/nextest.toml --profile pb --test-threads 8 --offline",
        "source_commits": hook_commits,
        "add_only": True,
    },
    "engines": list(engines.values()),
    "checks": out_checks,
    "notes": "All checks are bounded exhaustive explorations of the real code (model-checking family); see DESIGN.md. known_findings.json lists recorded findings and fixed defects.",
    "not_applicable": na,
}
json.dump(m, open(os.path.join(V, "MANIFEST.json"), "w"), indent=1)
print(f"{len(out_checks)} checks, {len(na)} not claimed")
