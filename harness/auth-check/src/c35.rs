//! C35 — replicas accept only authentic commands.
//!
//! Real `ClientState<_, MemStorageProvider>` + real `VmPolicy` running a policy that signs in `seal`
//! and verifies in `open` (crypto / device / envelope / idam / perspective FFIs, deterministic
//! `DefaultEngine`). Two registered devices A (owner) and B produce an honest 6-command script through
//! actions:
//!     c0 Init(A)  c1 AddDevice(B)  c2 SetCounter(1,100,"hits",Relative)  — by A
//!     c3 IncrementCounter(1,50)  — by A, child of c2
//!     c4 IncrementCounter(1,25)  — by B, child of c2 (sibling of c3)
//!     c5 SetCounter(2,7,"b",Absolute) — by B, child of c4
//! For every honest command × every base (the command's ancestors; thorough also "everything that is
//! not a descendant") × every wire-field modification a history is run on a fresh third replica:
//!     deliver base honestly; observe; deliver the modified command; observe; deliver the honest
//!     command; observe.
//! Oracle (statement): the modified command is refused, the observation (heads, all facts of the
//! policy's fact names, every stored command) is unchanged, the sink shows no committed effect, and the
//! honest command is still accepted afterwards and gives the honest observation.
//! Modifications that decode to the identical command (e.g. bytes after the postcard value) and
//! modifications of fields the statement does not name (priority, policy bytes, parent max-cut) are
//! only recorded.

use std::{borrow::Cow, collections::BTreeMap};

use aranya_crypto::{
    keystore::memstore::MemStore, DeviceId, EncryptionKey, IdentityKey, KeyStoreExt as _, SigningKey,
};
use aranya_crypto_ffi::Ffi as CryptoFfi;
use aranya_device_ffi::FfiDevice;
use aranya_envelope_ffi::Ffi as EnvelopeFfi;
use aranya_idam_ffi::Ffi as IdamFfi;
use aranya_perspective_ffi::FfiPerspective;
use aranya_policy_compiler::Compiler;
use aranya_policy_lang::lang::parse_policy_document;
use aranya_policy_vm::{ffi::FfiModule as _, Identifier, Machine, Module, Struct, TypeKind, Value};
use aranya_runtime::{
    storage::linear::testing::MemStorageProvider, storage::MemSpill, Address, ClientError, ClientState, CmdId, Command,
    FfiCallable, GraphId, Location, MaxCut, PolicyError, PolicyId, PolicyStore, Prior, Priority, Query as _,
    RuntimeBuffers, Segment as _, Sink, Storage as _, StorageProvider, VmAction, VmEffect, VmPolicy, VmProtocolData,
};
use mcx::{json, rayon::prelude::*, Args, Level, Report, Tier};

use crate::common::*;

const POLICY: &str = include_str!("signing-policy.md");
const FACT_NAMES: [&str; 3] = ["DeviceSignPubKey", "Owner", "Counter"];

// ------------------------------------------------------------------------------------------------
// policy store, sink, wire command

pub struct Store {
    policy: VmPolicy<Eng>,
}

impl PolicyStore for Store {
    type Policy = VmPolicy<Eng>;
    type Effect = VmEffect;
    fn add_policy(&mut self, _p: &[u8]) -> Result<PolicyId, PolicyError> {
        Ok(PolicyId::new(0))
    }
    fn get_policy(&self, _id: PolicyId) -> Result<&Self::Policy, PolicyError> {
        Ok(&self.policy)
    }
}

#[derive(Default)]
struct RecSink {
    pending: Vec<String>,
    committed: Vec<String>,
    rollbacks: usize,
}

impl Sink<VmEffect> for RecSink {
    fn begin(&mut self) {
        self.pending.clear();
    }
    fn consume(&mut self, e: VmEffect) {
        self.pending.push(format!("{}@{}", e.name, hexs(e.command.as_bytes())));
    }
    fn rollback(&mut self) {
        self.rollbacks += 1;
        self.pending.clear();
    }
    fn commit(&mut self) {
        self.committed.append(&mut self.pending);
    }
}

#[derive(Clone, Debug, PartialEq)]
struct Wire {
    id: [u8; 32],
    priority: Priority,
    parent: Prior<Address>,
    policy: Option<Vec<u8>>,
    data: Vec<u8>,
}

impl Command for Wire {
    fn priority(&self) -> Priority {
        self.priority.clone()
    }
    fn id(&self) -> CmdId {
        CmdId::from_bytes(self.id)
    }
    fn parent(&self) -> Prior<Address> {
        self.parent
    }
    fn policy(&self) -> Option<&[u8]> {
        self.policy.as_deref()
    }
    fn bytes(&self) -> &[u8] {
        &self.data
    }
}

fn prior_json(p: &Prior<Address>) -> mcx::Value {
    let a = |a: &Address| json!({"id": hexs(a.id.as_bytes()), "max_cut": a.max_cut.get()});
    match p {
        Prior::None => json!(null),
        Prior::Single(x) => json!([a(x)]),
        Prior::Merge(x, y) => json!([a(x), a(y)]),
    }
}

impl Wire {
    fn to_json(&self) -> mcx::Value {
        json!({"id": hexs(&self.id), "priority": format!("{:?}", self.priority), "parent": prior_json(&self.parent),
               "policy": self.policy.as_ref().map(|p| hexs(p)), "data": hexs(&self.data)})
    }
}

// ------------------------------------------------------------------------------------------------
// devices and replicas

struct Device {
    dev: usize,
    seed: u64,
    store: MemStore,
    device_id: DeviceId,
    keys: Value,
}

fn device(seed: u64, dev: usize) -> Device {
    let eng = engine(seed, 35, dev as u64);
    let mut store = MemStore::new();
    let ik = IdentityKey::<CS>::new(rng(seed, 3501, dev as u64));
    let sk = SigningKey::<CS>::new(rng(seed, 3502, dev as u64));
    let ek = EncryptionKey::<CS>::new(rng(seed, 3503, dev as u64));
    let enc = |r: Result<Vec<u8>, postcard::Error>| r.unwrap_or_else(|e| mcx::machinery_error(&format!("encode public key: {e}")));
    let ident_pk = enc(postcard::to_allocvec(&ik.public().unwrap()));
    let sign_pk = enc(postcard::to_allocvec(&sk.public().unwrap()));
    let enc_pk = enc(postcard::to_allocvec(&ek.public().unwrap()));
    let device_id = ik.id().unwrap();
    for r in [store.insert_key(&eng, ik).map(|_| ()), store.insert_key(&eng, sk).map(|_| ()), store.insert_key(&eng, ek).map(|_| ())] {
        r.unwrap_or_else(|e| mcx::machinery_error(&format!("insert key: {e}")));
    }
    let id = |s: &str| -> Identifier { s.parse().unwrap() };
    let keys = Value::Struct(Struct::new(
        id("PublicKeys"),
        [(id("ident_key"), Value::Bytes(ident_pk)), (id("sign_key"), Value::Bytes(sign_pk)), (id("enc_key"), Value::Bytes(enc_pk))],
    ));
    Device { dev, seed, store, device_id, keys }
}

fn compile_module() -> Module {
    let ast = parse_policy_document(POLICY).unwrap_or_else(|e| mcx::machinery_error(&format!("policy does not parse: {e}")));
    Compiler::new(&ast)
        .ffi_modules(&[CryptoFfi::<MemStore>::SCHEMA, FfiDevice::SCHEMA, EnvelopeFfi::SCHEMA, IdamFfi::<MemStore>::SCHEMA, FfiPerspective::SCHEMA])
        .compile()
        .unwrap_or_else(|e| mcx::machinery_error(&format!("policy does not compile: {e}")))
}

type Client = ClientState<Store, MemStorageProvider>;
type Seg = <MemStorageProvider as StorageProvider>::Segment;

struct Replica {
    client: Client,
    sink: RecSink,
    buffers: RuntimeBuffers<Seg>,
    graph: Option<GraphId>,
}

fn replica(module: &Module, d: &Device) -> Replica {
    let machine = Machine::from_module(module.clone()).unwrap_or_else(|e| mcx::machinery_error(&format!("machine: {e}")));
    let ffis: Vec<Box<dyn FfiCallable<Eng> + Send + 'static>> = vec![
        Box::from(CryptoFfi::new(d.store.clone())),
        Box::from(FfiDevice::new(d.device_id)),
        Box::from(EnvelopeFfi),
        Box::from(IdamFfi::new(d.store.clone())),
        Box::from(FfiPerspective),
    ];
    let policy = VmPolicy::new(machine, engine(d.seed, 35, d.dev as u64), ffis).unwrap_or_else(|e| mcx::machinery_error(&format!("VmPolicy::new: {e}")));
    Replica { client: ClientState::new(Store { policy }, MemStorageProvider::default()), sink: RecSink::default(), buffers: RuntimeBuffers::new(), graph: None }
}

#[derive(Clone, Debug, PartialEq, Eq, Hash)]
struct Obs {
    heads: Vec<(String, u64)>,
    facts: Vec<(String, Vec<Vec<u8>>, Vec<u8>)>,
    /// id → (parents, priority, policy?, bytes, max_cut)
    cmds: BTreeMap<String, (Vec<(String, u64)>, String, Vec<u8>, u64)>,
}

impl Obs {
    fn canon(&self) -> u64 {
        mcx::fnv64(format!("{self:?}").as_bytes())
    }
    fn short(&self) -> String {
        format!("heads={:?} facts={} cmds={}", self.heads.iter().map(|h| format!("{}@{}", &h.0[..8], h.1)).collect::<Vec<_>>(), self.facts.len(), self.cmds.len())
    }
}

impl Replica {
    fn action(&mut self, name: &str, args: Vec<Value>) -> Result<(), ClientError> {
        let action = VmAction { name: name.parse().unwrap(), args: Cow::Owned(args) };
        match self.graph {
            None => {
                let g = self.client.new_graph(&[0u8], action, &mut self.sink)?;
                self.graph = Some(g);
                Ok(())
            }
            Some(g) => self.client.action(g, &mut self.sink, action, &mut self.buffers, MemSpill::new),
        }
    }

    /// One sync delivery: a transaction with one `add_commands` call; committed if it succeeded,
    /// dropped otherwise (as the repository's syncers do). Returns the number of commands added.
    fn deliver(&mut self, graph: GraphId, cmds: &[Wire]) -> Result<usize, String> {
        // a panic on peer input is an outcome of its own, not a refusal
        match mcx::catch(|| self.deliver_inner(graph, cmds)) {
            Ok(r) => r,
            Err(msg) => Err(format!("PANIC: {msg}")),
        }
    }

    fn deliver_inner(&mut self, graph: GraphId, cmds: &[Wire]) -> Result<usize, String> {
        let mut trx = self.client.transaction(graph);
        let n = self.client.add_commands(&mut trx, &mut self.sink, cmds, &mut self.buffers, MemSpill::new).map_err(|e| format!("add_commands: {e}"))?;
        self.client.commit(trx, &mut self.sink, &mut self.buffers, MemSpill::new).map_err(|e| format!("commit: {e}"))?;
        self.graph = Some(graph);
        Ok(n)
    }

    fn observe(&mut self, graph: GraphId) -> Result<Option<Obs>, String> {
        let storage = match self.client.provider().get_storage(graph) {
            Ok(s) => s,
            Err(aranya_runtime::StorageError::NoSuchStorage) => return Ok(None),
            Err(e) => return Err(format!("get_storage: {e}")),
        };
        let head_locs: Vec<_> = storage.get_heads().map_err(|e| format!("get_heads: {e}"))?.iter().collect();
        let heads = head_locs.iter().map(|h| (hexs(h.id.as_bytes()), h.max_cut.get())).collect();
        let fc = storage.fact_cache().map_err(|e| format!("fact_cache: {e}"))?;
        let mut facts = vec![];
        for name in FACT_NAMES {
            for f in fc.query_prefix(name, &[]).map_err(|e| format!("query_prefix: {e}"))? {
                let f = f.map_err(|e| format!("fact: {e}"))?;
                facts.push((name.to_string(), f.key.iter().map(|k| k.to_vec()).collect(), f.value.to_vec()));
            }
        }
        // every stored command reachable from the heads
        let mut cmds = BTreeMap::new();
        let mut covered: BTreeMap<u64, u64> = BTreeMap::new();
        let mut stack: Vec<Location> = head_locs.iter().map(|h| h.location()).collect();
        while let Some(loc) = stack.pop() {
            let seg = storage.get_segment(loc).map_err(|e| format!("get_segment: {e}"))?;
            let first = seg.first_location();
            let idx = seg.index().get() as u64;
            let from = match covered.get(&idx) {
                Some(&c) if c >= loc.max_cut.get() => continue,
                Some(&c) => c + 1,
                None => first.max_cut.get(),
            };
            for mc in from..=loc.max_cut.get() {
                let l = Location::new(seg.index(), MaxCut::new(mc));
                let cmd = seg.get_command(l).ok_or_else(|| format!("segment {idx} has no command at {mc}"))?;
                let parents = match cmd.parent() {
                    Prior::None => vec![],
                    Prior::Single(a) => vec![(hexs(a.id.as_bytes()), a.max_cut.get())],
                    Prior::Merge(a, b) => vec![(hexs(a.id.as_bytes()), a.max_cut.get()), (hexs(b.id.as_bytes()), b.max_cut.get())],
                };
                cmds.insert(hexs(cmd.id().as_bytes()), (parents, format!("{:?}/{:?}", cmd.priority(), cmd.policy()), cmd.bytes().to_vec(), mc));
            }
            if !covered.contains_key(&idx) {
                for p in seg.prior() {
                    stack.push(p);
                }
            }
            covered.insert(idx, loc.max_cut.get());
        }
        Ok(Some(Obs { heads, facts, cmds }))
    }

    /// The wire form of every stored command.
    fn export(&mut self, graph: GraphId) -> BTreeMap<[u8; 32], Wire> {
        let storage = self.client.provider().get_storage(graph).unwrap_or_else(|e| mcx::machinery_error(&format!("get_storage: {e}")));
        let mut out = BTreeMap::new();
        let mut stack: Vec<Location> = storage.get_heads().unwrap().iter().map(|h| h.location()).collect();
        let mut seen = std::collections::BTreeSet::new();
        while let Some(loc) = stack.pop() {
            let seg = storage.get_segment(loc).unwrap_or_else(|e| mcx::machinery_error(&format!("get_segment: {e}")));
            if !seen.insert(seg.index().get()) {
                continue;
            }
            let first = seg.first_location().max_cut.get();
            let last = seg.head_location().unwrap().max_cut.get();
            for mc in first..=last {
                let cmd = seg.get_command(Location::new(seg.index(), MaxCut::new(mc))).unwrap();
                out.insert(*cmd.id().as_array(), Wire { id: *cmd.id().as_array(), priority: cmd.priority(), parent: cmd.parent(), policy: cmd.policy().map(|p| p.to_vec()), data: cmd.bytes().to_vec() });
            }
            for p in seg.prior() {
                stack.push(p);
            }
        }
        out
    }
}

// ------------------------------------------------------------------------------------------------
// the honest script

struct Honest {
    machine: Machine,
    graph: [u8; 32],
    /// c0..c5 in creation order
    cmds: Vec<Wire>,
    names: Vec<String>,
    dev_ids: Vec<[u8; 32]>,
}

fn honest_script(seed: u64, module: &Module) -> Honest {
    let da = device(seed, 0);
    let db = device(seed, 1);
    let mut a = replica(module, &da);
    let mut b = replica(module, &db);
    let ok = |r: Result<(), ClientError>, what: &str| r.unwrap_or_else(|e| mcx::machinery_error(&format!("honest action {what} failed: {e}")));
    ok(a.action("init", vec![da.keys.clone(), Value::Int(42)]), "init");
    let g = a.graph.unwrap();
    ok(a.action("add_device", vec![db.keys.clone()]), "add_device");
    let mode = |v: i64| Value::Enum("CounterMode".parse().unwrap(), v);
    let text = |t: &str| Value::String(t.parse().unwrap());
    ok(a.action("set_counter", vec![Value::Int(1), Value::Int(100), text("hits"), mode(1)]), "set_counter");
    let upto2 = a.export(g);
    // order c0,c1,c2 by max_cut
    let mut first: Vec<Wire> = upto2.values().cloned().collect();
    first.sort_by_key(|w| match w.parent {
        Prior::None => 0,
        Prior::Single(p) => p.max_cut.get() + 1,
        Prior::Merge(..) => u64::MAX,
    });
    if first.len() != 3 {
        mcx::machinery_error(&format!("expected 3 commands after three actions, found {}", first.len()));
    }
    b.deliver(g, &first).unwrap_or_else(|e| mcx::machinery_error(&format!("honest sync A→B failed: {e}")));
    ok(a.action("increment_counter", vec![Value::Int(1), Value::Int(50)]), "increment_counter (A)");
    ok(b.action("increment_counter", vec![Value::Int(1), Value::Int(25)]), "increment_counter (B)");
    ok(b.action("set_counter", vec![Value::Int(2), Value::Int(7), text("b"), mode(0)]), "set_counter (B)");
    let all_a = a.export(g);
    let all_b = b.export(g);
    let c3 = all_a.values().find(|w| !upto2.contains_key(&w.id)).cloned().unwrap_or_else(|| mcx::machinery_error("c3 missing"));
    let mut later: Vec<Wire> = all_b.values().filter(|w| !upto2.contains_key(&w.id)).cloned().collect();
    later.sort_by_key(|w| match w.parent {
        Prior::Single(p) => p.max_cut.get(),
        _ => 0,
    });
    if later.len() != 2 {
        mcx::machinery_error("c4/c5 missing");
    }
    let mut cmds = first;
    cmds.push(c3);
    cmds.extend(later);
    let names = cmds
        .iter()
        .map(|w| postcard::from_bytes::<VmProtocolData<'_>>(&w.data).map(|d| d.kind.to_string()).unwrap_or_else(|e| mcx::machinery_error(&format!("honest command does not decode: {e}"))))
        .collect();
    let machine = Machine::from_module(module.clone()).unwrap_or_else(|e| mcx::machinery_error(&format!("machine: {e}")));
    Honest { machine, graph: *g.as_array(), cmds, names, dev_ids: vec![*da.device_id.as_array(), *db.device_id.as_array()] }
}

// ------------------------------------------------------------------------------------------------
// modifications

#[derive(Clone)]
struct Tamper {
    /// field class (counter name)
    class: &'static str,
    name: String,
    wire: Wire,
    /// the modified field is one the statement names (payload, name, parent, author, id, signature)
    bound: bool,
}

struct Layout {
    fields: Vec<Field>,
    author: (usize, usize),
    kind: (usize, usize),
    payload: (usize, usize),
    sig: (usize, usize),
}

/// `[len][author 32][len][kind][varint len][fields][len][signature]`, located by re-encoding.
fn layout(data: &[u8]) -> Layout {
    let d: VmProtocolData<'_> = postcard::from_bytes(data).unwrap_or_else(|e| mcx::machinery_error(&format!("honest data does not decode: {e}")));
    let kind = d.kind.as_str().as_bytes();
    let pl = d.serialized_fields.len();
    let sl = d.signature.len();
    let mut off = 0;
    let mut fields = vec![];
    let mut push = |name: &'static str, len: usize, is_len: bool, off: &mut usize| {
        let r = (*off, *off + len);
        fields.push(Field { name, start: r.0, end: r.1, is_len });
        *off += len;
        r
    };
    push("author_len", 1, true, &mut off);
    let author = push("author", 32, false, &mut off);
    push("kind_len", varint(kind.len() as u64).len(), varint(kind.len() as u64).len() == 1, &mut off);
    let kindr = push("kind", kind.len(), false, &mut off);
    let vl = varint(pl as u64).len();
    push("fields_len", vl, vl == 1, &mut off);
    let payload = push("fields", pl, false, &mut off);
    let vs = varint(sl as u64).len();
    push("sig_len", vs, vs == 1, &mut off);
    let sig = push("signature", sl, false, &mut off);
    if off != data.len() || &data[author.0..author.1] != d.author_id.as_bytes() || &data[kindr.0..kindr.1] != kind || &data[payload.0..payload.1] != d.serialized_fields || &data[sig.0..sig.1] != d.signature {
        mcx::machinery_error("VmProtocolData layout assumption broke");
    }
    fields.retain(|f| f.end > f.start);
    Layout { fields, author, kind: kindr, payload, sig }
}

fn encode(author: &[u8; 32], kind: &str, fields: &[u8], sig: &[u8]) -> Option<Vec<u8>> {
    let kind: Identifier = kind.parse().ok()?;
    postcard::to_allocvec(&VmProtocolData { author_id: DeviceId::from_bytes(*author), kind, serialized_fields: fields, signature: sig }).ok()
}

/// Every varint of a serialized command struct (ints, enum discriminants, string / bytes length
/// prefixes), located by walking the payload along the command's schema: `(offset, length, what)`.
fn payload_varints(m: &Machine, kind: &str, payload: &[u8]) -> Vec<(usize, usize, String)> {
    fn varint_len(b: &[u8], off: usize) -> Result<(usize, u64), String> {
        let mut v = 0u64;
        for i in 0..10 {
            let x = *b.get(off + i).ok_or("payload ends inside a varint")?;
            v |= ((x & 0x7f) as u64) << (7 * i).min(63);
            if x & 0x80 == 0 {
                return Ok((i + 1, v));
            }
        }
        Err("varint longer than 10 bytes".into())
    }
    fn walk(m: &Machine, ty: &TypeKind, b: &[u8], off: &mut usize, path: &str, out: &mut Vec<(usize, usize, String)>) -> Result<(), String> {
        match ty {
            TypeKind::Unit => {}
            TypeKind::Int | TypeKind::Enum(_) => {
                let (l, _) = varint_len(b, *off)?;
                out.push((*off, l, format!("{path}:{}", if matches!(ty, TypeKind::Int) { "int" } else { "enum" })));
                *off += l;
            }
            TypeKind::String | TypeKind::Bytes => {
                let (l, n) = varint_len(b, *off)?;
                out.push((*off, l, format!("{path}:{}", if matches!(ty, TypeKind::String) { "string_len" } else { "bytes_len" })));
                *off += l + n as usize;
            }
            TypeKind::Bool => *off += 1,
            TypeKind::Id => *off += 33,
            TypeKind::Struct(name) => {
                let def = m.struct_defs.get(name).ok_or(format!("no struct {name}"))?;
                for f in &def.items {
                    walk(m, &f.ty, b, off, &format!("{path}.{}", f.name), out)?;
                }
            }
            TypeKind::Optional(t) => {
                let tag = *b.get(*off).ok_or("payload ends at an option tag")?;
                *off += 1;
                if tag == 1 {
                    walk(m, t, b, off, path, out)?;
                }
            }
            TypeKind::Result(r) => {
                let tag = *b.get(*off).ok_or("payload ends at a result tag")?;
                *off += 1;
                walk(m, if tag == 0 { &r.ok } else { &r.err }, b, off, path, out)?;
            }
            TypeKind::Never => return Err("never-typed field".into()),
        }
        Ok(())
    }
    let mut out = vec![];
    let mut off = 0;
    let name: Identifier = kind.parse().unwrap_or_else(|_| mcx::machinery_error("honest kind is not an identifier"));
    walk(m, &TypeKind::Struct(name), payload, &mut off, kind, &mut out).unwrap_or_else(|e| mcx::machinery_error(&format!("cannot walk the payload of {kind}: {e}")));
    if off != payload.len() {
        mcx::machinery_error(&format!("payload walk of {kind} consumed {off} of {} bytes", payload.len()));
    }
    out
}

/// The overlong form of the varint at `[off, off+len)` with `extra` (1 or 2) more continuation bytes:
/// the same value, a different byte string.
fn overlong(bytes: &[u8], off: usize, len: usize, extra: usize) -> Vec<u8> {
    let mut v = bytes[..off + len].to_vec();
    v[off + len - 1] |= 0x80;
    for _ in 1..extra {
        v.push(0x80);
    }
    v.push(0x00);
    v.extend_from_slice(&bytes[off + len..]);
    v
}

fn field_class(name: &str) -> (&'static str, bool) {
    // (counter class, named by the statement)
    if name.starts_with("author_len") || name.starts_with("kind_len") || name.starts_with("fields_len") || name.starts_with("sig_len") || name.contains('|') {
        ("data_framing", true)
    } else if name.starts_with("author") {
        ("author", true)
    } else if name.starts_with("kind") {
        ("kind", true)
    } else if name.starts_with("fields") {
        ("payload", true)
    } else if name.starts_with("signature") {
        ("signature", true)
    } else if name.starts_with("trunc") {
        ("data_truncation", true)
    } else if name.starts_with("trail") {
        ("data_trailing_byte", true)
    } else {
        ("data_other", true)
    }
}

#[derive(Clone, Copy, PartialEq, Eq)]
enum Alphabet {
    /// in-flight mode at quick: field-edge positions, a few id bits, truncations at field starts
    Coarse,
    Quick,
    Thorough,
}

fn tampers(h: &Honest, ci: usize, present: &[usize], alphabet: Alphabet) -> Vec<Tamper> {
    let thorough = alphabet == Alphabet::Thorough;
    let coarse = alphabet == Alphabet::Coarse;
    let w = &h.cmds[ci];
    let mut out: Vec<Tamper> = vec![];
    let mut add = |class: &'static str, name: String, wire: Wire, bound: bool| {
        if wire != *w {
            out.push(Tamper { class, name, wire, bound });
        }
    };
    let addr_of = |j: usize| -> Address {
        let c = &h.cmds[j];
        let mc = match c.parent {
            Prior::None => 0,
            Prior::Single(p) => p.max_cut.get() + 1,
            Prior::Merge(a, b) => a.max_cut.get().max(b.max_cut.get()) + 1,
        };
        Address { id: CmdId::from_bytes(c.id), max_cut: MaxCut::new(mc) }
    };
    // ---- id
    for bit in 0..256 {
        if coarse && ![0, 7, 128, 255].contains(&bit) {
            continue;
        }
        let mut x = w.clone();
        x.id[bit / 8] ^= 1 << (bit % 8);
        add("id", format!("id^bit{bit}"), x, true);
    }
    for j in 0..h.cmds.len() {
        if j != ci {
            let mut x = w.clone();
            x.id = h.cmds[j].id;
            add("id", format!("id:=c{j}"), x, true);
        }
    }
    // distinguished id values: default (all-zero), all-0xff, the parent's id, every device id
    // (incl. the author's), the graph id
    let author_of = |c: &Wire| -> [u8; 32] { postcard::from_bytes::<VmProtocolData<'_>>(&c.data).map(|d| *d.author_id.as_array()).unwrap_or([0; 32]) };
    let mut special: Vec<(String, [u8; 32])> = vec![("default(all-zero)".into(), [0u8; 32]), ("all-ff".into(), [0xff; 32]), ("author-device-id".into(), author_of(w)), ("graph-id".into(), h.graph)];
    if let Prior::Single(p) = w.parent {
        special.push(("parent-id".into(), *p.id.as_array()));
    }
    for (i, d) in h.dev_ids.iter().enumerate() {
        special.push((format!("device{i}-id"), *d));
    }
    for (nm, v) in &special {
        let mut x = w.clone();
        x.id = *v;
        add("id", format!("id:={nm}"), x, true);
    }
    // ---- parent
    if let Prior::Single(p) = w.parent {
        let bits: Vec<usize> = if thorough { (0..256).collect() } else if coarse { vec![0, 255] } else { vec![0, 1, 7, 8, 127, 128, 248, 255] };
        for bit in bits {
            let mut id = *p.id.as_array();
            id[bit / 8] ^= 1 << (bit % 8);
            let mut x = w.clone();
            x.parent = Prior::Single(Address { id: CmdId::from_bytes(id), max_cut: p.max_cut });
            add("parent_id", format!("parent.id^bit{bit}"), x, true);
        }
        for &j in present {
            let a = addr_of(j);
            if a.id != p.id {
                let mut x = w.clone();
                x.parent = Prior::Single(a);
                add("parent_id", format!("parent:=c{j}"), x, true);
                let mut x = w.clone();
                x.parent = Prior::Single(Address { id: a.id, max_cut: p.max_cut });
                add("parent_id", format!("parent.id:=c{j}(max_cut kept)"), x, true);
            }
        }
        for (nm, v) in special.iter().chain([("own-id".to_string(), w.id)].iter()) {
            if *v != *p.id.as_array() {
                let mut x = w.clone();
                x.parent = Prior::Single(Address { id: CmdId::from_bytes(*v), max_cut: p.max_cut });
                add("parent_id", format!("parent.id:={nm}"), x, true);
            }
        }
        for (nm, mc) in [("-1", p.max_cut.get().wrapping_sub(1)), ("+1", p.max_cut.get() + 1), ("0", 0), ("big", 1 << 40)] {
            let mut x = w.clone();
            x.parent = Prior::Single(Address { id: p.id, max_cut: MaxCut::new(mc) });
            add("parent_max_cut", format!("parent.max_cut:={nm}"), x, false);
        }
        {
            let mut x = w.clone();
            x.parent = Prior::None;
            add("parent_kind", "parent:=none".into(), x, true);
        }
        for &j in present {
            let a = addr_of(j);
            if a.id != p.id {
                let mut x = w.clone();
                x.parent = Prior::Merge(p, a);
                add("parent_kind", format!("parent:=merge(parent,c{j})"), x, true);
                let mut x = w.clone();
                x.parent = Prior::Merge(a, p);
                add("parent_kind", format!("parent:=merge(c{j},parent)"), x, true);
                let mut x = w.clone();
                x.parent = Prior::Merge(p, a);
                x.priority = Priority::Merge;
                add("parent_kind", format!("parent:=merge(parent,c{j})+priority:=Merge"), x, true);
            }
        }
        {
            let mut x = w.clone();
            x.parent = Prior::Merge(p, p);
            add("parent_kind", "parent:=merge(parent,parent)".into(), x, true);
        }
    } else {
        // init: give it a parent
        let mut x = w.clone();
        x.parent = Prior::Single(Address { id: CmdId::from_bytes([7; 32]), max_cut: MaxCut::new(0) });
        add("parent_kind", "parent:=single(unknown)".into(), x, true);
        let mut x = w.clone();
        x.parent = Prior::Single(Address { id: CmdId::from_bytes(w.id), max_cut: MaxCut::new(0) });
        add("parent_kind", "parent:=single(self)".into(), x, true);
    }
    // ---- priority and policy (not named by the statement)
    let mut prios = vec![Priority::Merge, Priority::Basic(0), Priority::Basic(u32::MAX), Priority::Finalize, Priority::Init];
    if let Priority::Basic(n) = w.priority {
        prios.push(Priority::Basic(n + 1));
        prios.push(Priority::Basic(n - 1));
    }
    for pr in prios {
        let mut x = w.clone();
        x.priority = pr.clone();
        add("priority", format!("priority:={pr:?}"), x, false);
    }
    for (nm, pol) in [("none", None), ("0", Some(vec![0u8; 8])), ("1", Some(vec![1, 0, 0, 0, 0, 0, 0, 0])), ("short", Some(vec![0u8; 3])), ("ff", Some(vec![0xff; 8]))] {
        let mut x = w.clone();
        x.policy = pol;
        add("policy", format!("policy:={nm}"), x, false);
    }
    // ---- the data (VmProtocolData) structurally
    let lay = layout(&w.data);
    let d = &w.data;
    let author: [u8; 32] = d[lay.author.0..lay.author.1].try_into().unwrap();
    let kind = std::str::from_utf8(&d[lay.kind.0..lay.kind.1]).unwrap().to_string();
    let payload = d[lay.payload.0..lay.payload.1].to_vec();
    let sig = d[lay.sig.0..lay.sig.1].to_vec();
    let mk = |data: Option<Vec<u8>>| -> Option<Wire> {
        data.map(|d| {
            let mut x = w.clone();
            x.data = d;
            x
        })
    };
    for (i, dev) in h.dev_ids.iter().enumerate() {
        if *dev != author {
            if let Some(x) = mk(encode(dev, &kind, &payload, &sig)) {
                add("author", format!("author:=device{i}"), x, true);
            }
        }
    }
    if let Some(x) = mk(encode(&[0x55; 32], &kind, &payload, &sig)) {
        add("author", "author:=unregistered".into(), x, true);
    }
    if let Some(x) = mk(encode(&[0; 32], &kind, &payload, &sig)) {
        add("author", "author:=default(all-zero)".into(), x, true);
    }
    for (nm, v) in [("all-ff".to_string(), [0xffu8; 32]), ("command-id".to_string(), w.id), ("graph-id".to_string(), h.graph)].into_iter().chain(match w.parent {
        Prior::Single(p) => Some(("parent-id".to_string(), *p.id.as_array())),
        _ => None,
    }) {
        if v != author {
            if let Some(x) = mk(encode(&v, &kind, &payload, &sig)) {
                add("author", format!("author:={nm}"), x, true);
            }
        }
    }
    for k in ["Init", "AddDevice", "SetCounter", "IncrementCounter", "GetCounter", "Nope", &kind.to_lowercase(), &format!("{kind}x")] {
        if k != kind {
            if let Some(x) = mk(encode(&author, k, &payload, &sig)) {
                add("kind", format!("kind:={k}"), x, true);
            }
        }
    }
    for j in 0..h.cmds.len() {
        if j == ci {
            continue;
        }
        let o = &h.cmds[j];
        let ol = layout(&o.data);
        let od = &o.data;
        let oauthor: [u8; 32] = od[ol.author.0..ol.author.1].try_into().unwrap();
        let okind = std::str::from_utf8(&od[ol.kind.0..ol.kind.1]).unwrap().to_string();
        let opayload = &od[ol.payload.0..ol.payload.1];
        let osig = &od[ol.sig.0..ol.sig.1];
        if let Some(x) = mk(encode(&author, &kind, opayload, &sig)) {
            add("payload", format!("fields:=c{j}"), x, true);
        }
        if let Some(x) = mk(encode(&author, &kind, &payload, osig)) {
            add("signature", format!("signature:=c{j}"), x, true);
        }
        if let Some(x) = mk(encode(&author, &okind, opayload, &sig)) {
            add("swap", format!("kind+fields:=c{j}"), x, true);
        }
        // signature and id swapped in from another honest command
        if let Some(data) = encode(&author, &kind, &payload, osig) {
            let mut x = w.clone();
            x.data = data;
            x.id = o.id;
            add("swap", format!("signature+id:=c{j}"), x, true);
        }
        // whole envelope (author, signature, id) of another command around this command's body
        if let Some(data) = encode(&oauthor, &kind, &payload, osig) {
            let mut x = w.clone();
            x.data = data;
            x.id = o.id;
            add("swap", format!("envelope(author,signature,id):=c{j}"), x, true);
        }
        // another command's whole data under this command's id / parent
        {
            let mut x = w.clone();
            x.data = o.data.clone();
            add("swap", format!("data:=c{j}"), x, true);
            // the other honest command re-parented onto this command's parent
            let mut x = o.clone();
            x.parent = w.parent;
            x.priority = o.priority.clone();
            if !present.contains(&j) && x != *o {
                add("swap", format!("c{j} re-parented onto this parent"), x, true);
            }
        }
    }
    // ---- non-canonical re-encodings: the same values in a different byte string
    // (a) of the payload, which is what the author signed: every varint in an overlong form
    for (vi, (off, len, what_v)) in payload_varints(&h.machine, &kind, &payload).into_iter().enumerate() {
        for extra in 1..=2 {
            if len + extra > 10 {
                continue;
            }
            let p2 = overlong(&payload, off, len, extra);
            if let Some(x) = mk(encode(&author, &kind, &p2, &sig)) {
                add("payload_reencoding", format!("fields.varint{vi}({what_v})+{extra}"), x, true);
            }
        }
    }
    // (b) of the outer VmProtocolData framing (length prefixes of author / kind / fields / signature),
    // which is not covered by the signature: author, kind, payload bytes and signature stay
    // byte-identical, so these are recorded only (see `equivalent`)
    for f in lay.fields.iter().filter(|f| f.name.ends_with("_len")) {
        for extra in 1..=2 {
            let mut x = w.clone();
            x.data = overlong(&w.data, f.start, f.end - f.start, extra);
            add("outer_framing_reencoding", format!("data:{}+{extra}", f.name), x, true);
        }
    }
    // ---- the data bytewise: DESIGN 4.8 over every field of the encoding
    let other = h.cmds.iter().enumerate().find(|(j, o)| *j != ci && o.data.len() == w.data.len()).map(|(_, o)| o.data.clone());
    let positions = match alphabet {
        Alphabet::Thorough => Positions::All,
        Alphabet::Quick => Positions::AllAlphabetOnly,
        Alphabet::Coarse => Positions::FieldEdges,
    };
    for c in corruptions(&w.data, &lay.fields, other.as_deref(), positions) {
        if coarse && c.name.starts_with("trunc[") {
            let i: usize = c.name[6..c.name.len() - 1].parse().unwrap_or(0);
            if !lay.fields.iter().any(|f| f.start == i) {
                continue;
            }
        }
        let (class, bound) = field_class(&c.name);
        let mut x = w.clone();
        x.data = c.bytes;
        add(class, format!("data:{}", c.name), x, bound);
    }
    out
}

// ------------------------------------------------------------------------------------------------
// one history

#[derive(Clone, Copy, PartialEq, Eq, Debug)]
enum Mode {
    /// the modified command arrives alone; its parent is already committed
    Single,
    /// one open transaction: the honest parent and the modified child, in one or two add_commands
    /// calls (the child is appended to the in-flight perspective); afterwards the transaction is
    /// committed or dropped
    InFlight { two_calls: bool, commit: bool },
}

struct Case {
    ci: usize,
    base_name: &'static str,
    base: Vec<usize>,
    tamper: Option<Tamper>,
    mode: Mode,
    /// in-flight mode: index of the parent, honest observation after base+parent and after base+parent+child
    parent: usize,
    ref_parent: u64,
    ref_final: u64,
}

struct Ctx {
    module: Module,
    observer: Device,
}

#[derive(Default)]
struct CaseOut {
    tally: Tally,
    states: Vec<u64>,
    transitions: u64,
}

/// the decoded command is identical to the honest one (only its encoding differs)
fn equivalent(t: &Wire, h: &Wire) -> bool {
    if t.id != h.id || t.parent != h.parent || t.priority != h.priority || t.policy != h.policy {
        return false;
    }
    let (Ok(a), Ok(b)) = (postcard::from_bytes::<VmProtocolData<'_>>(&t.data), postcard::from_bytes::<VmProtocolData<'_>>(&h.data)) else { return false };
    a.author_id == b.author_id && a.kind == b.kind && a.serialized_fields == b.serialized_fields && a.signature == b.signature
}

fn run_case(ctx: &Ctx, h: &Honest, case: &Case) -> CaseOut {
    if let Mode::InFlight { two_calls, commit } = case.mode {
        return run_inflight(ctx, h, case, two_calls, commit);
    }
    let mut o = CaseOut::default();
    let t = &mut o.tally;
    let g = GraphId::from_bytes(h.graph);
    let cname = format!("c{}.{}", case.ci, h.names[case.ci]);
    let mut r = replica(&ctx.module, &ctx.observer);
    let fail = |what: &str, e: String| -> ! { mcx::machinery_error(&format!("{cname}/{}: {what}: {e}", case.base_name)) };
    if !case.base.is_empty() {
        let base: Vec<Wire> = case.base.iter().map(|&j| h.cmds[j].clone()).collect();
        let n = r.deliver(g, &base).unwrap_or_else(|e| fail("honest delivery of the base failed", e));
        if n != base.len() {
            fail("base", format!("{n} of {} base commands added", base.len()));
        }
        o.transitions += 1;
    }
    let obs0 = r.observe(g).unwrap_or_else(|e| fail("observe", e));
    let eff0 = r.sink.committed.len();
    t.count("evaluations", 1);
    o.states.push(mcx::fnv64(format!("{obs0:?}").as_bytes()));

    let honest = &h.cmds[case.ci];
    let Some(tam) = &case.tamper else {
        // the honest history
        let res = r.deliver(g, std::slice::from_ref(honest));
        o.transitions += 1;
        let obs1 = r.observe(g).unwrap_or_else(|e| fail("observe", e));
        match &res {
            Ok(1) if obs1.as_ref().is_some_and(|ob| ob.cmds.contains_key(&hexs(&honest.id))) && r.sink.committed.len() > eff0 => {
                t.count("accepted_honest", 1);
                t.outcome("honest:accepted");
                if case.ci == 1 {
                    t.sample(json!({"history": ["deliver base", "deliver honest command"], "command": cname, "base": case.base, "wire": honest.to_json(), "result": "accepted", "effects": r.sink.committed[eff0..].to_vec(), "observation": obs1.as_ref().map(|x| x.short())}));
                }
            }
            other => t.violation(
                format!("{cname}/{}/honest", case.base_name),
                format!("the unmodified command was not accepted with its effect: {other:?}; {}", obs1.as_ref().map(|x| x.short()).unwrap_or_default()),
                json!({"command": cname, "base": case.base, "wire": honest.to_json()}),
            ),
        }
        o.states.push(obs1.map(|x| x.canon()).unwrap_or(0));
        return o;
    };

    let what = format!("{cname}/{}/{}:{}", case.base_name, tam.class, tam.name);
    // stable key: field class + modification shape (which honest command / base it was seen on is in
    // the description and the replay file)
    let mut shape = tam.name.clone();
    for j in 0..h.cmds.len() {
        shape = shape.replace(&format!("c{j}"), "other");
    }
    let vkey = format!("{}:{shape}", tam.class);
    let replay = || json!({"command": cname, "base": case.base, "class": tam.class, "modification": tam.name, "wire": tam.wire.to_json(), "honest_wire": honest.to_json()});
    t.count("deliveries_tampered", 1);
    t.count(&format!("class_{}", tam.class), 1);
    let equiv = equivalent(&tam.wire, honest);
    let res = r.deliver(g, std::slice::from_ref(&tam.wire));
    o.transitions += 1;
    let obs1 = r.observe(g).unwrap_or_else(|e| fail("observe after modified delivery", e));
    let new_effects = r.sink.committed.len() - eff0;
    let unchanged = obs1 == obs0 && new_effects == 0;
    let stored = obs1.as_ref().is_some_and(|ob| ob.cmds.contains_key(&hexs(&tam.wire.id)) && !obs0.as_ref().is_some_and(|b| b.cmds.contains_key(&hexs(&tam.wire.id))));
    let outcome = match &res {
        Ok(0) => "skipped".to_string(),
        Ok(_) => "accepted".to_string(),
        Err(e) if e.starts_with("PANIC") => format!("panicked({})", e.trim_start_matches("PANIC: ")),
        Err(e) => {
            let e = e.split(':').take(3).collect::<Vec<_>>().join(":");
            let e = if e.contains("no such parent") { "add_commands: no such parent".to_string() } else { e };
            format!("refused({})", e.trim())
        }
    };
    o.states.push(mcx::fnv64(format!("{}|{}|{}|{:?}", case.ci, tam.class, outcome, obs1.as_ref().map(|x| x.canon())).as_bytes()));
    let scope = if equiv {
        "equivalent_encoding"
    } else if tam.bound {
        "named_field"
    } else {
        "unnamed_field"
    };
    t.outcome(&format!("{scope}:{}:{outcome}", tam.class));
    if case.ci == 2 && case.base_name == "ancestors" && ["id^bit0", "author:=device1", "kind:=IncrementCounter", "parent:=c0", "data:signature[0]=00"].contains(&tam.name.as_str()) {
        t.sample(json!({"history": ["deliver base", "deliver modified command", "deliver honest command"], "command": cname, "base": case.base, "class": tam.class, "modification": tam.name, "modified_wire": tam.wire.to_json(), "result": outcome, "observation_unchanged": unchanged}));
    }
    let refused = !matches!(res, Ok(n) if n > 0);
    if let Err(e) = &res {
        if let Some(msg) = e.strip_prefix("PANIC: ") {
            t.count("panics_on_modified_input", 1);
            if !tam.bound || equiv {
                t.count("panics_on_unnamed_field", 1);
            } else {
            t.violation(
                format!("panic:{msg}"),
                format!("delivering a modified command panicked the replica instead of refusing it (first seen: {what}); location {}", mcx::last_panic_location()),
                replay(),
            );
            }
        }
    }
    if equiv {
        t.count("equivalent_encoding_cases", 1);
    } else if tam.bound {
        if refused && unchanged {
            t.count("rejected_tampered", 1);
            // reached the policy (open / verify) rather than a structural check?
            if matches!(&res, Err(e) if e.contains("policy error")) {
                t.count("rejected_by_policy", 1);
                t.nontrivial(&what);
            } else {
                t.count("rejected_structurally", 1);
            }
        } else {
            t.nontrivial(&what);
            let mut why = vec![];
            if !refused {
                why.push("add_commands accepted it".to_string());
            }
            if stored {
                why.push("it is now a stored command".to_string());
            }
            if obs1 != obs0 {
                why.push(format!("observation changed: {} → {}", obs0.as_ref().map(|x| x.short()).unwrap_or("no graph".into()), obs1.as_ref().map(|x| x.short()).unwrap_or("no graph".into())));
            }
            if new_effects > 0 {
                why.push(format!("{new_effects} effect(s) committed"));
            }
            t.count(&format!("violations_in_class_{}", tam.class), 1);
            t.violation(vkey.clone(), format!("{cname} on base {:?}: modified command ({}) was not cleanly refused [{outcome}]: {}", case.base, tam.name, why.join("; ")), replay());
        }
    } else {
        t.count("unnamed_field_cases", 1);
        if refused && unchanged {
            t.count("unnamed_field_refused", 1);
        } else {
            t.count("unnamed_field_accepted_or_traced", 1);
        }
    }

    if !refused && tam.bound && !equiv {
        let res2 = r.deliver(g, std::slice::from_ref(honest));
        o.transitions += 1;
        let obs2 = r.observe(g).unwrap_or_else(|e| fail("observe after honest delivery", e));
        let stored_honest = obs2.as_ref().is_some_and(|ob| ob.cmds.get(&hexs(&honest.id)).is_some_and(|c| c.2 == honest.data && c.0.len() == 1));
        t.outcome(&format!("after_accepted_forgery:honest_delivery:{}:{}", match &res2 { Ok(0) => "skipped".into(), Ok(_) => "accepted".into(), Err(e) => format!("refused({})", e.split(':').take(2).collect::<Vec<_>>().join(":")) }, if stored_honest { "honest_command_stored" } else { "honest_command_not_stored" }));
    }
    // second step: the honest command must still be accepted and give the honest observation
    if refused && unchanged {
        let res2 = r.deliver(g, std::slice::from_ref(honest));
        o.transitions += 1;
        let obs2 = r.observe(g).unwrap_or_else(|e| fail("observe after honest delivery", e));
        t.count("two_step_histories", 1);
        let ok = matches!(res2, Ok(1)) && obs2.as_ref().is_some_and(|ob| ob.cmds.contains_key(&hexs(&honest.id)));
        o.states.push(obs2.as_ref().map(|x| x.canon()).unwrap_or(0));
        if ok {
            t.count("honest_accepted_after_tampered", 1);
        } else if !equiv {
            t.violation(format!("{vkey}:then-honest"), format!("{cname} on base {:?}: after the refused modified command ({}) the honest command was not accepted: {res2:?}; {}", case.base, tam.name, obs2.as_ref().map(|x| x.short()).unwrap_or_default()), replay());
        }
        // the observation must be that of the honest history (compared by the caller through canon)
        o.tally.counters.insert(format!("__final:{}:{}", case.ci, case.base_name), obs2.map(|x| x.canon()).unwrap_or(0));
    }
    o
}

/// One in-flight history (see `Mode::InFlight`).
fn run_inflight(ctx: &Ctx, h: &Honest, case: &Case, two_calls: bool, commit: bool) -> CaseOut {
    let mut o = CaseOut::default();
    let t = &mut o.tally;
    let g = GraphId::from_bytes(h.graph);
    let cname = format!("c{}.{}", case.ci, h.names[case.ci]);
    let mode_name = format!("in-flight({}, then {})", if two_calls { "two add_commands calls" } else { "one add_commands call" }, if commit { "commit" } else { "drop" });
    let fail = |what: &str, e: String| -> ! { mcx::machinery_error(&format!("{cname}/{mode_name}: {what}: {e}")) };
    let mut r = replica(&ctx.module, &ctx.observer);
    if !case.base.is_empty() {
        let base: Vec<Wire> = case.base.iter().map(|&j| h.cmds[j].clone()).collect();
        r.deliver(g, &base).unwrap_or_else(|e| fail("honest delivery of the base failed", e));
        o.transitions += 1;
    }
    let obs0 = r.observe(g).unwrap_or_else(|e| fail("observe", e)).map(|x| x.canon()).unwrap_or(0);
    o.states.push(obs0);
    t.count("evaluations", 1);
    t.count("inflight_histories", 1);
    let parent = &h.cmds[case.parent];
    let honest = &h.cmds[case.ci];
    let child: &Wire = case.tamper.as_ref().map(|x| &x.wire).unwrap_or(honest);
    let parent_id_hex = hexs(&parent.id);

    // the transaction
    let eff_before = r.sink.committed.len();
    let (res, commit_res): (Result<usize, String>, Option<Result<bool, String>>) = {
        let Replica { client, sink, buffers, .. } = &mut r;
        let out = mcx::catch(|| {
            let mut trx = client.transaction(g);
            let res = if two_calls {
                match client.add_commands(&mut trx, sink, std::slice::from_ref(parent), buffers, MemSpill::new) {
                    Ok(1) => {}
                    other => return (Err(format!("MACHINERY: honest parent not added: {other:?}")), None),
                }
                client.add_commands(&mut trx, sink, std::slice::from_ref(child), buffers, MemSpill::new).map_err(|e| format!("add_commands: {e}"))
            } else {
                let both = [parent.clone(), child.clone()];
                client.add_commands(&mut trx, sink, &both, buffers, MemSpill::new).map_err(|e| format!("add_commands: {e}"))
            };
            // on success the transaction is always committed; on error it is committed or dropped
            let c = if res.is_ok() || commit { Some(client.commit(trx, sink, buffers, MemSpill::new).map_err(|e| format!("commit: {e}"))) } else { None };
            (res, c)
        });
        match out {
            Ok(x) => x,
            Err(msg) => (Err(format!("PANIC: {msg}")), None),
        }
    };
    o.transitions += 1;
    if let Err(e) = &res {
        if e.starts_with("MACHINERY") {
            fail("setup", e.clone());
        }
    }
    let obs1 = r.observe(g).unwrap_or_else(|e| fail("observe after the transaction", e)).map(|x| x.canon()).unwrap_or(0);
    o.states.push(obs1);
    let new_effects: Vec<String> = r.sink.committed[eff_before..].to_vec();
    let foreign_effects = new_effects.iter().filter(|e| !e.ends_with(&parent_id_hex)).count();

    let Some(tam) = &case.tamper else {
        // honest in-flight history
        let want_n = if two_calls { 1 } else { 2 };
        if res == Ok(want_n) && matches!(commit_res, Some(Ok(_))) && obs1 == case.ref_final {
            t.count("accepted_honest", 1);
            t.count("inflight_accepted_honest", 1);
            t.outcome("inflight:honest:accepted");
        } else {
            t.violation(format!("{cname}/in-flight/honest"), format!("{mode_name}: honest parent+child not accepted: {res:?} commit {commit_res:?}"), json!({"command": cname, "base": case.base, "mode": mode_name}));
        }
        return o;
    };

    let mut shape = tam.name.clone();
    for j in 0..h.cmds.len() {
        shape = shape.replace(&format!("c{j}"), "other");
    }
    let vkey = format!("{}:{shape}", tam.class);
    let what = format!("{cname}/{mode_name}/{}:{}", tam.class, tam.name);
    let replay = || json!({"command": cname, "base": case.base, "parent": case.parent, "mode": mode_name, "class": tam.class, "modification": tam.name, "wire": tam.wire.to_json(), "honest_wire": honest.to_json()});
    t.count("deliveries_tampered", 1);
    t.count("inflight_deliveries_tampered", 1);
    t.count(&format!("class_{}", tam.class), 1);
    t.count(&format!("inflight_class_{}", tam.class), 1);
    let equiv = equivalent(&tam.wire, honest);
    // `Ok` that only covers the parent means the modified command was skipped as already present
    let skipped = matches!(res, Ok(n) if n == if two_calls { 0 } else { 1 });
    let refused = res.is_err() || skipped;
    let outcome = match &res {
        Ok(_) if skipped => "skipped".to_string(),
        Ok(_) => "accepted".to_string(),
        Err(e) if e.starts_with("PANIC") => format!("panicked({})", e.trim_start_matches("PANIC: ")),
        Err(e) => {
            let e = e.split(':').take(3).collect::<Vec<_>>().join(":");
            let e = if e.contains("no such parent") { "add_commands: no such parent".to_string() } else { e };
            format!("refused({})", e.trim())
        }
    };
    // expected observation after the transaction
    // an init command is stored by `add_commands` itself (the graph is created outside the
    // transaction), so with the init as parent the honest parent is present even after a drop
    let committed = matches!(commit_res, Some(Ok(_))) || (case.parent == 0 && h.cmds[0].parent == Prior::None && commit_res.is_none());
    let want_obs = if committed { case.ref_parent } else { obs0 };
    let clean = obs1 == want_obs && foreign_effects == 0 && (commit_res.is_none() || committed);
    let scope = if equiv {
        "equivalent_encoding"
    } else if tam.bound {
        "named_field"
    } else {
        "unnamed_field"
    };
    t.outcome(&format!("inflight:{scope}:{}:{outcome}", tam.class));
    o.states.push(mcx::fnv64(format!("inflight|{}|{}|{}|{obs1}", case.ci, tam.class, outcome).as_bytes()));
    if let Err(e) = &res {
        if let Some(msg) = e.strip_prefix("PANIC: ") {
            t.count("panics_on_modified_input", 1);
            if tam.bound && !equiv {
                t.violation(format!("panic:{msg}"), format!("delivering a modified command panicked the replica instead of refusing it (first seen: {what}); location {}", mcx::last_panic_location()), replay());
            } else {
                t.count("panics_on_unnamed_field", 1);
            }
        }
    }
    if equiv {
        t.count("equivalent_encoding_cases", 1);
    } else if tam.bound {
        if refused && clean {
            t.count("rejected_tampered", 1);
            t.count("inflight_rejected_tampered", 1);
            if matches!(&res, Err(e) if e.contains("policy error")) {
                t.count("rejected_by_policy", 1);
                t.nontrivial(&what);
            } else {
                t.count("rejected_structurally", 1);
            }
        } else {
            t.nontrivial(&what);
            let mut why = vec![];
            if !refused {
                why.push(format!("the add_commands call containing it returned {res:?}"));
            }
            if obs1 != want_obs {
                why.push(format!("observation after the transaction is not the honest observation of {}", if committed { "base+parent" } else { "the base" }));
            }
            if foreign_effects > 0 {
                why.push(format!("{foreign_effects} effect(s) not belonging to the parent were committed to the sink: {new_effects:?}"));
            }
            if let Some(Err(e)) = &commit_res {
                why.push(format!("commit of the transaction failed: {e}"));
            }
            t.count(&format!("violations_in_class_{}", tam.class), 1);
            t.count("inflight_violations", 1);
            t.violation(vkey.clone(), format!("{cname} on base {:?}, {mode_name}: modified command ({}) was not cleanly refused [{outcome}]: {}", case.base, tam.name, why.join("; ")), replay());
        }
    } else {
        t.count("unnamed_field_cases", 1);
        if refused && clean {
            t.count("unnamed_field_refused", 1);
        } else {
            t.count("unnamed_field_accepted_or_traced", 1);
        }
    }
    // afterwards the honest delivery must be accepted and give the honest observation
    if refused && clean {
        let later: Vec<Wire> = if committed { vec![honest.clone()] } else { vec![parent.clone(), honest.clone()] };
        let res2 = r.deliver(g, &later);
        o.transitions += 1;
        let obs2 = r.observe(g).unwrap_or_else(|e| fail("observe after honest delivery", e)).map(|x| x.canon()).unwrap_or(0);
        o.states.push(obs2);
        t.count("two_step_histories", 1);
        if res2 == Ok(later.len()) && obs2 == case.ref_final {
            t.count("honest_accepted_after_tampered", 1);
            t.count("two_step_observation_equal_to_honest", 1);
        } else if !equiv {
            t.violation(format!("{vkey}:then-honest"), format!("{cname} on base {:?}, {mode_name}: after the refused modified command ({}) the honest delivery gave {res2:?} / {}", case.base, tam.name, if obs2 == case.ref_final { "the honest observation" } else { "a different observation" }), replay());
        }
    }
    o
}

// ------------------------------------------------------------------------------------------------

pub fn run(args: &Args) {
    let mut rep = Report::new(args, Level::ModelChecking);
    mcx::quiet_panics();
    let replay_key = replay_key(args);
    let thorough = args.tier == Tier::Thorough;
    let module = compile_module();
    let h = honest_script(args.seed, &module);
    if h.cmds.len() != 6 {
        mcx::machinery_error("honest script did not produce 6 commands");
    }
    // bases: the command's ancestors; and everything that is not a descendant
    let anc: [&[usize]; 6] = [&[], &[0], &[0, 1], &[0, 1, 2], &[0, 1, 2], &[0, 1, 2, 4]];
    let maxb: [&[usize]; 6] = [&[], &[0], &[0, 1], &[0, 1, 2, 4, 5], &[0, 1, 2, 3], &[0, 1, 2, 4, 3]];
    let mut cases: Vec<Case> = vec![];
    for ci in 0..6 {
        let mut bases: Vec<(&'static str, Vec<usize>)> = vec![("ancestors", anc[ci].to_vec())];
        if maxb[ci] != anc[ci] {
            bases.push(("all-non-descendants", maxb[ci].to_vec()));
        }
        for (bi, (bn, base)) in bases.into_iter().enumerate() {
            cases.push(Case { ci, base_name: bn, base: base.clone(), tamper: None, mode: Mode::Single, parent: 0, ref_parent: 0, ref_final: 0 });
            for tm in tampers(&h, ci, &base, if thorough { Alphabet::Thorough } else { Alphabet::Quick }) {
                // quick: the larger base only for the modifications that depend on what else is stored
                if bi == 1 && !thorough && !matches!(tm.class, "parent_id" | "parent_kind" | "parent_max_cut" | "swap" | "id") {
                    continue;
                }
                cases.push(Case { ci, base_name: bn, base: base.clone(), tamper: Some(tm), mode: Mode::Single, parent: 0, ref_parent: 0, ref_final: 0 });
            }
        }
    }
    // in-flight mode: base = ancestors of the parent; [honest parent, modified child] in one transaction
    {
        let observer = device(args.seed, 2);
        for ci in 1..6 {
            let Prior::Single(pa) = h.cmds[ci].parent else { mcx::machinery_error("non-init honest command without a single parent") };
            let p = h.cmds.iter().position(|c| c.id == *pa.id.as_array()).unwrap_or_else(|| mcx::machinery_error("parent not in script"));
            let base = anc[p].to_vec();
            // honest reference observations
            let g = GraphId::from_bytes(h.graph);
            let mut r = replica(&module, &observer);
            let mut seq: Vec<Wire> = base.iter().map(|&j| h.cmds[j].clone()).collect();
            if !seq.is_empty() {
                r.deliver(g, &seq).unwrap_or_else(|e| mcx::machinery_error(&format!("reference base: {e}")));
            }
            seq = vec![h.cmds[p].clone()];
            r.deliver(g, &seq).unwrap_or_else(|e| mcx::machinery_error(&format!("reference parent: {e}")));
            let ref_parent = r.observe(g).ok().flatten().map(|x| x.canon()).unwrap_or(0);
            r.deliver(g, std::slice::from_ref(&h.cmds[ci])).unwrap_or_else(|e| mcx::machinery_error(&format!("reference child: {e}")));
            let ref_final = r.observe(g).ok().flatten().map(|x| x.canon()).unwrap_or(0);
            let mut present = base.clone();
            present.push(p);
            let tms = tampers(&h, ci, &present, if thorough { Alphabet::Thorough } else { Alphabet::Coarse });
            for two_calls in [false, true] {
                for commit in [false, true] {
                    // quick: (one call, drop) and (two calls, commit); thorough: all four
                    if !thorough && two_calls != commit {
                        continue;
                    }
                    let mode = Mode::InFlight { two_calls, commit };
                    cases.push(Case { ci, base_name: "in-flight", base: base.clone(), tamper: None, mode, parent: p, ref_parent, ref_final });
                    for tm in &tms {
                        cases.push(Case { ci, base_name: "in-flight", base: base.clone(), tamper: Some(tm.clone()), mode, parent: p, ref_parent, ref_final });
                    }
                }
            }
        }
    }
    let seed = args.seed;
    let outs: Vec<CaseOut> = cases
        .par_iter()
        .map_init(|| Ctx { module: compile_module(), observer: device(seed, 2) }, |ctx, case| run_case(ctx, &h, case))
        .collect();
    let mut tally = Tally::default();
    let mut states = std::collections::BTreeSet::new();
    let mut transitions = 0u64;
    // honest final observations per (command, base)
    let mut honest_final: BTreeMap<String, u64> = BTreeMap::new();
    for (case, out) in cases.iter().zip(&outs) {
        if case.tamper.is_none() && case.mode == Mode::Single {
            if let Some(s) = out.states.last() {
                honest_final.insert(format!("{}:{}", case.ci, case.base_name), *s);
            }
        }
    }
    for (case, mut out) in cases.iter().zip(outs) {
        states.extend(out.states.iter().copied());
        transitions += out.transitions;
        let finals: Vec<(String, u64)> = out.tally.counters.iter().filter(|(k, _)| k.starts_with("__final:")).map(|(k, v)| (k.clone(), *v)).collect();
        for (k, v) in finals {
            out.tally.counters.remove(&k);
            let key = k.trim_start_matches("__final:").to_string();
            if let (Some(want), Some(tm)) = (honest_final.get(&key), &case.tamper) {
                if *want != v && !equivalent(&tm.wire, &h.cmds[case.ci]) {
                    out.tally.violation(
                        format!("{}:{}:then-honest:observation", tm.class, tm.name),
                        "modified-then-honest history ends in a different observation than the honest history".to_string(),
                        json!({"command": case.ci, "base": case.base, "modification": tm.name}),
                    );
                } else {
                    out.tally.count("two_step_observation_equal_to_honest", 1);
                }
            }
        }
        tally.merge(out.tally);
    }
    let traces = cases.len() as u64;
    let tally = filter_replay(tally, &replay_key);
    let nontrivial = tally.nontrivial.len() as u64;
    tally.into_report(&mut rep);
    rep.set("states", states.len() as u64);
    rep.set("transitions", transitions);
    rep.set("traces_validated_against_impl", traces);
    rep.set("histories", traces);
    rep.set("exhaustive", true);
    rep.set("modified_cases_decided_by_policy", nontrivial);
    rep.set("honest_commands", h.names.iter().enumerate().map(|(i, n)| format!("c{i}:{n}")).collect::<Vec<_>>());
    rep.set(
        "bounds",
        format!(
            "2 registered devices + 1 observing replica; honest script of 6 commands (one fork); bases: ancestors{}; modifications: every id bit, id / parent id / author := the distinguished values default (all-zero), all-0xff, parent id, own id, graph id, every device id (incl. the author's), command id; parent id bits ({}), parent := every stored command, parent max-cut, parent kind (none/merge), priority, policy bytes, author := other/unregistered device, kind := every command name, fields/signature/envelope/data swaps between honest commands, every varint of the payload (ints, enum discriminants, string/bytes length prefixes) and every outer length prefix in its overlong forms with 1 and 2 extra continuation bytes, DESIGN 4.8 over every byte of the serialized command (7-value alphabet{}, every truncation, trailing byte, re-cuts, length fields); every refused modification followed by the honest delivery; in-flight mode for c1..c5: base = ancestors of the parent, one transaction with [honest parent, modified child] in one and in two add_commands calls, then commit or drop ({}), then the honest delivery ({} alphabet)",
            if thorough { " and all-non-descendants for every modification" } else { " (+ all-non-descendants for id/parent/swap modifications)" },
            if thorough { "all 256" } else { "8" },
            if thorough { ", every single-bit flip" } else { "" },
            if thorough { "all four combinations" } else { "one call+drop and two calls+commit" },
            if thorough { "full" } else { "coarse: 4 id bits, 2 parent-id bits, 5 positions per field of the serialized command, truncations at field starts" }
        ),
    );
    rep.set("rule", "states = distinct observation hashes and distinct (command, field class, outcome, observation) tuples; transitions = sync deliveries executed (add_commands+commit); traces = histories run on the real ClientState/VmPolicy");
    rep.assume("the policy (harness copy of the repository's example policy) verifies signatures in every open block; keys, nonces deterministic from VERIF_SEED; DefaultCipherSuite");
    rep.assume("single mode: a delivery is one transaction with one add_commands call, committed on success and dropped on error, as the repository's syncers do; in-flight mode: the parent and the modified child share one transaction, which is committed or dropped after the failing call");
    rep.assume("recorded, not judged: modifications of priority, policy bytes and parent max-cut (not named by the statement), and re-encodings of the OUTER VmProtocolData framing (trailing byte, overlong length prefixes of author/kind/fields/signature) that leave author, kind, payload bytes and signature byte-identical — the framing is not part of what is signed. Re-encodings of the payload itself (overlong varints) change the signed bytes and are judged like any payload modification");
    guards(&mut rep, &["deliveries_tampered", "inflight_histories", "inflight_deliveries_tampered", "inflight_class_id", "inflight_class_signature", "inflight_class_payload", "inflight_class_author", "inflight_class_kind", "inflight_class_payload_reencoding", "class_payload_reencoding", "class_id", "class_parent_id", "class_parent_kind", "class_author", "class_kind", "class_payload", "class_signature", "class_swap", "class_data_framing"], &["accepted_honest", "inflight_accepted_honest", "rejected_tampered", "inflight_rejected_tampered", "rejected_by_policy", "honest_accepted_after_tampered", "two_step_observation_equal_to_honest"]);
    rep.finish()
}
