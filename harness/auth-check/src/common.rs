//! Shared pieces of the crypto binding checks: deterministic counter-mode `Csprng`, the DESIGN 4.8
//! corruption alphabet, outcome bookkeeping.

use std::{
    collections::BTreeSet,
    sync::atomic::{AtomicU64, Ordering},
};

use aranya_crypto::{
    default::{DefaultCipherSuite, DefaultEngine},
    Csprng,
};
use mcx::{Report, Value};

pub type CS = DefaultCipherSuite;
pub type Eng = DefaultEngine<CtrRng, CS>;

/// Deterministic counter-mode generator: block `i` of stream `s` is `mix(seed, s, i)`.
/// Nothing cryptographic is claimed of it; it only makes keys/nonces reproducible and
/// independent of scheduling (every case owns its stream).
pub struct CtrRng {
    seed: u64,
    stream: u64,
    ctr: AtomicU64,
}

impl CtrRng {
    pub fn new(seed: u64, stream: u64) -> Self {
        CtrRng { seed, stream, ctr: AtomicU64::new(0) }
    }
}

fn mix(mut z: u64) -> u64 {
    z = (z ^ (z >> 30)).wrapping_mul(0xbf58476d1ce4e5b9);
    z = (z ^ (z >> 27)).wrapping_mul(0x94d049bb133111eb);
    z ^ (z >> 31)
}

impl Csprng for CtrRng {
    fn fill_bytes(&self, dst: &mut [u8]) {
        for chunk in dst.chunks_mut(8) {
            let i = self.ctr.fetch_add(1, Ordering::Relaxed);
            let x = mix(mix(self.seed.wrapping_mul(0x9e3779b97f4a7c15) ^ mix(self.stream.wrapping_add(0x632be59bd9b4e019)))
                .wrapping_add(i.wrapping_mul(0x9e3779b97f4a7c15)));
            let b = x.to_le_bytes();
            chunk.copy_from_slice(&b[..chunk.len()]);
        }
    }
}

/// Stream numbers are `(domain << 32) | index` so that no two uses share a stream.
pub fn rng(seed: u64, domain: u32, index: u64) -> CtrRng {
    CtrRng::new(seed, ((domain as u64) << 40) ^ index)
}

pub fn engine(seed: u64, domain: u32, index: u64) -> Eng {
    let (eng, _key) = Eng::from_entropy(rng(seed, domain, index));
    eng
}

/// DESIGN 4.8 byte substitutions for one position (distinct, never the original value).
pub fn byte_subs(orig: u8) -> Vec<u8> {
    let mut out = Vec::with_capacity(7);
    for c in [0x00, 0x01, 0x7f, 0x80, 0xff, orig ^ 1, orig ^ 0x80] {
        if c != orig && !out.contains(&c) {
            out.push(c);
        }
    }
    out
}

/// One corruption of a byte string, with a stable textual name.
#[derive(Clone, Debug)]
pub struct Corruption {
    pub name: String,
    pub bytes: Vec<u8>,
}

/// Which positions get the full substitution alphabet.
#[derive(Clone, Copy, PartialEq, Eq)]
pub enum Positions {
    /// every byte position, 7-value alphabet plus every remaining single-bit flip
    All,
    /// every byte position, 7-value alphabet only
    #[allow(dead_code)]
    AllAlphabetOnly,
    /// first, second, middle, last-but-one and last byte of every field
    FieldEdges,
}

/// Named field of an encoding: `[start, end)`.
#[derive(Clone, Debug)]
pub struct Field {
    pub name: &'static str,
    pub start: usize,
    pub end: usize,
    /// true if the field is a one-byte length / discriminant varint
    pub is_len: bool,
}

fn edge_positions(f: &Field) -> Vec<usize> {
    let n = f.end - f.start;
    let mut v = vec![];
    for p in [0, 1, n / 2, n.saturating_sub(2), n.saturating_sub(1)] {
        if p < n && !v.contains(&(f.start + p)) {
            v.push(f.start + p);
        }
    }
    v
}

/// The DESIGN 4.8 alphabet over a valid encoding `e` with known field layout, plus field swaps
/// with a second valid object `other` of the same layout (may be `None`).
pub fn corruptions(e: &[u8], fields: &[Field], other: Option<&[u8]>, pos: Positions) -> Vec<Corruption> {
    let mut out = Vec::new();
    // truncations
    for i in 0..e.len() {
        out.push(Corruption { name: format!("trunc[{i}]"), bytes: e[..i].to_vec() });
    }
    // one extra trailing byte
    for b in [0x00u8, 0xff] {
        let mut v = e.to_vec();
        v.push(b);
        out.push(Corruption { name: format!("trail[{b:02x}]"), bytes: v });
    }
    // substitutions
    for f in fields {
        let positions: Vec<usize> = match pos {
            Positions::All | Positions::AllAlphabetOnly => (f.start..f.end).collect(),
            Positions::FieldEdges => edge_positions(f),
        };
        for p in positions {
            for c in byte_subs(e[p]) {
                let mut v = e.to_vec();
                v[p] = c;
                out.push(Corruption { name: format!("{}[{}]={c:02x}", f.name, p - f.start), bytes: v });
            }
        }
        // every bit of every byte when all positions are requested is covered for bits 0 and 7
        // by the alphabet; the remaining bits are added here so "every single-bit flip" holds.
        if pos == Positions::All {
            for p in f.start..f.end {
                for bit in 1..7 {
                    let mut v = e.to_vec();
                    v[p] ^= 1 << bit;
                    out.push(Corruption { name: format!("{}[{}]^{:02x}", f.name, p - f.start, 1u8 << bit), bytes: v });
                }
            }
        }
        if f.is_len && f.end - f.start == 1 {
            // length / discriminant field replaced by {0, len±1, 2^32-1, 2^64-1} (varint encodings)
            let l = e[f.start] as u64;
            let alts: [(&str, u64); 5] =
                [("0", 0), ("len-1", l.wrapping_sub(1) & 0x7f), ("len+1", l + 1), ("u32max", u32::MAX as u64), ("u64max", u64::MAX)];
            for (nm, val) in alts {
                if val == l {
                    continue;
                }
                let mut v = e[..f.start].to_vec();
                v.extend(varint(val));
                v.extend_from_slice(&e[f.end..]);
                out.push(Corruption { name: format!("{}:={nm}", f.name), bytes: v });
            }
        }
    }
    // one byte moved across each boundary between adjacent fields (both directions)
    for w in fields.windows(2) {
        let b = w[0].end;
        if b == 0 || b >= e.len() {
            continue;
        }
        // swap the straddling bytes
        if e[b - 1] != e[b] {
            let mut v = e.to_vec();
            v.swap(b - 1, b);
            out.push(Corruption { name: format!("{}|{}:swap", w[0].name, w[1].name), bytes: v });
        }
        // re-cut: the two adjacent fields rotated by one byte in either direction, so each
        // field receives one byte of its neighbour
        for (nm, left) in [("rot-left", true), ("rot-right", false)] {
            let mut v = e.to_vec();
            if left {
                v[w[0].start..w[1].end].rotate_left(1);
            } else {
                v[w[0].start..w[1].end].rotate_right(1);
            }
            if v != e {
                out.push(Corruption { name: format!("{}|{}:{nm}", w[0].name, w[1].name), bytes: v });
            }
        }
    }
    // every field swapped with the same field of a second valid object
    if let Some(o) = other {
        if o.len() == e.len() {
            for f in fields {
                if e[f.start..f.end] != o[f.start..f.end] {
                    let mut v = e.to_vec();
                    v[f.start..f.end].copy_from_slice(&o[f.start..f.end]);
                    out.push(Corruption { name: format!("{}:=other", f.name), bytes: v });
                }
            }
        }
    }
    out
}

pub fn varint(mut v: u64) -> Vec<u8> {
    let mut out = vec![];
    loop {
        let b = (v & 0x7f) as u8;
        v >>= 7;
        if v == 0 {
            out.push(b);
            return out;
        }
        out.push(b | 0x80);
    }
}

/// Result bucket of one worker; folded sequentially into the `Report`.
#[derive(Default)]
pub struct Tally {
    pub counters: std::collections::BTreeMap<String, u64>,
    pub outcomes: std::collections::BTreeMap<String, u64>,
    pub nontrivial: BTreeSet<u64>,
    pub violations: Vec<(String, String, Value)>,
    pub samples: Vec<Value>,
}

impl Tally {
    pub fn count(&mut self, k: &str, n: u64) {
        *self.counters.entry(k.to_string()).or_insert(0) += n;
    }
    pub fn outcome(&mut self, k: &str) {
        *self.outcomes.entry(k.to_string()).or_insert(0) += 1;
    }
    /// A tampered case that reached the cryptographic check (distinct by its full description).
    pub fn nontrivial(&mut self, desc: &str) {
        self.nontrivial.insert(mcx::fnv64(desc.as_bytes()));
    }
    pub fn violation(&mut self, key: String, desc: String, replay: Value) {
        if self.violations.len() < 2000 {
            self.violations.push((key, desc, replay));
        } else {
            self.count("violations_dropped_over_cap", 1);
        }
    }
    pub fn sample(&mut self, v: Value) {
        if self.samples.len() < 2 {
            self.samples.push(v);
        }
    }
    pub fn merge(&mut self, o: Tally) {
        for (k, v) in o.counters {
            *self.counters.entry(k).or_insert(0) += v;
        }
        for (k, v) in o.outcomes {
            *self.outcomes.entry(k).or_insert(0) += v;
        }
        self.nontrivial.extend(o.nontrivial);
        self.violations.extend(o.violations);
        // keep the simplest (shortest key) cases: those are the minimal counterexamples
        self.violations.sort_by(|a, b| (a.0.len(), &a.0).cmp(&(b.0.len(), &b.0)));
        self.violations.truncate(2000);
        for s in o.samples {
            if self.samples.len() < 8 {
                self.samples.push(s);
            }
        }
    }
    pub fn into_report(self, rep: &mut Report) {
        for (k, v) in &self.counters {
            rep.count(k, *v);
        }
        for (k, v) in &self.outcomes {
            rep.outcome(k, *v);
        }
        rep.set("distinct_nontrivial", self.nontrivial.len() as u64);
        for s in self.samples {
            rep.sample(s);
        }
        let mut vs = self.violations;
        vs.sort_by(|a, b| (a.0.len(), &a.0).cmp(&(b.0.len(), &b.0)));
        for (k, d, r) in vs {
            rep.violation(k, d, r);
        }
    }
}

pub fn hexs(b: &[u8]) -> String {
    mcx::hex(b)
}

pub fn unhex(s: &str) -> Vec<u8> {
    (0..s.len() / 2).map(|i| u8::from_str_radix(&s[2 * i..2 * i + 2], 16).unwrap_or(0)).collect()
}


/// `--replay FILE`: the cases are regenerated deterministically from the seed, so a replay re-runs
/// the enumeration and keeps only the recorded case (matched by its key).
pub fn replay_key(args: &mcx::Args) -> Option<String> {
    let p = args.replay.as_ref()?;
    let v: Value = std::fs::read_to_string(p)
        .ok()
        .and_then(|s| mcx::serde_json::from_str(&s).ok())
        .unwrap_or_else(|| mcx::machinery_error("cannot read replay file"));
    Some(v["key"].as_str().unwrap_or_else(|| mcx::machinery_error("replay file has no key")).to_string())
}

pub fn filter_replay(mut t: Tally, key: &Option<String>) -> Tally {
    if let Some(k) = key {
        t.violations.retain(|v| &v.0 == k);
        println!("replay {k}: {}", if t.violations.is_empty() { "does not reproduce (held)" } else { "reproduces" });
    }
    t
}

/// Vacuity guards: `always` are trigger counters (cases exercised) and must be non-zero in every run;
/// `if_clean` are outcome counters (accept path / reject path taken) that are only required when no
/// violation was found, so a broken subject is reported as a violation and not as a machinery error.
pub fn guards(rep: &mut Report, always: &[&str], if_clean: &[&str]) {
    for c in always {
        rep.require_nonzero(c);
    }
    let kf = mcx::KnownFindings::load(&rep.args.verif_dir);
    let prop = rep.args.prop.clone();
    if rep.violations().iter().all(|v| kf.lookup(&prop, &v.key).is_some()) {
        for c in if_clean {
            rep.require_nonzero(c);
        }
    }
}
