//! auth-check: C35 — replicas accept only authentic commands (DESIGN 5/C35).
mod c35;
mod common;

fn main() {
    let args = mcx::parse_args();
    match args.prop.as_str() {
        "C35" => c35::run(&args),
        p => mcx::machinery_error(&format!("auth-check does not serve {p}")),
    }
}
