//! crypto-check: C34, C36, C37, C38 — binding properties of the crypto layer decided by bounded
//! exhaustive enumeration of a tamper space on the real code (DESIGN 5/C34, C36–C38, 4.8).
mod common;
mod props;

fn main() {
    let args = mcx::parse_args();
    match args.prop.as_str() {
        "C34" => props::c34::run(&args),
        "C36" => props::c36::run(&args),
        "C37" => props::c37::run(&args),
        "C38" => props::c38::run(&args),
        p => mcx::machinery_error(&format!("crypto-check does not serve {p}")),
    }
}
