//! C34 — command signatures bind command, name, parent and author.
//!
//! Space (bounded, exhaustive; nothing cryptographic is claimed):
//!   signings  = keys × data × names × parents, each signed with `SigningKey::sign_cmd` and with the
//!               policy-level `crypto::sign` FFI (Seal context).
//!   P1 cross  : every signing's signature verified against *every* verification tuple
//!               (key', data', name', parent') of the alphabet (= all single and multi-point
//!               replacements of the four inputs over the alphabet), FFI additionally with the claimed
//!               id taken from the signing, from the verification tuple and from two neighbours.
//!   P2 single : per signing every single-bit flip of the signature, of the claimed id, of the parent,
//!               of the data, of the name (where it stays a valid string / identifier), of the
//!               serialized public key; first/last byte dropped, a byte appended / prepended.
//!   P3 pairs  : every pair of changes of two different kinds (signature, id, data, name, parent, key)
//!               where at least one member comes from the coarse alphabet (quick: both).
//!   P4 shifts : every other way of cutting the concatenation name‖parent‖data of a signing into
//!               (name', 32-byte parent', data') — all boundary positions, including an empty name or
//!               empty data on either side — plus the one-byte partial moves.
//! Oracle (statement): verification succeeds iff key, data, name, parent, signature and claimed id are
//! all those of one signing, and then returns that signing's id.

use std::collections::BTreeMap;

use aranya_crypto::{
    keystore::memstore::MemStore, policy::CmdId, Cmd, KeyStoreExt as _, Signature, SigningKey, VerifyingKey,
};
use aranya_crypto_ffi::Ffi;
use aranya_policy_vm::{
    ffi::FfiModule, CommandContext, Identifier, MachineStack, OpenContext, SealContext, Stack as _, Value,
};
use mcx::{json, rayon::prelude::*, Args, Level, Report, Tier};

use crate::common::*;

#[derive(Clone)]
struct Signing {
    k: usize,
    data: Vec<u8>,
    name: String,
    parent: [u8; 32],
    label: String,
    sig: Vec<u8>,
    id: [u8; 32],
    ffi_sig: Vec<u8>,
    ffi_id: [u8; 32],
}

struct Space {
    seed: u64,
    pk_bytes: Vec<Vec<u8>>,
    signings: Vec<Signing>,
    datas: Vec<Vec<u8>>,
    names: Vec<String>,
    parents: Vec<[u8; 32]>,
    tier: Tier,
}

#[derive(Clone, Debug, PartialEq)]
enum Change {
    SigBit(usize),
    IdBit(usize),
    Data(String, Vec<u8>),
    Name(String, String),
    Parent(String, [u8; 32]),
    Key(usize),
    KeyBytes(String, Vec<u8>),
}

impl Change {
    fn kind(&self) -> u8 {
        match self {
            Change::SigBit(_) => 0,
            Change::IdBit(_) => 1,
            Change::Data(..) => 2,
            Change::Name(..) => 3,
            Change::Parent(..) => 4,
            Change::Key(_) | Change::KeyBytes(..) => 5,
        }
    }
    fn label(&self) -> String {
        match self {
            Change::SigBit(i) => format!("sig^bit{i}"),
            Change::IdBit(i) => format!("id^bit{i}"),
            Change::Data(l, _) => format!("data:{l}"),
            Change::Name(l, _) => format!("name:{l}"),
            Change::Parent(l, _) => format!("parent:{l}"),
            Change::Key(k) => format!("key:=k{k}"),
            Change::KeyBytes(l, _) => format!("pk:{l}"),
        }
    }
}

/// One fully concrete verification request.
#[derive(Clone)]
struct Case {
    pk: Vec<u8>,
    data: Vec<u8>,
    name: String,
    parent: [u8; 32],
    sig: Vec<u8>,
    claimed: [u8; 32],
}

impl Case {
    fn to_json(&self) -> mcx::Value {
        json!({"pk": hexs(&self.pk), "data": hexs(&self.data), "name": self.name, "parent": hexs(&self.parent),
               "sig": hexs(&self.sig), "claimed_id": hexs(&self.claimed)})
    }
    fn from_json(v: &mcx::Value) -> Option<Case> {
        let g = |k: &str| v.get(k).and_then(|x| x.as_str()).map(unhex);
        let a32 = |b: Vec<u8>| -> Option<[u8; 32]> { b.try_into().ok() };
        Some(Case {
            pk: g("pk")?,
            data: g("data")?,
            name: v.get("name")?.as_str()?.to_string(),
            parent: a32(g("parent")?)?,
            sig: g("sig")?,
            claimed: a32(g("claimed_id")?)?,
        })
    }
}

#[derive(Debug, Clone, PartialEq)]
enum Out {
    Accept([u8; 32]),
    RejPkParse,
    RejSigParse,
    RejAuth,
}

struct Worker {
    eng: Eng,
    ffi: Ffi<MemStore>,
    verify_idx: usize,
    pks: BTreeMap<Vec<u8>, Option<VerifyingKey<CS>>>,
}

impl Worker {
    fn new(seed: u64) -> Self {
        Worker {
            eng: engine(seed, 34, 0xffff),
            ffi: Ffi::new(MemStore::new()),
            verify_idx: proc_index("verify"),
            pks: BTreeMap::new(),
        }
    }

    fn crypto(&mut self, c: &Case) -> Out {
        let pk = self
            .pks
            .entry(c.pk.clone())
            .or_insert_with(|| postcard::from_bytes::<VerifyingKey<CS>>(&c.pk).ok());
        let Some(pk) = pk else { return Out::RejPkParse };
        let Ok(sig) = Signature::<CS>::from_bytes(&c.sig) else { return Out::RejSigParse };
        let parent = CmdId::from_bytes(c.parent);
        match pk.verify_cmd(Cmd { data: &c.data, name: &c.name, parent_id: &parent }, &sig) {
            Ok(id) => Out::Accept(*id.as_array()),
            Err(_) => Out::RejAuth,
        }
    }

    /// `None` if the name is not a policy identifier (the FFI cannot be asked).
    fn ffi(&mut self, c: &Case) -> Option<Result<(), String>> {
        let name: Identifier = c.name.parse().ok()?;
        let ctx = CommandContext::Open(OpenContext { name });
        let mut st = MachineStack::new();
        let push = |st: &mut MachineStack, v: Value| st.push_value(v).unwrap_or_else(|e| mcx::machinery_error(&format!("stack push: {e}")));
        push(&mut st, Value::Option(Some(Box::new(Value::Bytes(c.pk.clone())))));
        push(&mut st, Value::Id(CmdId::from_bytes(c.parent).as_base()));
        push(&mut st, Value::Bytes(c.data.clone()));
        push(&mut st, Value::Id(CmdId::from_bytes(c.claimed).as_base()));
        push(&mut st, Value::Bytes(c.sig.clone()));
        Some(match self.ffi.call(self.verify_idx, &mut st, &ctx, &self.eng) {
            Ok(()) => Ok(()),
            Err(e) => Err(format!("{e}")),
        })
    }
}

fn proc_index(name: &str) -> usize {
    <Ffi<MemStore> as FfiModule>::SCHEMA
        .functions
        .iter()
        .position(|f| f.name.as_str() == name)
        .unwrap_or_else(|| mcx::machinery_error(&format!("crypto FFI has no function `{name}`")))
}

fn build_space(args: &Args) -> Space {
    let seed = args.seed;
    let tier = args.tier;
    let nkeys = tier.pick(3, 4);
    // data: empty, 1 B, exactly one id wide (32 B: a re-partition can turn it into the parent), 33 B
    let mut datas: Vec<Vec<u8>> = vec![vec![], vec![0x41], (0..32u8).map(|i| b'a' + i % 26).collect(), (0..33u8).map(|i| i.wrapping_mul(7).wrapping_add(0x30)).collect()];
    // names: empty (a legal `&str`; not a policy identifier, so aranya-crypto level only), 1 char, 9 chars
    let mut names: Vec<String> = vec!["".into(), "A".into(), "AddDevice".into()];
    // parent ids: default; one whose first and last bytes are identifier characters (so re-cuts
    // stay valid names); one pseudo-random.
    let mut p1 = [0u8; 32];
    for (i, b) in p1.iter_mut().enumerate() {
        *b = b'B' + (i as u8 % 24);
    }
    let mut p2 = [0u8; 32];
    aranya_crypto::Csprng::fill_bytes(&rng(seed, 34, 0x100), &mut p2);
    let mut parents = vec![[0u8; 32], p1, p2];
    if tier == Tier::Thorough {
        datas.push(vec![0u8; 64]);
        names.push("AddDevicf".into());
        let mut p3 = p1;
        p3[31] ^= 1;
        parents.push(p3);
    }

    let eng = engine(seed, 34, 0);
    let mut store = MemStore::new();
    let mut sks = vec![];
    let mut pk_bytes = vec![];
    for k in 0..nkeys {
        let sk = SigningKey::<CS>::new(rng(seed, 34, 1 + k as u64));
        let pk = sk.public().unwrap_or_else(|e| mcx::machinery_error(&format!("public key: {e}")));
        pk_bytes.push(postcard::to_allocvec(&pk).unwrap_or_else(|e| mcx::machinery_error(&format!("encode pk: {e}"))));
        store.insert_key(&eng, sk.clone()).unwrap_or_else(|e| mcx::machinery_error(&format!("insert key: {e}")));
        sks.push(sk);
    }
    let ffi = Ffi::new(store);
    let sign_idx = proc_index("sign");
    let mut signings = vec![];
    for (k, sk) in sks.iter().enumerate() {
        for (d, data) in datas.iter().enumerate() {
            for name in names.iter() {
                for (p, parent) in parents.iter().enumerate() {
                    let pid = CmdId::from_bytes(*parent);
                    let (sig, id) = sk
                        .sign_cmd(Cmd { data, name, parent_id: &pid })
                        .unwrap_or_else(|e| mcx::machinery_error(&format!("sign_cmd: {e}")));
                    use core::borrow::Borrow as _;
                    let sig_bytes = sig.to_bytes().borrow().to_vec();
                    // policy-level sign
                    let Ok(ident) = name.parse::<Identifier>() else {
                        // not a policy identifier (the empty name): the policy-level sign cannot be asked;
                        // the policy-level verify is still tried with the sign_cmd signature
                        signings.push(Signing { k, data: data.clone(), name: name.clone(), parent: *parent, label: format!("k{k}/d{d}/n{name}/p{p}"), sig: sig_bytes.clone(), id: *id.as_array(), ffi_sig: sig_bytes, ffi_id: *id.as_array() });
                        continue;
                    };
                    let ctx = CommandContext::Seal(SealContext { name: ident, head_id: pid });
                    let mut st = MachineStack::new();
                    let sk_id = sk.id().unwrap_or_else(|e| mcx::machinery_error(&format!("sk id: {e}")));
                    st.push_value(Value::Option(Some(Box::new(Value::Id(sk_id.as_base()))))).unwrap();
                    st.push_value(Value::Bytes(data.clone())).unwrap();
                    ffi.call(sign_idx, &mut st, &ctx, &eng)
                        .unwrap_or_else(|e| mcx::machinery_error(&format!("crypto::sign FFI failed: {e}")));
                    let Ok(Value::Struct(s)) = st.pop_value() else { mcx::machinery_error("crypto::sign did not return a struct") };
                    let mut fsig = None;
                    let mut fid = None;
                    for (fname, v) in &s.fields {
                        match (fname.as_str(), v) {
                            ("signature", Value::Bytes(b)) => fsig = Some(b.clone()),
                            ("command_id", Value::Id(i)) => fid = Some(*i.as_array()),
                            _ => {}
                        }
                    }
                    let (Some(ffi_sig), Some(ffi_id)) = (fsig, fid) else { mcx::machinery_error("crypto::sign struct lacks fields") };
                    signings.push(Signing {
                        k,
                        data: data.clone(),
                        name: name.clone(),
                        parent: *parent,
                        label: format!("k{k}/d{d}/n{name}/p{p}"),
                        sig: sig_bytes,
                        id: *id.as_array(),
                        ffi_sig,
                        ffi_id,
                    });
                }
            }
        }
    }
    Space { seed, pk_bytes, signings, datas, names, parents, tier }
}

impl Space {
    fn base_case(&self, s: &Signing, ffi: bool) -> Case {
        Case {
            pk: self.pk_bytes[s.k].clone(),
            data: s.data.clone(),
            name: s.name.clone(),
            parent: s.parent,
            sig: if ffi { s.ffi_sig.clone() } else { s.sig.clone() },
            claimed: if ffi { s.ffi_id } else { s.id },
        }
    }

    fn apply(&self, c: &mut Case, ch: &Change) {
        match ch {
            Change::SigBit(i) => c.sig[i / 8] ^= 1 << (i % 8),
            Change::IdBit(i) => c.claimed[i / 8] ^= 1 << (i % 8),
            Change::Data(_, d) => c.data = d.clone(),
            Change::Name(_, n) => c.name = n.clone(),
            Change::Parent(_, p) => c.parent = *p,
            Change::Key(k) => c.pk = self.pk_bytes[*k].clone(),
            Change::KeyBytes(_, b) => c.pk = b.clone(),
        }
    }

    /// (fine, coarse) change alphabets for one signing; coarse ⊆ fine.
    fn alphabets(&self, s: &Signing) -> (Vec<Change>, Vec<Change>) {
        let mut fine = vec![];
        let mut coarse = vec![];
        for i in 0..s.sig.len() * 8 {
            let c = Change::SigBit(i);
            if [0, 255, 256, 511].contains(&i) {
                coarse.push(c.clone());
            }
            fine.push(c);
        }
        for i in 0..256 {
            let c = Change::IdBit(i);
            if [0, 255].contains(&i) {
                coarse.push(c.clone());
            }
            fine.push(c);
        }
        // data
        for (d, alt) in self.datas.iter().enumerate() {
            if *alt != s.data {
                let c = Change::Data(format!("=d{d}"), alt.clone());
                coarse.push(c.clone());
                fine.push(c);
            }
        }
        for i in 0..s.data.len() * 8 {
            let mut v = s.data.clone();
            v[i / 8] ^= 1 << (i % 8);
            let c = Change::Data(format!("^bit{i}"), v);
            if i == 0 {
                coarse.push(c.clone());
            }
            fine.push(c);
        }
        {
            let mut v = s.data.clone();
            v.push(0);
            let c = Change::Data("append00".into(), v);
            coarse.push(c.clone());
            fine.push(c);
            let mut v = s.data.clone();
            v.insert(0, 0);
            fine.push(Change::Data("prepend00".into(), v));
            if !s.data.is_empty() {
                let c = Change::Data("droplast".into(), s.data[..s.data.len() - 1].to_vec());
                coarse.push(c.clone());
                fine.push(c);
                fine.push(Change::Data("dropfirst".into(), s.data[1..].to_vec()));
            }
        }
        // name
        for alt in &self.names {
            if *alt != s.name {
                let c = Change::Name(format!("={alt}"), alt.clone());
                coarse.push(c.clone());
                fine.push(c);
            }
        }
        for i in 0..s.name.len() * 8 {
            let mut v = s.name.clone().into_bytes();
            v[i / 8] ^= 1 << (i % 8);
            if let Ok(n) = String::from_utf8(v) {
                let c = Change::Name(format!("^bit{i}"), n);
                if i == 0 {
                    coarse.push(c.clone());
                }
                fine.push(c);
            }
        }
        {
            let c = Change::Name("append_e".into(), format!("{}e", s.name));
            coarse.push(c.clone());
            fine.push(c);
            if !s.name.is_empty() {
                fine.push(Change::Name("droplast".into(), s.name[..s.name.len() - 1].to_string()));
            }
            if !s.name.is_empty() {
                fine.push(Change::Name("empty".into(), String::new()));
            }
            if s.name.to_lowercase() != s.name {
                fine.push(Change::Name("lowercase".into(), s.name.to_lowercase()));
            }
        }
        // parent
        for (p, alt) in self.parents.iter().enumerate() {
            if *alt != s.parent {
                let c = Change::Parent(format!("=p{p}"), *alt);
                coarse.push(c.clone());
                fine.push(c);
            }
        }
        for i in 0..256 {
            let mut v = s.parent;
            v[i / 8] ^= 1 << (i % 8);
            let c = Change::Parent(format!("^bit{i}"), v);
            if [0, 255].contains(&i) {
                coarse.push(c.clone());
            }
            fine.push(c);
        }
        // key
        for k in 0..self.pk_bytes.len() {
            if k != s.k {
                let c = Change::Key(k);
                coarse.push(c.clone());
                fine.push(c);
            }
        }
        let pkb = &self.pk_bytes[s.k];
        for i in 0..pkb.len() * 8 {
            let mut v = pkb.clone();
            v[i / 8] ^= 1 << (i % 8);
            fine.push(Change::KeyBytes(format!("^bit{i}"), v));
        }
        (fine, coarse)
    }
}

/// Judge one tampered (or untampered) case at both levels.
/// `expect`: `Some(id)` ⇒ must be accepted and yield `id`; `None` ⇒ must be rejected.
/// At the crypto level the claimed id is not an input of `verify_cmd`; the harness plays the caller
/// of the statement ("returns the signing-time id") and compares the returned id with the claimed one.
fn judge(t: &mut Tally, w: &mut Worker, what: &str, case_c: Option<&Case>, case_f: Option<&Case>, expect_c: Option<[u8; 32]>, expect_f: bool, tampered: bool) {
    if let Some(c) = case_c {
        t.count("evaluations", 1);
        t.count("crypto_verifications", 1);
        let out = w.crypto(c);
        match &out {
            Out::Accept(id) => {
                t.outcome("crypto:accepted");
                if tampered {
                    t.nontrivial(&format!("c:{what}"));
                }
                match expect_c {
                    Some(want) if *id == want && *id == c.claimed => t.count("accepted_untampered", 1),
                    Some(want) => t.violation(
                        format!("crypto:{what}"),
                        format!("verify_cmd accepted but returned id {} (signing-time id {}, claimed {})", hexs(id), hexs(&want), hexs(&c.claimed)),
                        json!({"level": "crypto", "expect": "accept", "want_id": hexs(&want), "case": c.to_json()}),
                    ),
                    None => {
                        // accepted although something differs: a violation unless the only
                        // difference is the claimed id (which verify_cmd does not see) and the
                        // returned id differs from the claimed one (the caller's comparison fails).
                        if *id == c.claimed {
                            t.violation(
                                format!("crypto:{what}"),
                                format!("verify_cmd accepted a tampered input and returned the claimed id {}", hexs(id)),
                                json!({"level": "crypto", "expect": "reject", "case": c.to_json()}),
                            );
                        } else {
                            t.count("rejected_by_id_comparison", 1);
                            t.outcome("crypto:accepted_sig_but_id_differs_from_claimed");
                        }
                    }
                }
            }
            Out::RejPkParse => {
                t.outcome("crypto:rejected_pk_parse");
                t.count("rejected_by_parse", 1);
            }
            Out::RejSigParse => {
                t.outcome("crypto:rejected_sig_parse");
                t.count("rejected_by_parse", 1);
            }
            Out::RejAuth => {
                t.outcome("crypto:rejected_auth");
                t.count("rejected_by_auth", 1);
                if tampered {
                    t.nontrivial(&format!("c:{what}"));
                }
            }
        }
        if expect_c.is_some() && !matches!(out, Out::Accept(_)) {
            t.violation(
                format!("crypto:{what}"),
                format!("verify_cmd rejected an untampered command ({out:?})"),
                json!({"level": "crypto", "expect": "accept", "want_id": hexs(&expect_c.unwrap()), "case": c.to_json()}),
            );
        }
    }
    if let Some(c) = case_f {
        match w.ffi(c) {
            None => {
                t.count("ffi_skipped_name_not_identifier", 1);
                t.outcome("ffi:skipped_name_not_identifier");
            }
            Some(r) => {
                t.count("evaluations", 1);
                t.count("ffi_verifications", 1);
                // classification for coverage: would the inputs parse?
                let parses = postcard::from_bytes::<VerifyingKey<CS>>(&c.pk).is_ok() && Signature::<CS>::from_bytes(&c.sig).is_ok();
                match r {
                    Ok(()) => {
                        t.outcome("ffi:accepted");
                        if tampered {
                            t.nontrivial(&format!("f:{what}"));
                        }
                        if expect_f {
                            t.count("ffi_accepted_untampered", 1);
                        } else {
                            t.violation(
                                format!("ffi:{what}"),
                                "crypto::verify accepted a tampered input".to_string(),
                                json!({"level": "ffi", "expect": "reject", "case": c.to_json()}),
                            );
                        }
                    }
                    Err(e) => {
                        if parses {
                            t.outcome("ffi:rejected_after_parse");
                            t.count("ffi_rejected_after_parse", 1);
                            if tampered {
                                t.nontrivial(&format!("f:{what}"));
                            }
                        } else {
                            t.outcome("ffi:rejected_unparseable_input");
                        }
                        if expect_f {
                            t.violation(
                                format!("ffi:{what}"),
                                format!("crypto::verify rejected an untampered command: {e}"),
                                json!({"level": "ffi", "expect": "accept", "case": c.to_json()}),
                            );
                        }
                    }
                }
            }
        }
    }
}

fn per_signing(sp: &Space, si: usize) -> Tally {
    let mut t = Tally::default();
    let mut w = Worker::new(sp.seed);
    let s = &sp.signings[si];
    let n = sp.signings.len();
    let thorough = sp.tier == Tier::Thorough;

    // ---- P1: cross product sig(s) × verification tuple(v) × claimed id(i)
    for (vi, v) in sp.signings.iter().enumerate() {
        let same = vi == si;
        let mut cc = sp.base_case(v, false);
        cc.sig = s.sig.clone();
        cc.claimed = s.id;
        let what = if same { format!("untampered@{}", s.label) } else { format!("sig-of:{}@{}", s.label, v.label) };
        judge(&mut t, &mut w, &what, Some(&cc), None, same.then_some(s.id), false, !same);
        t.count("p1_cross_cases", 1);
        let mut ids = vec![si, vi, (si + 1) % n, (vi + 1) % n];
        ids.dedup();
        ids.sort();
        ids.dedup();
        for ii in ids {
            let mut cf = sp.base_case(v, true);
            cf.sig = s.ffi_sig.clone();
            cf.claimed = sp.signings[ii].ffi_id;
            let ok = same && ii == si;
            let what = if ok {
                format!("untampered@{}", s.label)
            } else {
                format!("sig-of:{},id-of:{}@{}", s.label, sp.signings[ii].label, v.label)
            };
            if same && !ok {
                t.count("ffi_id_mismatch_cases", 1);
            }
            judge(&mut t, &mut w, &what, None, Some(&cf), None, ok, !ok);
            t.count("p1_cross_cases", 1);
        }
    }

    // ---- P2: every single change of the fine alphabet
    let (fine, coarse) = sp.alphabets(s);
    for ch in &fine {
        let what = format!("{}@{}", ch.label(), s.label);
        let mut cc = sp.base_case(s, false);
        let mut cf = sp.base_case(s, true);
        sp.apply(&mut cc, ch);
        sp.apply(&mut cf, ch);
        t.count("p2_single_changes", 1);
        if matches!(ch, Change::IdBit(_)) {
            t.count("ffi_id_mismatch_cases", 1);
        }
        judge(&mut t, &mut w, &what, Some(&cc), Some(&cf), None, false, true);
    }

    // ---- P3: pairs of different kinds; quick: coarse × coarse, thorough: fine × coarse
    let left: &Vec<Change> = if thorough { &fine } else { &coarse };
    for (ai, a) in left.iter().enumerate() {
        for (bi, b) in coarse.iter().enumerate() {
            if a.kind() == b.kind() {
                continue;
            }
            // avoid counting an unordered coarse pair twice
            if let Some(aj) = coarse.iter().position(|c| c == a) {
                if aj > bi {
                    continue;
                }
            }
            let _ = ai;
            let what = format!("{}+{}@{}", a.label(), b.label(), s.label);
            let mut cc = sp.base_case(s, false);
            let mut cf = sp.base_case(s, true);
            for ch in [a, b] {
                sp.apply(&mut cc, ch);
                sp.apply(&mut cf, ch);
            }
            t.count("p3_pair_changes", 1);
            judge(&mut t, &mut w, &what, Some(&cc), Some(&cf), None, false, true);
        }
    }

    // ---- P4: boundary shifts between adjacent hashed fields
    let mut shifts: Vec<(String, String, [u8; 32], Vec<u8>)> = vec![];
    // every other way of cutting the same concatenated bytes name‖parent‖data into
    // (name', 32-byte parent', data'), including empty fields on either side
    {
        let mut cat = s.name.clone().into_bytes();
        cat.extend_from_slice(&s.parent);
        cat.extend_from_slice(&s.data);
        for i in 0..=cat.len() - 32 {
            if i == s.name.len() {
                continue;
            }
            let Ok(name) = String::from_utf8(cat[..i].to_vec()) else {
                t.count("repartitions_skipped_name_not_utf8", 1);
                continue;
            };
            let parent: [u8; 32] = cat[i..i + 32].try_into().unwrap();
            shifts.push((format!("recut:name={i}B,data={}B", cat.len() - 32 - i), name, parent, cat[i + 32..].to_vec()));
        }
    }
    // partial moves (one boundary only; the concatenation changes)
    if s.parent[0] < 0x80 {
        let mut name = s.name.clone();
        name.push(s.parent[0] as char);
        let mut parent = [0u8; 32];
        parent[..31].copy_from_slice(&s.parent[1..]);
        shifts.push(("move:parent[0]>name".into(), name, parent, s.data.clone()));
    }
    {
        let mut data = vec![s.parent[31]];
        data.extend_from_slice(&s.data);
        let mut parent = [0u8; 32];
        parent[1..].copy_from_slice(&s.parent[..31]);
        shifts.push(("move:parent[31]>data".into(), s.name.clone(), parent, data));
    }
    if !s.data.is_empty() {
        let mut parent = [0u8; 32];
        parent[..31].copy_from_slice(&s.parent[1..]);
        parent[31] = s.data[0];
        shifts.push(("move:data[0]>parent".into(), s.name.clone(), parent, s.data[1..].to_vec()));
    }
    {
        // key id | name: the author field is the 32-byte id derived from the verifying key, so no
        // re-cut of that boundary is expressible through the API; the nearest expressible inputs
        // are names that lose their first byte (as if absorbed by the key id) or gain one.
        if s.name.len() > 1 {
            shifts.push(("move:name[0]>keyid".into(), s.name[1..].to_string(), s.parent, s.data.clone()));
        }
        shifts.push(("move:keyid[31]>name".into(), format!("Z{}", s.name), s.parent, s.data.clone()));
    }
    for (lbl, name, parent, data) in shifts {
        if name == s.name && parent == s.parent && data == s.data {
            continue;
        }
        let what = format!("{lbl}@{}", s.label);
        let mut cc = sp.base_case(s, false);
        let mut cf = sp.base_case(s, true);
        for c in [&mut cc, &mut cf] {
            c.name = name.clone();
            c.parent = parent;
            c.data = data.clone();
        }
        t.count("boundary_shift_cases", 1);
        if lbl.starts_with("recut") {
            t.count("boundary_recut_cases", 1);
            if name.is_empty() || data.is_empty() || s.name.is_empty() || s.data.is_empty() {
                t.count("boundary_recut_cases_with_empty_field", 1);
            }
        }
        judge(&mut t, &mut w, &what, Some(&cc), Some(&cf), None, false, true);
    }
    if si == 0 {
        t.sample(json!({"signing": s.label, "sig": hexs(&s.sig), "id": hexs(&s.id), "fine_alphabet": fine.len(), "coarse_alphabet": coarse.len()}));
    }
    t
}

pub fn run(args: &Args) {
    let mut rep = Report::new(args, Level::Exploration);
    if let Some(p) = &args.replay {
        return replay(args, rep, p);
    }
    let sp = build_space(args);
    let ffi_equal = sp.signings.iter().filter(|s| s.sig == s.ffi_sig && s.id == s.ffi_id).count();
    let mut tally = (0..sp.signings.len())
        .into_par_iter()
        .map(|si| per_signing(&sp, si))
        .reduce(Tally::default, |mut a, b| {
            a.merge(b);
            a
        });
    tally.count("signings", sp.signings.len() as u64);
    tally.count("ffi_sign_equals_sign_cmd", ffi_equal as u64);
    tally.into_report(&mut rep);
    rep.set("keys", sp.pk_bytes.len() as u64);
    rep.set("data_alphabet", sp.datas.iter().map(|d| d.len()).collect::<Vec<_>>());
    rep.set("name_alphabet", sp.names.clone());
    rep.set("parent_alphabet", sp.parents.len() as u64);
    rep.set(
        "rule",
        "signings = keys × data × names × parents (sign_cmd and crypto::sign FFI); P1 every signature against every verification tuple of the alphabet (all single/multi-point replacements) × claimed ids; P2 every single-bit flip of signature / claimed id / parent / data / name / serialized public key, plus dropped/added bytes; P3 pairs of changes of different kinds (quick coarse×coarse, thorough fine×coarse); P4 every re-partition of the concatenation name‖parent‖data into (name', 32-byte parent', data') incl. empty name / empty data on either side, plus one-byte partial moves. distinct_nontrivial = distinct tampered cases whose inputs parsed so the signature check itself decided (set of case descriptions, both levels)",
    );
    rep.set("exhaustive", true);
    rep.assume("binding property only: decided over the enumerated tamper space with the listed deterministic keys; nothing is claimed about other keys or about unforgeability");
    rep.assume("the claimed command id is an input only of the policy-level crypto::verify; at the aranya-crypto level the harness compares verify_cmd's returned id with the claimed id, as the statement's caller does");
    rep.assume("the key-id|name boundary cannot be re-cut through the API (the author field is a fixed 32-byte id derived from the verifying key); only name|parent|data re-cuts preserve the concatenation");
    guards(
        &mut rep,
        &["signings", "crypto_verifications", "ffi_verifications", "p1_cross_cases", "p2_single_changes", "p3_pair_changes", "boundary_recut_cases", "boundary_recut_cases_with_empty_field", "ffi_id_mismatch_cases"],
        &["accepted_untampered", "ffi_accepted_untampered", "rejected_by_auth", "ffi_rejected_after_parse"],
    );
    rep.finish()
}

fn replay(_args: &Args, mut rep: Report, path: &std::path::Path) {
    let v: mcx::Value = std::fs::read_to_string(path)
        .ok()
        .and_then(|s| mcx::serde_json::from_str(&s).ok())
        .unwrap_or_else(|| mcx::machinery_error("cannot read replay file"));
    let r = &v["replay"];
    let Some(case) = Case::from_json(&r["case"]) else { mcx::machinery_error("replay file lacks a case") };
    let mut w = Worker::new(0);
    let mut t = Tally::default();
    let key = v["key"].as_str().unwrap_or("replay").to_string();
    let what = key.split_once(':').map(|x| x.1.to_string()).unwrap_or(key.clone());
    let expect_accept = r["expect"].as_str() == Some("accept");
    let want: Option<[u8; 32]> = r["want_id"].as_str().and_then(|s| unhex(s).try_into().ok());
    match r["level"].as_str() {
        Some("crypto") => judge(&mut t, &mut w, &what, Some(&case), None, if expect_accept { want } else { None }, false, !expect_accept),
        Some("ffi") => judge(&mut t, &mut w, &what, None, Some(&case), None, expect_accept, !expect_accept),
        _ => mcx::machinery_error("replay: unknown level"),
    }
    println!("replay {key}: {}", if t.violations.is_empty() { "does not reproduce (held)" } else { "reproduces" });
    t.nontrivial.insert(0);
    t.nontrivial.insert(1);
    t.into_report(&mut rep);
    rep.set("rule", "replay of one recorded case");
    rep.set("exhaustive", false);
    rep.finish()
}
