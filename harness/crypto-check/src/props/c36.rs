//! C36 — wrapped keys are authenticated and bound to their type.
//!
//! Space: every wrappable key type of the repository (IdentityKey, SigningKey, apq SenderSigningKey —
//! signing; EncryptionKey, apq SenderSecretKey / ReceiverSecretKey, afc UniAuthorSecret — KEM
//! decapsulation; GroupKey — seed; tls PskSeed — PRK) plus two harness key types declared with the
//! public `unwrapped!` macro for the two kinds the repository has no key type for (AEAD, MAC)
//!   × keys per type
//!   × { untouched; DESIGN 4.8 corruptions of the postcard-serialized wrapped form per field
//!       (id length, id, nonce, kind discriminant, ciphertext, tag); field swaps with a second wrapped
//!       key of the same type and with a second wrapping of the same key; kind discriminant := every
//!       value 0..=7 }
//!   × { unwrap as every key type (own and the 10 others) }
//!   × { wrapping engine, engine with a second key }.
//! Oracle (statement): `unwrap` succeeds iff the wrapped form is untouched, the engine is the wrapping
//! one and the requested type has the same algorithm kind; with the own type the result has the same
//! id and the same behaviour. (Same kind, other type: the statement is silent; only recorded. A trailing
//! byte after the encoding is outside the four fields; only recorded, and if accepted the key must be
//! the original.)

use aranya_crypto::{
    afc::{UniAuthorSecret, UniChannel, UniSealKey, UniSecrets},
    apq::{ReceiverSecretKey, SenderSecretKey, SenderSigningKey, Topic, TopicKey, Version},
    dangerous::spideroak_crypto::{
        aead::Aead,
        keys::SecretKey,
        mac::Mac,
    },
    default::WrappedKey,
    engine::UnwrappedKey,
    id::IdError,
    policy::{CmdId, GroupId, LabelId, PolicyId},
    tls::{CipherSuiteId, PskSeed},
    unwrapped, BaseId, CipherSuite, Context, DeviceId, EncryptionKey, Engine, GroupKey, IdentityKey,
    Identified, Random, SigningKey, UnwrapError,
};
use mcx::{json, rayon::prelude::*, Args, Level, Report, Tier};

use crate::common::*;

// ---------------------------------------------------------------------------------------------
// harness key types for the AEAD and MAC kinds

pub struct HAeadKey<CS: CipherSuite> {
    key: <CS::Aead as Aead>::Key,
}
pub struct HMacKey<CS: CipherSuite> {
    key: <CS::Mac as Mac>::Key,
}

fn harness_id(tag: u8, bytes: &[u8]) -> BaseId {
    let mut out = [0u8; 32];
    for i in 0..4u8 {
        let mut v = vec![tag, i];
        v.extend_from_slice(bytes);
        out[i as usize * 8..][..8].copy_from_slice(&mcx::fnv64(&v).to_le_bytes());
    }
    BaseId::from_bytes(out)
}

impl<CS: CipherSuite> Identified for HAeadKey<CS> {
    type Id = BaseId;
    fn id(&self) -> Result<BaseId, IdError> {
        let b = self.key.try_export_secret().unwrap_or_else(|_| mcx::machinery_error("export aead key"));
        Ok(harness_id(1, b.as_bytes()))
    }
}
impl<CS: CipherSuite> Identified for HMacKey<CS> {
    type Id = BaseId;
    fn id(&self) -> Result<BaseId, IdError> {
        let b = self.key.try_export_secret().unwrap_or_else(|_| mcx::machinery_error("export mac key"));
        Ok(harness_id(2, b.as_bytes()))
    }
}
unwrapped! {
    name: HAeadKey;
    type: Aead;
    into: |k: Self| { k.key };
    from: |key| { Self { key } };
}
unwrapped! {
    name: HMacKey;
    type: Mac;
    into: |k: Self| { k.key };
    from: |key| { Self { key } };
}

// ---------------------------------------------------------------------------------------------

type W = WrappedKey<CS>;

trait Subject: UnwrappedKey<CS> + Sized {
    const NAME: &'static str;
    /// index of the `Ciphertext` variant = algorithm kind: Aead 0, Decap 1, Mac 2, Prk 3, Seed 4, Signing 5
    const KIND: u8;
    fn make(seed: u64, i: u64) -> Self;
    fn dup(&self) -> Self;
    /// cross-checks that `b` behaves as `a`
    fn same_behaviour(a: &Self, b: &Self, r: &CtrRng) -> Result<(), String>;
    fn id_bytes(&self) -> [u8; 32] {
        let id = self.id().unwrap_or_else(|e| mcx::machinery_error(&format!("key id: {e}")));
        let b: &BaseId = id.as_ref();
        *b.as_array()
    }
}

const KIND_NAMES: [&str; 6] = ["Aead", "Decap", "Mac", "Prk", "Seed", "Signing"];

fn e<T, E: core::fmt::Display>(r: Result<T, E>, what: &str) -> Result<T, String> {
    r.map_err(|e| format!("{what}: {e}"))
}

macro_rules! signing_subject {
    ($t:ident, $name:expr, $dom:expr) => {
        impl Subject for $t<CS> {
            const NAME: &'static str = $name;
            const KIND: u8 = 5;
            fn make(seed: u64, i: u64) -> Self {
                $t::<CS>::new(rng(seed, $dom, i))
            }
            fn dup(&self) -> Self {
                self.clone()
            }
            fn same_behaviour(a: &Self, b: &Self, _r: &CtrRng) -> Result<(), String> {
                let sa = e(a.sign(b"msg", b"ctx"), "sign a")?;
                let sb = e(b.sign(b"msg", b"ctx"), "sign b")?;
                e(e(b.public(), "pk b")?.verify(b"msg", b"ctx", &sa), "b verifies a")?;
                e(e(a.public(), "pk a")?.verify(b"msg", b"ctx", &sb), "a verifies b")?;
                Ok(())
            }
        }
    };
}
signing_subject!(IdentityKey, "IdentityKey", 3601);
signing_subject!(SigningKey, "SigningKey", 3602);

impl Subject for SenderSigningKey<CS> {
    const NAME: &'static str = "SenderSigningKey";
    const KIND: u8 = 5;
    fn make(seed: u64, i: u64) -> Self {
        SenderSigningKey::<CS>::new(rng(seed, 3603, i))
    }
    fn dup(&self) -> Self {
        self.clone()
    }
    fn same_behaviour(a: &Self, b: &Self, _r: &CtrRng) -> Result<(), String> {
        let v = Version::new(1);
        let t = Topic::new("t");
        let sa = e(a.sign(v, &t, b"rec"), "sign a")?;
        let sb = e(b.sign(v, &t, b"rec"), "sign b")?;
        e(e(b.public(), "pk")?.verify(v, &t, b"rec", &sa), "b verifies a")?;
        e(e(a.public(), "pk")?.verify(v, &t, b"rec", &sb), "a verifies b")?;
        Ok(())
    }
}

impl Subject for EncryptionKey<CS> {
    const NAME: &'static str = "EncryptionKey";
    const KIND: u8 = 1;
    fn make(seed: u64, i: u64) -> Self {
        EncryptionKey::<CS>::new(rng(seed, 3604, i))
    }
    fn dup(&self) -> Self {
        self.clone()
    }
    fn same_behaviour(a: &Self, b: &Self, r: &CtrRng) -> Result<(), String> {
        let gk = GroupKey::<CS>::new(r);
        let g = GroupId::default();
        for (x, y) in [(a, b), (b, a)] {
            let (enc, ct) = e(e(x.public(), "pk")?.seal_group_key(r, &gk, g), "seal_group_key")?;
            let got = e(y.open_group_key(&enc, ct, g), "open_group_key")?;
            if e(got.id(), "id")? != e(gk.id(), "id")? {
                return Err("group key differs".into());
            }
        }
        Ok(())
    }
}

fn topic_roundtrip(s: &SenderSecretKey<CS>, rk: &ReceiverSecretKey<CS>, s_open: &SenderSecretKey<CS>, rk_open: &ReceiverSecretKey<CS>, r: &CtrRng) -> Result<(), String> {
    let v = Version::new(1);
    let t = Topic::new("t");
    let tk = e(TopicKey::<CS>::new(r, v, &t), "topic key")?;
    let (enc, ct) = e(e(rk.public(), "pk")?.seal_topic_key(r, v, &t, s, &tk), "seal_topic_key")?;
    let got = e(rk_open.open_topic_key(v, &t, &e(s_open.public(), "pk")?, &enc, &ct), "open_topic_key")?;
    if e(got.id(), "id")? != e(tk.id(), "id")? {
        return Err("topic key differs".into());
    }
    Ok(())
}

impl Subject for SenderSecretKey<CS> {
    const NAME: &'static str = "SenderSecretKey";
    const KIND: u8 = 1;
    fn make(seed: u64, i: u64) -> Self {
        SenderSecretKey::<CS>::new(rng(seed, 3605, i))
    }
    fn dup(&self) -> Self {
        self.clone()
    }
    fn same_behaviour(a: &Self, b: &Self, r: &CtrRng) -> Result<(), String> {
        let rk = ReceiverSecretKey::<CS>::new(r);
        topic_roundtrip(a, &rk, b, &rk, r)?;
        topic_roundtrip(b, &rk, a, &rk, r)
    }
}

impl Subject for ReceiverSecretKey<CS> {
    const NAME: &'static str = "ReceiverSecretKey";
    const KIND: u8 = 1;
    fn make(seed: u64, i: u64) -> Self {
        ReceiverSecretKey::<CS>::new(rng(seed, 3606, i))
    }
    fn dup(&self) -> Self {
        self.clone()
    }
    fn same_behaviour(a: &Self, b: &Self, r: &CtrRng) -> Result<(), String> {
        let s = SenderSecretKey::<CS>::new(r);
        topic_roundtrip(&s, a, &s, b, r)?;
        topic_roundtrip(&s, b, &s, a, r)
    }
}

struct UniFixture {
    a: EncryptionKey<CS>,
    b: EncryptionKey<CS>,
}
fn uni_fixture(seed: u64) -> UniFixture {
    UniFixture { a: EncryptionKey::<CS>::new(rng(seed, 3607, 1000)), b: EncryptionKey::<CS>::new(rng(seed, 3607, 1001)) }
}

impl Subject for UniAuthorSecret<CS> {
    const NAME: &'static str = "UniAuthorSecret";
    const KIND: u8 = 1;
    fn make(seed: u64, i: u64) -> Self {
        let f = uni_fixture(seed);
        let pk = f.b.public().unwrap();
        let ch = UniChannel {
            parent_cmd_id: CmdId::default(),
            our_sk: &f.a,
            their_pk: &pk,
            seal_id: DeviceId::from_bytes([1; 32]),
            open_id: DeviceId::from_bytes([2; 32]),
            label_id: LabelId::default(),
        };
        let eng = engine(seed, 3607, i);
        UniSecrets::new(&eng, &ch).unwrap_or_else(|e| mcx::machinery_error(&format!("UniSecrets::new: {e}"))).author
    }
    fn dup(&self) -> Self {
        self.clone()
    }
    fn same_behaviour(a: &Self, b: &Self, r: &CtrRng) -> Result<(), String> {
        let _ = r;
        // the fixture keys do not depend on the seed's stream index, only on the seed; re-derive
        // with seed 0 is not possible here, so compare through a fresh fixed channel
        let fa = EncryptionKey::<CS>::new(rng(1, 3607, 2000));
        let fb = EncryptionKey::<CS>::new(rng(1, 3607, 2001));
        let pk = e(fb.public(), "pk")?;
        let ch = UniChannel {
            parent_cmd_id: CmdId::default(),
            our_sk: &fa,
            their_pk: &pk,
            seal_id: DeviceId::from_bytes([1; 32]),
            open_id: DeviceId::from_bytes([2; 32]),
            label_id: LabelId::default(),
        };
        let ka = e(UniSealKey::from_author_secret(&ch, a.clone()), "from_author_secret a")?.into_raw_key();
        let kb = e(UniSealKey::from_author_secret(&ch, b.clone()), "from_author_secret b")?.into_raw_key();
        if ka.key.as_bytes() != kb.key.as_bytes() || ka.base_nonce != kb.base_nonce {
            return Err("derived seal keys differ".into());
        }
        Ok(())
    }
}

impl Subject for GroupKey<CS> {
    const NAME: &'static str = "GroupKey";
    const KIND: u8 = 4;
    fn make(seed: u64, i: u64) -> Self {
        GroupKey::<CS>::new(rng(seed, 3608, i))
    }
    fn dup(&self) -> Self {
        self.clone()
    }
    fn same_behaviour(a: &Self, b: &Self, r: &CtrRng) -> Result<(), String> {
        let author = e(SigningKey::<CS>::new(r).public(), "pk")?;
        for (x, y) in [(a, b), (b, a)] {
            let msg = b"hello group";
            let mut ct = vec![0u8; msg.len() + x.overhead()];
            let ctx = || Context { label: "l", parent: CmdId::default(), author_sign_pk: &author };
            e(x.seal(r, &mut ct, msg, ctx()), "seal")?;
            let mut pt = vec![0u8; msg.len()];
            e(y.open(&mut pt, &ct, ctx()), "open")?;
            if pt != msg {
                return Err("plaintext differs".into());
            }
        }
        Ok(())
    }
}

impl Subject for PskSeed<CS> {
    const NAME: &'static str = "PskSeed";
    const KIND: u8 = 3;
    fn make(seed: u64, i: u64) -> Self {
        PskSeed::<CS>::new(rng(seed, 3609, i), &GroupId::default())
    }
    fn dup(&self) -> Self {
        self.clone()
    }
    fn same_behaviour(a: &Self, b: &Self, _r: &CtrRng) -> Result<(), String> {
        let gen = |k: &Self| -> Result<Vec<Vec<u8>>, String> {
            k.clone()
                .generate_psks(b"ctx", GroupId::default(), PolicyId::default(), [CipherSuiteId::TlsAes128GcmSha256, CipherSuiteId::TlsAes256GcmSha384].into_iter())
                .map(|p| p.map(|p| p.raw_secret_bytes().to_vec()).map_err(|e| format!("psk: {e}")))
                .collect()
        };
        if gen(a)? != gen(b)? {
            return Err("derived PSKs differ".into());
        }
        Ok(())
    }
}

impl Subject for HAeadKey<CS> {
    const NAME: &'static str = "HarnessAeadKey";
    const KIND: u8 = 0;
    fn make(seed: u64, i: u64) -> Self {
        HAeadKey { key: Random::random(rng(seed, 3610, i)) }
    }
    fn dup(&self) -> Self {
        HAeadKey { key: self.key.clone() }
    }
    fn same_behaviour(a: &Self, b: &Self, _r: &CtrRng) -> Result<(), String> {
        type A = <CS as CipherSuite>::Aead;
        let nonce = vec![7u8; A::NONCE_SIZE];
        let msg = b"aead msg";
        let mut ct = vec![0u8; msg.len() + A::OVERHEAD];
        e(A::new(&a.key).seal(&mut ct, &nonce, msg, b"ad"), "seal")?;
        let mut pt = vec![0u8; msg.len()];
        e(A::new(&b.key).open(&mut pt, &nonce, &ct, b"ad"), "open")?;
        if pt != msg {
            return Err("plaintext differs".into());
        }
        Ok(())
    }
}

impl Subject for HMacKey<CS> {
    const NAME: &'static str = "HarnessMacKey";
    const KIND: u8 = 2;
    fn make(seed: u64, i: u64) -> Self {
        HMacKey { key: Random::random(rng(seed, 3611, i)) }
    }
    fn dup(&self) -> Self {
        HMacKey { key: self.key.clone() }
    }
    fn same_behaviour(a: &Self, b: &Self, _r: &CtrRng) -> Result<(), String> {
        type M = <CS as CipherSuite>::Mac;
        use aranya_crypto::ctutils::CtEq as _;
        let ta = M::mac(&a.key, b"data");
        let tb = M::mac(&b.key, b"data");
        if bool::from(ta.ct_eq(&tb)) {
            Ok(())
        } else {
            Err("MAC tags differ".into())
        }
    }
}

// ---------------------------------------------------------------------------------------------

// ---------------------------------------------------------------------------------------------
// key types whose id is NOT a function of the secret (a stable slot id, like the constant-id key
// types of the repository's own engine tests): several different secrets are wrapped under the
// same (kind, id), so the wrapped forms share their associated data

macro_rules! slot_key {
    ($name:ident, $kind:ident, $inner:ty, $idbyte:expr) => {
        pub struct $name<CS: CipherSuite> {
            key: $inner,
            _cs: core::marker::PhantomData<CS>,
        }
        impl<CS: CipherSuite> Identified for $name<CS> {
            type Id = BaseId;
            fn id(&self) -> Result<BaseId, IdError> {
                Ok(BaseId::from_bytes([$idbyte; 32]))
            }
        }
        unwrapped! {
            name: $name;
            type: $kind;
            into: |k: Self| { k.key };
            from: |key| { Self { key, _cs: core::marker::PhantomData } };
        }
    };
}
slot_key!(SlotAeadKey, Aead, <CS::Aead as Aead>::Key, 0xA1);
slot_key!(SlotMacKey, Mac, <CS::Mac as Mac>::Key, 0xA2);
slot_key!(SlotSeed, Seed, [u8; 64], 0xA3);

/// What identifies the secret inside an unwrapped key, for reporting.
trait Fingerprint: UnwrappedKey<CS> + Sized {
    const NAME: &'static str;
    const KIND: u8;
    fn fresh(seed: u64, i: u64) -> Self;
    fn fingerprint(&self) -> Vec<u8>;
}
impl Fingerprint for SlotAeadKey<CS> {
    const NAME: &'static str = "SlotAeadKey(constant id)";
    const KIND: u8 = 0;
    fn fresh(seed: u64, i: u64) -> Self {
        SlotAeadKey { key: Random::random(rng(seed, 3620, i)), _cs: core::marker::PhantomData }
    }
    fn fingerprint(&self) -> Vec<u8> {
        self.key.try_export_secret().map(|b| b.as_bytes().to_vec()).unwrap_or_default()
    }
}
impl Fingerprint for SlotMacKey<CS> {
    const NAME: &'static str = "SlotMacKey(constant id)";
    const KIND: u8 = 2;
    fn fresh(seed: u64, i: u64) -> Self {
        SlotMacKey { key: Random::random(rng(seed, 3621, i)), _cs: core::marker::PhantomData }
    }
    fn fingerprint(&self) -> Vec<u8> {
        self.key.try_export_secret().map(|b| b.as_bytes().to_vec()).unwrap_or_default()
    }
}
impl Fingerprint for SlotSeed<CS> {
    const NAME: &'static str = "SlotSeed(constant id)";
    const KIND: u8 = 4;
    fn fresh(seed: u64, i: u64) -> Self {
        let mut key = [0u8; 64];
        aranya_crypto::Csprng::fill_bytes(&rng(seed, 3622, i), &mut key);
        SlotSeed { key, _cs: core::marker::PhantomData }
    }
    fn fingerprint(&self) -> Vec<u8> {
        self.key.to_vec()
    }
}
/// For the repository's key types (id derived from the key material) the id is the fingerprint;
/// "several wraps under the same (kind, id)" are then re-wrappings of one key, plus wraps of other
/// keys of the type as donors.
macro_rules! real_fingerprint {
    ($($t:ty),*) => { $(
        impl Fingerprint for $t {
            const NAME: &'static str = <$t as Subject>::NAME;
            const KIND: u8 = <$t as Subject>::KIND;
            fn fresh(seed: u64, i: u64) -> Self {
                // wraps 0,1,2 are the same key (same id), 3.. are other keys
                <$t as Subject>::make(seed, if i < 3 { 50 } else { 50 + i })
            }
            fn fingerprint(&self) -> Vec<u8> {
                self.id_bytes().to_vec()
            }
        }
    )* };
}
real_fingerprint!(IdentityKey<CS>, SigningKey<CS>, SenderSigningKey<CS>, EncryptionKey<CS>, SenderSecretKey<CS>, ReceiverSecretKey<CS>, UniAuthorSecret<CS>, GroupKey<CS>, PskSeed<CS>, HAeadKey<CS>, HMacKey<CS>);

/// Cross-blob modifications: `n` wrapped keys of one type produced by one engine; every blob in turn
/// is the base and gets its nonce / ciphertext / tag replaced by another blob's, and its ciphertext
/// and tag XOR-combined with those of every subset of ≤ 3 other blobs. None of the results was ever
/// produced by `wrap`, so every one must fail to unwrap.
fn cross_blob_job<T: Fingerprint>(p: &Params, slot: u64) -> Tally {
    let mut t = Tally::default();
    let eng = engine(p.seed, 36, 1);
    let n: u64 = if p.tier == Tier::Thorough { 6 } else { 5 };
    let mut blobs: Vec<Vec<u8>> = vec![];
    let mut prints: Vec<Vec<u8>> = vec![];
    for i in 0..n {
        let k = T::fresh(p.seed, slot * 100 + i);
        prints.push(k.fingerprint());
        let w = eng.wrap(k).unwrap_or_else(|e| mcx::machinery_error(&format!("wrap {}: {e}", T::NAME)));
        blobs.push(postcard::to_allocvec(&w).unwrap_or_else(|e| mcx::machinery_error(&format!("encode wrapped: {e}"))));
    }
    let len = blobs[0].len();
    if blobs.iter().any(|b| b.len() != len || b[45] != T::KIND || b[0] != 0x20) || len < 62 + 16 {
        mcx::machinery_error(&format!("wrapped-key layout assumption broke for {}", T::NAME));
    }
    let same_ad: Vec<bool> = blobs.iter().map(|b| b[1..33] == blobs[0][1..33]).collect();
    t.count("cross_blob_groups", 1);
    t.count("cross_blob_wraps_sharing_kind_and_id", same_ad.iter().filter(|x| **x).count() as u64);
    let (nonce, ct, tag) = (33..45usize, 46..len - 16, len - 16..len);
    let xor_into = |dst: &mut [u8], src: &[u8]| dst.iter_mut().zip(src).for_each(|(d, s)| *d ^= s);
    for base in 0..blobs.len() {
        let others: Vec<usize> = (0..blobs.len()).filter(|j| *j != base).collect();
        let mut forms: Vec<(String, Vec<u8>)> = vec![];
        // replacements by another wrap's fields
        for &j in &others {
            for (nm, parts) in [("nonce", vec![&nonce]), ("ciphertext", vec![&ct]), ("tag", vec![&tag]), ("ciphertext+tag", vec![&ct, &tag]), ("nonce+ciphertext", vec![&nonce, &ct]), ("nonce+tag", vec![&nonce, &tag])] {
                let mut b = blobs[base].clone();
                for r in parts {
                    b[r.clone()].copy_from_slice(&blobs[j][r.clone()]);
                }
                forms.push((format!("{nm}:=other"), b));
            }
        }
        // XOR combinations over every subset of ≤ 3 other wraps
        for mask in 1u32..(1 << others.len()) {
            let k = mask.count_ones();
            if k > 3 {
                continue;
            }
            let set: Vec<usize> = others.iter().enumerate().filter(|(i, _)| mask >> i & 1 == 1).map(|(_, j)| *j).collect();
            for (nm, do_ct, do_tag) in [("ciphertext+tag", true, true), ("ciphertext", true, false), ("tag", false, true)] {
                let mut b = blobs[base].clone();
                for &j in &set {
                    if do_ct {
                        xor_into(&mut b[ct.clone()], &blobs[j][ct.clone()]);
                    }
                    if do_tag {
                        xor_into(&mut b[tag.clone()], &blobs[j][tag.clone()]);
                    }
                }
                forms.push((format!("{nm}^=xor-of-{k}-others"), b.clone()));
                if do_ct && do_tag {
                    // the same with the nonce of a member of the subset
                    let mut b2 = b.clone();
                    b2[nonce.clone()].copy_from_slice(&blobs[set[0]][nonce.clone()]);
                    forms.push((format!("{nm}^=xor-of-{k}-others,nonce:=member"), b2));
                }
            }
        }
        for (name, bytes) in forms {
            if blobs.iter().any(|b| *b == bytes) {
                // identical to a wrapped key that `wrap` produced: not a modification
                t.count("cross_blob_forms_equal_to_a_real_wrap", 1);
                continue;
            }
            t.count("evaluations", 1);
            t.count("cross_blob_cases", 1);
            if name.contains("xor") {
                t.count("cross_blob_xor_cases", 1);
            }
            let res = match postcard::from_bytes::<W>(&bytes) {
                Err(_) => Err("decode".to_string()),
                Ok(w) => match eng.unwrap::<T>(&w) {
                    Ok(k) => Ok(k.fingerprint()),
                    Err(UnwrapError::Open(_)) => Err("auth".into()),
                    Err(e) => Err(format!("other: {e}")),
                },
            };
            let desc = format!("{}/cross-blob:{name}/base{base}#{slot}", T::NAME);
            match res {
                Err(e) => {
                    t.outcome(&format!("cross_blob:rejected_by_{}", e.split(':').next().unwrap_or("")));
                    if e == "auth" {
                        t.count("rejected_by_auth", 1);
                        t.count("cross_blob_rejected_by_auth", 1);
                    }
                    t.nontrivial(&desc);
                }
                Ok(fp) => {
                    t.nontrivial(&desc);
                    let novel = !prints.contains(&fp);
                    t.outcome(if novel { "cross_blob:accepted_never_wrapped_secret" } else { "cross_blob:accepted_other_wrapped_secret" });
                    t.violation(
                        format!("{}/cross-blob:{name}", T::NAME),
                        format!(
                            "a wrapped key assembled from {} wrapped keys of the same type (never produced by wrap) unwrapped successfully, to {}",
                            blobs.len(),
                            if novel { "a secret that was never wrapped" } else { "the secret of another wrapped key" }
                        ),
                        json!({"type": T::NAME, "form": name, "base": base, "slot": slot, "bytes": hexs(&bytes), "wrapped": blobs.iter().map(|b| hexs(b)).collect::<Vec<_>>()}),
                    );
                }
            }
        }
    }
    if slot == 0 {
        t.sample(json!({"type": T::NAME, "cross_blob_wraps": blobs.len(), "sharing_kind_and_id": same_ad.iter().filter(|x| **x).count(), "encoded_len": len}));
    }
    t
}

#[derive(Debug, Clone, PartialEq)]
enum Res {
    Ok([u8; 32]),
    Decode,
    Auth,
    WrongType,
    Import,
    Other(String),
}

impl Res {
    fn class(&self) -> &'static str {
        match self {
            Res::Ok(_) => "accepted",
            Res::Decode => "rejected_by_decode",
            Res::Auth => "rejected_by_auth",
            Res::WrongType => "rejected_wrong_key_type_after_auth",
            Res::Import => "rejected_by_import_after_auth",
            Res::Other(_) => "rejected_other",
        }
    }
}

fn unwrap_as<T: Subject>(eng: &Eng, bytes: &[u8]) -> Res {
    let Ok(w) = postcard::from_bytes::<W>(bytes) else { return Res::Decode };
    match eng.unwrap::<T>(&w) {
        Ok(k) => Res::Ok(k.id_bytes()),
        Err(UnwrapError::Open(_)) => Res::Auth,
        Err(UnwrapError::WrongKeyType(_)) => Res::WrongType,
        Err(UnwrapError::Import(_)) => Res::Import,
        Err(e) => Res::Other(format!("{e}")),
    }
}

struct TypeEntry {
    name: &'static str,
    kind: u8,
    unwrap: fn(&Eng, &[u8]) -> Res,
}

macro_rules! type_table {
    ($($t:ty),* $(,)?) => {
        vec![$(TypeEntry { name: <$t as Subject>::NAME, kind: <$t as Subject>::KIND, unwrap: unwrap_as::<$t> }),*]
    };
}

fn table() -> Vec<TypeEntry> {
    type_table![
        IdentityKey<CS>,
        SigningKey<CS>,
        SenderSigningKey<CS>,
        EncryptionKey<CS>,
        SenderSecretKey<CS>,
        ReceiverSecretKey<CS>,
        UniAuthorSecret<CS>,
        GroupKey<CS>,
        PskSeed<CS>,
        HAeadKey<CS>,
        HMacKey<CS>,
    ]
}

struct Params {
    seed: u64,
    tier: Tier,
}

fn layout(bytes: &[u8], id: &[u8; 32], kind: u8, what: &str) -> Vec<Field> {
    let n = bytes.len();
    // [0x20][id 32][nonce 12][kind 1][ciphertext N][tag 16]
    if n < 62 + 16 || bytes[0] != 0x20 || &bytes[1..33] != id || bytes[45] != kind {
        mcx::machinery_error(&format!("wrapped-key layout assumption broke for {what}: len {n}, head {:02x?}", &bytes[..n.min(48)]));
    }
    vec![
        Field { name: "idlen", start: 0, end: 1, is_len: true },
        Field { name: "id", start: 1, end: 33, is_len: false },
        Field { name: "nonce", start: 33, end: 45, is_len: false },
        Field { name: "kind", start: 45, end: 46, is_len: true },
        Field { name: "ciphertext", start: 46, end: n - 16, is_len: false },
        Field { name: "tag", start: n - 16, end: n, is_len: false },
    ]
}

fn run_type<T: Subject>(p: &Params, ki: u64) -> Tally {
    let mut t = Tally::default();
    let types = table();
    let r = rng(p.seed, 3600, ki);
    let eng = engine(p.seed, 36, 1);
    let eng2 = engine(p.seed, 36, 2);
    let key = T::make(p.seed, ki);
    let other_key = T::make(p.seed, ki + 100);
    let id = key.id_bytes();
    let ser = |k: T| -> Vec<u8> {
        let w = eng.wrap(k).unwrap_or_else(|e| mcx::machinery_error(&format!("wrap {}: {e}", T::NAME)));
        postcard::to_allocvec(&w).unwrap_or_else(|e| mcx::machinery_error(&format!("encode wrapped: {e}")))
    };
    let bytes = ser(key.dup());
    let bytes_again = ser(key.dup());
    let bytes_other = ser(other_key.dup());
    let tag = format!("{}#{ki}", T::NAME);
    let fields = layout(&bytes, &id, T::KIND, &tag);
    t.count("wrapped_keys", 1);

    // ---- round trip with the own type: same id, same behaviour
    {
        t.count("evaluations", 1);
        let w: W = postcard::from_bytes(&bytes).unwrap_or_else(|e| mcx::machinery_error(&format!("decode own encoding: {e}")));
        match eng.unwrap::<T>(&w) {
            Ok(k) => {
                t.count("roundtrips_ok", 1);
                t.outcome("roundtrip:accepted");
                if k.id_bytes() != id {
                    t.violation(format!("{}:roundtrip:id", T::NAME), format!("unwrapped {} has id {} instead of {}", T::NAME, hexs(&k.id_bytes()), hexs(&id)), json!({"type": T::NAME, "key_index": ki, "case": "roundtrip"}));
                }
                match T::same_behaviour(&key, &k, &r) {
                    Ok(()) => t.count("behaviour_crosschecks_ok", 1),
                    Err(m) => t.violation(format!("{}:roundtrip:behaviour", T::NAME), format!("unwrapped {} behaves differently: {m}", T::NAME), json!({"type": T::NAME, "key_index": ki, "case": "roundtrip"})),
                }
                // the cross-check itself must be able to fail: a different key must not pass it
                if T::same_behaviour(&key, &other_key, &r).is_err() {
                    t.count("behaviour_crosscheck_distinguishes_other_key", 1);
                }
            }
            Err(e) => t.violation(format!("{}:roundtrip", T::NAME), format!("unwrap of an untouched wrapped {} failed: {e}", T::NAME), json!({"type": T::NAME, "key_index": ki, "case": "roundtrip"})),
        }
    }

    // ---- the tamper space
    let pos = Positions::All;
    let mut forms: Vec<Corruption> = vec![Corruption { name: "untouched".into(), bytes: bytes.clone() }];
    forms.extend(corruptions(&bytes, &fields, Some(&bytes_other), pos));
    // swaps with a second wrapping of the same key
    for f in &fields {
        if bytes_again.len() == bytes.len() && bytes[f.start..f.end] != bytes_again[f.start..f.end] {
            let mut v = bytes.clone();
            v[f.start..f.end].copy_from_slice(&bytes_again[f.start..f.end]);
            forms.push(Corruption { name: format!("{}:=rewrap", f.name), bytes: v });
        }
    }
    // kind discriminant := every small value
    for v in 0..=7u8 {
        if v != T::KIND {
            let mut b = bytes.clone();
            b[45] = v;
            forms.push(Corruption { name: format!("kind:={v}"), bytes: b });
        }
    }
    // a different wrapped key presented under this key's id is the id:=other swap above; the
    // reverse (this key's id on the other key's body) as well:
    {
        let mut b = bytes_other.clone();
        b[1..33].copy_from_slice(&id);
        forms.push(Corruption { name: "body:=other".into(), bytes: b });
    }

    if p.tier == Tier::Thorough {
        // pairs: every modification above combined with every re-tagging of the kind discriminant
        let mut pairs = vec![];
        for f in &forms {
            if f.name == "untouched" || f.name.starts_with("kind") || f.bytes.len() <= 45 {
                continue;
            }
            for v in 0..=5u8 {
                if v != f.bytes[45] {
                    let mut b = f.bytes.clone();
                    b[45] = v;
                    pairs.push(Corruption { name: format!("{}+kind:={v}", f.name), bytes: b });
                }
            }
        }
        t.count("pair_forms", pairs.len() as u64);
        forms.extend(pairs);
    }

    for form in &forms {
        let untouched = form.name == "untouched";
        let trailing = form.name.starts_with("trail[");
        for (ename, e) in [("eng", &eng), ("eng2", &eng2)] {
            for ty in &types {
                t.count("evaluations", 1);
                let res = (ty.unwrap)(e, &form.bytes);
                let own = ty.name == T::NAME;
                let same_kind = ty.kind == T::KIND;
                let what = format!("{}/{}/as:{}/{}", T::NAME, form.name, ty.name, ename);
                let desc = format!("{what}#{ki}");
                t.outcome(&format!("{}:{}", if untouched { "untouched" } else if trailing { "trailing_byte" } else { "tampered" }, res.class()));
                if !untouched && !matches!(res, Res::Decode) {
                    t.nontrivial(&desc);
                }
                if matches!(res, Res::Auth) {
                    t.count("rejected_by_auth", 1);
                }
                if matches!(res, Res::Decode) {
                    t.count("rejected_by_decode", 1);
                }
                let replay = || json!({"type": T::NAME, "key_index": ki, "form": form.name, "bytes": hexs(&form.bytes), "unwrap_as": ty.name, "engine": ename});
                let must_fail = |t: &mut Tally, why: &str| {
                    if let Res::Ok(got) = &res {
                        t.violation(what.clone(), format!("unwrap succeeded (id {}) although {why}", hexs(got)), replay());
                    }
                };
                if ename == "eng2" {
                    t.count("second_engine_cases", 1);
                    must_fail(&mut t, "the engine key differs from the wrapping engine's");
                    continue;
                }
                if untouched {
                    if own {
                        if res != Res::Ok(id) {
                            t.violation(what.clone(), format!("unwrap of the untouched form gave {res:?}"), replay());
                        } else {
                            t.count("accepted_untouched", 1);
                        }
                    } else if same_kind {
                        t.count("same_kind_other_type_cases", 1);
                        t.outcome(&format!("same_kind_other_type:{}", res.class()));
                    } else {
                        t.count("other_kind_cases", 1);
                        must_fail(&mut t, &format!("the wrapped key is of kind {} and {} is of kind {}", KIND_NAMES[T::KIND as usize], ty.name, KIND_NAMES[ty.kind as usize]));
                    }
                } else if trailing {
                    // outside the four fields; recorded. If accepted with the own type the key must be the original.
                    if own {
                        if let Res::Ok(got) = &res {
                            if *got != id {
                                t.violation(what.clone(), "a trailing byte changed the unwrapped key".to_string(), replay());
                            }
                        }
                    } else if !same_kind {
                        must_fail(&mut t, "the requested type is of another kind");
                    }
                } else {
                    t.count("tampered_cases", 1);
                    if form.name.contains("kind:=") && !own {
                        t.count("kind_retag_cross_type_cases", 1);
                    }
                    must_fail(&mut t, "the wrapped form was modified");
                }
            }
        }
    }
    if ki == 0 {
        t.sample(json!({"type": T::NAME, "encoded_len": bytes.len(), "forms": forms.len(), "fields": fields.iter().map(|f| format!("{}[{}..{}]", f.name, f.start, f.end)).collect::<Vec<_>>()}));
    }
    t
}

pub fn run(args: &Args) {
    let mut rep = Report::new(args, Level::Exploration);
    if args.replay.is_some() {
        return replay(args, rep);
    }
    let p = Params { seed: args.seed, tier: args.tier };
    let nkeys = args.tier.pick(2u64, 4u64);
    type Job = (fn(&Params, u64) -> Tally, u64);
    let mut jobs: Vec<Job> = vec![];
    macro_rules! add {
        ($($t:ty),*) => { $( for k in 0..nkeys { jobs.push((run_type::<$t>, k)); } )* };
    }
    add!(
        IdentityKey<CS>,
        SigningKey<CS>,
        SenderSigningKey<CS>,
        EncryptionKey<CS>,
        SenderSecretKey<CS>,
        ReceiverSecretKey<CS>,
        UniAuthorSecret<CS>,
        GroupKey<CS>,
        PskSeed<CS>,
        HAeadKey<CS>,
        HMacKey<CS>
    );
    // cross-blob modifications over several wraps sharing (kind, id)
    let slots = args.tier.pick(2u64, 4u64);
    macro_rules! add_cross {
        ($($t:ty),*) => { $( for k in 0..slots { jobs.push((cross_blob_job::<$t>, k)); } )* };
    }
    add_cross!(
        SlotAeadKey<CS>,
        SlotMacKey<CS>,
        SlotSeed<CS>,
        IdentityKey<CS>,
        SigningKey<CS>,
        SenderSigningKey<CS>,
        EncryptionKey<CS>,
        SenderSecretKey<CS>,
        ReceiverSecretKey<CS>,
        UniAuthorSecret<CS>,
        GroupKey<CS>,
        PskSeed<CS>,
        HAeadKey<CS>,
        HMacKey<CS>
    );
    let tally = jobs
        .par_iter()
        .map(|(f, k)| f(&p, *k))
        .reduce(Tally::default, |mut a, b| {
            a.merge(b);
            a
        });
    let mut tally = tally;
    tally.samples.truncate(6);
    tally.into_report(&mut rep);
    rep.set("key_types", table().iter().map(|t| format!("{}({})", t.name, KIND_NAMES[t.kind as usize])).collect::<Vec<_>>());
    rep.set("keys_per_type", nkeys);
    rep.set(
        "rule",
        format!(
            "11 key types (9 of the repository, 2 harness types for the AEAD and MAC kinds) × {nkeys} keys × {{untouched, DESIGN 4.8 over the postcard form per field idlen/id/nonce/kind/ciphertext/tag ({}), field swaps with a second wrapped key and a re-wrapping, kind discriminant := 0..7}} × unwrap as each of the 11 types × {{wrapping engine, second engine key}}; plus cross-blob modifications: 5 (thorough 6) wrapped keys per type and slot — for 3 constant-id key types (AEAD, MAC, seed kind) different secrets under the same (kind, id), for the 11 types above three re-wrappings of one key and wraps of other keys — each in turn as base with nonce / ciphertext / tag (and pairs of them) replaced by another wrap's and with ciphertext, tag, ciphertext+tag XOR-combined over every subset of ≤ 3 other wraps (also with a member's nonce); distinct_nontrivial = distinct tampered (form, requested type, engine) triples that decoded and reached the AEAD open",
            if args.tier == Tier::Thorough { "every byte position, full alphabet, every single-bit flip, all truncations; plus every such modification paired with every kind re-tagging" } else { "every byte position, full alphabet, every single-bit flip, all truncations" }
        ),
    );
    rep.set("exhaustive", true);
    rep.assume("binding property only, for DefaultEngine with DefaultCipherSuite and deterministic keys; nothing cryptographic is claimed");
    rep.assume("AEAD- and MAC-kind keys have no key type in the repository; the harness declares one each through the public `unwrapped!` macro");
    rep.assume("key types whose id is not a function of the secret (constant slot id) are legal for Engine::wrap and occur in the repository's own engine tests; the harness declares three (AEAD, MAC, seed kind) so that several different secrets share one (kind, id)");
    rep.assume("unwrapping as another key type of the same algorithm kind, and a trailing byte after the encoding, are not covered by the statement: recorded as outcome classes only");
    guards(
        &mut rep,
        &["wrapped_keys", "tampered_cases", "other_kind_cases", "second_engine_cases", "kind_retag_cross_type_cases", "cross_blob_cases", "cross_blob_xor_cases", "cross_blob_wraps_sharing_kind_and_id"],
        &["cross_blob_rejected_by_auth", "accepted_untouched", "roundtrips_ok", "behaviour_crosschecks_ok", "behaviour_crosscheck_distinguishes_other_key", "rejected_by_auth"],
    );
    rep.finish()
}

fn replay(args: &Args, mut rep: Report) {
    let v: mcx::Value = std::fs::read_to_string(args.replay.as_ref().unwrap())
        .ok()
        .and_then(|s| mcx::serde_json::from_str(&s).ok())
        .unwrap_or_else(|| mcx::machinery_error("cannot read replay file"));
    let r = &v["replay"];
    let (Some(bytes), Some(ty), Some(engname)) = (r["bytes"].as_str().map(unhex), r["unwrap_as"].as_str(), r["engine"].as_str()) else {
        mcx::machinery_error("replay file lacks bytes/unwrap_as/engine (round-trip cases are replayed by running the check)")
    };
    let eng = engine(args.seed, 36, if engname == "eng2" { 2 } else { 1 });
    let types = table();
    let Some(te) = types.iter().find(|t| t.name == ty) else { mcx::machinery_error("replay: unknown type") };
    let res = (te.unwrap)(&eng, &bytes);
    println!("replay {}: unwrap as {ty} with {engname} gives {res:?}", v["key"].as_str().unwrap_or(""));
    if matches!(res, Res::Ok(_)) && r["form"].as_str() != Some("untouched") {
        rep.violation(v["key"].as_str().unwrap_or("replay").to_string(), format!("reproduces: {res:?}"), r.clone());
    }
    rep.count("evaluations", 1);
    rep.set("distinct_nontrivial", 2u64);
    rep.set("rule", "replay of one recorded case");
    rep.set("exhaustive", false);
    rep.finish()
}
