//! C37 — encryption round-trips and is bound to its context.
//!
//! Primitives: (a) `GroupKey::seal/open`; (b) `EncryptionPublicKey::seal_group_key` /
//! `EncryptionKey::open_group_key` (HPKE base mode); (c) `EncryptionKey::seal_psk_seed / open_psk_seed`
//! (HPKE auth mode); (d) apq `TopicKey::seal_message / open_message`; (e) apq
//! `ReceiverPublicKey::seal_topic_key` / `ReceiverSecretKey::open_topic_key`.
//! Space per sealed object: untouched; every context component replaced by every alternative of its
//! alphabet and (ids) by every single-bit flip; every other tuple of the base context alphabet (all
//! multi-point replacements); DESIGN 4.8 over every ciphertext / encapsulation byte per field;
//! fields swapped with a second sealing; one-byte moves label|parent. Plaintext lengths
//! {0,1,15,16,17,255} for (a) and (d).
//! Oracle (statement): open returns the original plaintext / key iff nothing changed.

use aranya_crypto::{
    apq::{
        EncryptedTopicKey, ReceiverSecretKey, Sender, SenderSecretKey, SenderSigningKey, Topic, TopicKey, Version,
    },
    ctutils::CtEq as _,
    policy::{CmdId, GroupId},
    tls::{EncryptedPskSeed, PskSeed},
    Context, Encap, EncryptedGroupKey, EncryptionKey, Error, GroupKey, HpkeError, SigningKey,
};
use mcx::{json, rayon::prelude::*, Args, Level, Report, Tier};

use crate::common::*;

const LENS: [usize; 6] = [0, 1, 15, 16, 17, 255];

#[derive(Debug, Clone, PartialEq)]
enum Res {
    /// opened and equals the original
    Match,
    /// opened but to something else
    Mismatch,
    Parse,
    Auth,
    Kem,
    Other(String),
}

impl Res {
    fn class(&self) -> &'static str {
        match self {
            Res::Match => "accepted_original",
            Res::Mismatch => "accepted_other_plaintext",
            Res::Parse => "rejected_by_parse",
            Res::Auth => "rejected_by_auth",
            Res::Kem => "rejected_by_kem_or_import",
            Res::Other(_) => "rejected_other",
        }
    }
}

fn classify(e: &Error) -> Res {
    match e {
        Error::Open(_) | Error::Hpke(HpkeError::Open(_)) => Res::Auth,
        Error::Hpke(HpkeError::Kem(_)) | Error::Hpke(HpkeError::Import(_)) | Error::Kem(_) | Error::Ecdh(_) | Error::Import(_) => Res::Kem,
        e => Res::Other(format!("{e}")),
    }
}

fn judge(t: &mut Tally, prim: &str, obj: &str, what: &str, res: Res, untouched: bool, replay: impl FnOnce() -> mcx::Value) {
    t.count("evaluations", 1);
    t.count(&format!("{prim}_cases"), 1);
    t.outcome(&format!("{prim}:{}:{}", if untouched { "untouched" } else { "tampered" }, res.class()));
    match (&res, untouched) {
        (Res::Match, true) => t.count("accepted_untouched", 1),
        (_, true) => t.violation(format!("{prim}:{what}"), format!("{obj}: opening the untouched ciphertext in the sealing context gave {res:?}"), replay()),
        (Res::Match | Res::Mismatch, false) => {
            t.nontrivial(&format!("{prim}:{obj}:{what}"));
            t.violation(format!("{prim}:{what}"), format!("{obj}: open succeeded ({res:?}) although {what}"), replay())
        }
        (Res::Auth, false) => {
            t.count("rejected_by_auth", 1);
            t.nontrivial(&format!("{prim}:{obj}:{what}"));
        }
        (Res::Kem, false) => {
            t.count("rejected_by_kem_or_import", 1);
            t.nontrivial(&format!("{prim}:{obj}:{what}"));
        }
        (Res::Parse, false) => t.count("rejected_by_parse", 1),
        (Res::Other(_), false) => t.count("rejected_other", 1),
    }
}

fn bitflips32(base: &[u8; 32], all: bool) -> Vec<(String, [u8; 32])> {
    let mut v = vec![];
    for i in 0..256 {
        if all || [0, 7, 128, 248, 255].contains(&i) {
            let mut b = *base;
            b[i / 8] ^= 1 << (i % 8);
            v.push((format!("^bit{i}"), b));
        }
    }
    v
}

fn id_alphabet(seed: u64) -> Vec<[u8; 32]> {
    let mut p1 = [0u8; 32];
    for (i, b) in p1.iter_mut().enumerate() {
        *b = b'B' + (i as u8 % 24);
    }
    let mut p2 = [0u8; 32];
    aranya_crypto::Csprng::fill_bytes(&rng(seed, 37, 0x100), &mut p2);
    vec![[0u8; 32], p1, p2]
}

struct P {
    seed: u64,
    tier: Tier,
}

impl P {
    fn thorough(&self) -> bool {
        self.tier == Tier::Thorough
    }
}

fn fields3(n: usize, a: usize, b: usize, names: [&'static str; 3]) -> Vec<Field> {
    let mut f = vec![];
    if a > 0 {
        f.push(Field { name: names[0], start: 0, end: a, is_len: false });
    }
    if b > a {
        f.push(Field { name: names[1], start: a, end: b, is_len: false });
    }
    f.push(Field { name: names[2], start: b, end: n, is_len: false });
    f
}

// ------------------------------------------------------------------------------------------ (a)

fn group_key_job(p: &P, ki: usize, li: usize) -> Tally {
    let mut t = Tally::default();
    let len = LENS[li];
    let keys: Vec<GroupKey<CS>> = (0..2).map(|i| GroupKey::<CS>::new(rng(p.seed, 3701, i))).collect();
    let authors: Vec<_> = (0..2).map(|i| SigningKey::<CS>::new(rng(p.seed, 3702, i)).public().unwrap()).collect();
    let labels = ["l", "telemetry"];
    let parents = id_alphabet(p.seed);
    let pt: Vec<u8> = (0..len).map(|i| (i as u8).wrapping_mul(31).wrapping_add(5)).collect();
    let r = rng(p.seed, 3703, (ki * 16 + li) as u64);
    let open = |k: usize, ct: &[u8], label: &str, parent: &[u8; 32], a: usize| -> Res {
        let mut dst = vec![0u8; ct.len().saturating_sub(GroupKey::<CS>::OVERHEAD)];
        match keys[k].open(&mut dst, ct, Context { label, parent: CmdId::from_bytes(*parent), author_sign_pk: &authors[a] }) {
            Ok(()) if dst == pt => Res::Match,
            Ok(()) => Res::Mismatch,
            Err(e) => {
                if ct.len() < GroupKey::<CS>::OVERHEAD {
                    Res::Parse
                } else {
                    classify(&e)
                }
            }
        }
    };
    for (lbi, label) in labels.iter().enumerate() {
        for (pi, parent) in parents.iter().enumerate() {
            for ai in 0..authors.len() {
                let obj = format!("gk{ki}/len{len}/l{lbi}/p{pi}/a{ai}");
                let mut ct = vec![0u8; len + GroupKey::<CS>::OVERHEAD];
                keys[ki]
                    .seal(&r, &mut ct, &pt, Context { label, parent: CmdId::from_bytes(*parent), author_sign_pk: &authors[ai] })
                    .unwrap_or_else(|e| mcx::machinery_error(&format!("GroupKey::seal: {e}")));
                let mut ct2 = vec![0u8; len + GroupKey::<CS>::OVERHEAD];
                keys[ki]
                    .seal(&r, &mut ct2, &pt, Context { label, parent: CmdId::from_bytes(*parent), author_sign_pk: &authors[ai] })
                    .unwrap();
                t.count("sealed_objects", 1);
                let rp = |what: &str, k: usize, ct: &[u8], l: &str, pa: &[u8; 32], a: usize| {
                    json!({"primitive": "group_key", "object": obj, "what": what, "key": k, "len": len, "ciphertext": hexs(ct), "label": l, "parent": hexs(pa), "author": a,
                           "sealed_with": {"key": ki, "label": label, "parent": hexs(parent), "author": ai}})
                };
                judge(&mut t, "group_key", &obj, "untouched", open(ki, &ct, label, parent, ai), true, || rp("untouched", ki, &ct, label, parent, ai));
                // every other tuple of the context alphabet (all multi-point replacements)
                for k2 in 0..keys.len() {
                    for (l2i, l2) in labels.iter().enumerate() {
                        for (p2i, p2) in parents.iter().enumerate() {
                            for a2 in 0..authors.len() {
                                if (k2, l2i, p2i, a2) == (ki, lbi, pi, ai) {
                                    continue;
                                }
                                let mut w = vec![];
                                if k2 != ki {
                                    w.push(format!("key:=gk{k2}"));
                                }
                                if l2i != lbi {
                                    w.push(format!("label:={l2}"));
                                }
                                if p2i != pi {
                                    w.push(format!("parent:=p{p2i}"));
                                }
                                if a2 != ai {
                                    w.push(format!("author:=a{a2}"));
                                }
                                let what = w.join("+");
                                t.count("context_replacements", 1);
                                judge(&mut t, "group_key", &obj, &what, open(k2, &ct, l2, p2, a2), false, || rp(&what, k2, &ct, l2, p2, a2));
                            }
                        }
                    }
                }
                // derived label alternatives
                let mut lalts: Vec<(String, String)> = vec![("append_x".into(), format!("{label}x")), ("droplast".into(), label[..label.len() - 1].to_string()), ("upper".into(), label.to_uppercase()), ("empty".into(), String::new())];
                for i in 0..label.len() * 8 {
                    let mut b = label.as_bytes().to_vec();
                    b[i / 8] ^= 1 << (i % 8);
                    if let Ok(s) = String::from_utf8(b) {
                        lalts.push((format!("^bit{i}"), s));
                    }
                }
                for (nm, l2) in &lalts {
                    if l2 == label {
                        continue;
                    }
                    let what = format!("label:{nm}");
                    t.count("context_replacements", 1);
                    judge(&mut t, "group_key", &obj, &what, open(ki, &ct, l2, parent, ai), false, || rp(&what, ki, &ct, l2, parent, ai));
                }
                for (nm, p2) in bitflips32(parent, true) {
                    let what = format!("parent:{nm}");
                    t.count("context_replacements", 1);
                    judge(&mut t, "group_key", &obj, &what, open(ki, &ct, label, &p2, ai), false, || rp(&what, ki, &ct, label, &p2, ai));
                }
                // one-byte moves across label|parent
                {
                    let mut moves: Vec<(String, String, [u8; 32])> = vec![];
                    if parent[0] < 0x80 {
                        let mut p2 = [0u8; 32];
                        p2[..31].copy_from_slice(&parent[1..]);
                        moves.push(("move:parent[0]>label".into(), format!("{label}{}", parent[0] as char), p2));
                    }
                    let last = *label.as_bytes().last().unwrap();
                    let mut p2 = [0u8; 32];
                    p2[0] = last;
                    p2[1..].copy_from_slice(&parent[..31]);
                    moves.push(("move:label[-1]>parent".into(), label[..label.len() - 1].to_string(), p2));
                    for (what, l2, p2) in moves {
                        t.count("boundary_move_cases", 1);
                        judge(&mut t, "group_key", &obj, &what, open(ki, &ct, &l2, &p2, ai), false, || rp(&what, ki, &ct, &l2, &p2, ai));
                    }
                }
                // ciphertext corruptions (nonce | ciphertext | tag)
                let n = ct.len();
                let fields = fields3(n, 12, n - 16, ["nonce", "ciphertext", "tag"]);
                let cors = corruptions(&ct, &fields, Some(&ct2), Positions::All);
                for c in &cors {
                    let what = format!("ct:{}", c.name);
                    t.count("ciphertext_corruptions", 1);
                    judge(&mut t, "group_key", &obj, &what, open(ki, &c.bytes, label, parent, ai), false, || rp(&what, ki, &c.bytes, label, parent, ai));
                }
                // pairs: coarse ciphertext corruption × context replacement (thorough)
                if p.thorough() {
                    for c in cors.iter().filter(|c| c.name.ends_with("[0]=00") || c.name.ends_with("[0]=ff") || c.name.contains(":=other")) {
                        for (l2i, l2) in labels.iter().enumerate() {
                            for (p2i, p2) in parents.iter().enumerate() {
                                if (l2i, p2i) == (lbi, pi) {
                                    continue;
                                }
                                let what = format!("ct:{}+label:={l2}+parent:=p{p2i}", c.name);
                                t.count("pair_cases", 1);
                                judge(&mut t, "group_key", &obj, &what, open(ki, &c.bytes, l2, p2, ai), false, || rp(&what, ki, &c.bytes, l2, p2, ai));
                            }
                        }
                    }
                }
            }
        }
    }
    if ki == 0 && li == 2 {
        t.sample(json!({"primitive": "group_key", "plaintext_len": len, "ciphertext_len": len + GroupKey::<CS>::OVERHEAD}));
    }
    t
}

// ------------------------------------------------------------------------------------------ (b)

fn enc_corruptions(enc: &[u8], other: &[u8]) -> Vec<Corruption> {
    let n = enc.len();
    let f = vec![Field { name: "encap", start: 0, end: n, is_len: false }];
    corruptions(enc, &f, Some(other), Positions::All)
}

fn sealed_group_key_job(p: &P, oi: usize) -> Tally {
    let mut t = Tally::default();
    let recips: Vec<EncryptionKey<CS>> = (0..3).map(|i| EncryptionKey::<CS>::new(rng(p.seed, 3711, i))).collect();
    let groups = id_alphabet(p.seed);
    let ri = oi % 2;
    let gi = (oi / 2) % groups.len();
    let gk = GroupKey::<CS>::new(rng(p.seed, 3712, oi as u64));
    let gk_other = GroupKey::<CS>::new(rng(p.seed, 3712, 100 + oi as u64));
    let r = rng(p.seed, 3713, oi as u64);
    let pk = recips[ri].public().unwrap();
    let seal = |k: &GroupKey<CS>| {
        let (enc, ct) = pk.seal_group_key(&r, k, GroupId::from_bytes(groups[gi])).unwrap_or_else(|e| mcx::machinery_error(&format!("seal_group_key: {e}")));
        (enc.as_bytes().to_vec(), postcard::to_allocvec(&ct).unwrap())
    };
    let (enc, ct) = seal(&gk);
    let (enc2, ct2) = seal(&gk_other);
    let want = gk.id().unwrap();
    let obj = format!("sealed_gk{oi}/r{ri}/g{gi}");
    t.count("sealed_objects", 1);
    let open = |rk: usize, enc: &[u8], ct: &[u8], g: &[u8; 32]| -> Res {
        let Ok(enc) = Encap::<CS>::from_bytes(enc) else { return Res::Parse };
        // the typed ciphertext has a fixed size; bytes left over after decoding are a framing error
        let Ok((ct, [])) = postcard::take_from_bytes::<EncryptedGroupKey<CS>>(ct) else { return Res::Parse };
        match recips[rk].open_group_key(&enc, ct, GroupId::from_bytes(*g)) {
            Ok(k) => {
                if k.id().ok() == Some(want) && bool::from(k.ct_eq(&gk)) {
                    Res::Match
                } else {
                    Res::Mismatch
                }
            }
            Err(e) => classify(&e),
        }
    };
    let rp = |what: &str, rk: usize, enc: &[u8], ct: &[u8], g: &[u8; 32]| json!({"primitive": "sealed_group_key", "object": obj, "what": what, "recipient": rk, "encap": hexs(enc), "ciphertext": hexs(ct), "group": hexs(g)});
    if ct.len() != 80 {
        mcx::machinery_error(&format!("EncryptedGroupKey encoding is {} bytes, expected 80", ct.len()));
    }
    let g0 = groups[gi];
    judge(&mut t, "sealed_group_key", &obj, "untouched", open(ri, &enc, &ct, &g0), true, || rp("untouched", ri, &enc, &ct, &g0));
    // context: recipient × group, all tuples
    for rk in 0..recips.len() {
        for (g2i, g2) in groups.iter().enumerate() {
            if (rk, g2i) == (ri, gi) {
                continue;
            }
            let mut w = vec![];
            if rk != ri {
                w.push(format!("recipient:=r{rk}"));
            }
            if g2i != gi {
                w.push(format!("group:=g{g2i}"));
            }
            let what = w.join("+");
            t.count("context_replacements", 1);
            judge(&mut t, "sealed_group_key", &obj, &what, open(rk, &enc, &ct, g2), false, || rp(&what, rk, &enc, &ct, g2));
        }
    }
    for (nm, g2) in bitflips32(&g0, p.thorough()) {
        let what = format!("group:{nm}");
        t.count("context_replacements", 1);
        judge(&mut t, "sealed_group_key", &obj, &what, open(ri, &enc, &ct, &g2), false, || rp(&what, ri, &enc, &ct, &g2));
    }
    for c in enc_corruptions(&enc, &enc2) {
        let what = format!("encap:{}", c.name);
        t.count("encap_corruptions", 1);
        judge(&mut t, "sealed_group_key", &obj, &what, open(ri, &c.bytes, &ct, &g0), false, || rp(&what, ri, &c.bytes, &ct, &g0));
    }
    let fields = fields3(80, 0, 64, ["", "ciphertext", "tag"]);
    for c in corruptions(&ct, &fields, Some(&ct2), Positions::All) {
        let what = format!("ct:{}", c.name);
        t.count("ciphertext_corruptions", 1);
        judge(&mut t, "sealed_group_key", &obj, &what, open(ri, &enc, &c.bytes, &g0), false, || rp(&what, ri, &enc, &c.bytes, &g0));
    }
    if oi == 0 {
        t.sample(json!({"primitive": "sealed_group_key", "encap_len": enc.len(), "ciphertext_len": ct.len()}));
    }
    t
}

// ------------------------------------------------------------------------------------------ (c)

fn psk_seed_job(p: &P, oi: usize) -> Tally {
    let mut t = Tally::default();
    let keys: Vec<EncryptionKey<CS>> = (0..3).map(|i| EncryptionKey::<CS>::new(rng(p.seed, 3721, i))).collect();
    let pks: Vec<_> = keys.iter().map(|k| k.public().unwrap()).collect();
    let groups = id_alphabet(p.seed);
    let (si, ri) = [(0, 1), (1, 0), (0, 2), (2, 1)][oi % 4];
    let gi = (oi / 4) % groups.len();
    let g0 = groups[gi];
    let seed = PskSeed::<CS>::new(rng(p.seed, 3722, oi as u64), &GroupId::from_bytes(g0));
    let seed_other = PskSeed::<CS>::new(rng(p.seed, 3722, 100 + oi as u64), &GroupId::from_bytes(g0));
    let r = rng(p.seed, 3723, oi as u64);
    let seal = |s: &PskSeed<CS>| {
        let (enc, ct) = keys[si].seal_psk_seed(&r, s, &pks[ri], &GroupId::from_bytes(g0)).unwrap_or_else(|e| mcx::machinery_error(&format!("seal_psk_seed: {e}")));
        (enc.as_bytes().to_vec(), postcard::to_allocvec(&ct).unwrap())
    };
    let (enc, ct) = seal(&seed);
    let (enc2, ct2) = seal(&seed_other);
    let obj = format!("psk_seed{oi}/s{si}/r{ri}/g{gi}");
    t.count("sealed_objects", 1);
    let open = |rk: usize, sender: usize, enc: &[u8], ct: &[u8], g: &[u8; 32]| -> Res {
        let Ok(enc) = Encap::<CS>::from_bytes(enc) else { return Res::Parse };
        let Ok((ct, [])) = postcard::take_from_bytes::<EncryptedPskSeed<CS>>(ct) else { return Res::Parse };
        match keys[rk].open_psk_seed(&enc, ct, &pks[sender], &GroupId::from_bytes(*g)) {
            Ok(s) => {
                if bool::from(s.ct_eq(&seed)) {
                    Res::Match
                } else {
                    Res::Mismatch
                }
            }
            Err(e) => classify(&e),
        }
    };
    let rp = |what: &str, rk: usize, sk: usize, enc: &[u8], ct: &[u8], g: &[u8; 32]| json!({"primitive": "psk_seed", "object": obj, "what": what, "recipient": rk, "claimed_sender": sk, "encap": hexs(enc), "ciphertext": hexs(ct), "group": hexs(g)});
    let n = ct.len();
    if n < 32 + 16 {
        mcx::machinery_error("EncryptedPskSeed encoding shorter than expected");
    }
    judge(&mut t, "psk_seed", &obj, "untouched", open(ri, si, &enc, &ct, &g0), true, || rp("untouched", ri, si, &enc, &ct, &g0));
    for rk in 0..keys.len() {
        for sk in 0..keys.len() {
            for (g2i, g2) in groups.iter().enumerate() {
                if (rk, sk, g2i) == (ri, si, gi) {
                    continue;
                }
                let mut w = vec![];
                if rk != ri {
                    w.push(format!("recipient:=k{rk}"));
                }
                if sk != si {
                    w.push(format!("sender:=k{sk}"));
                }
                if g2i != gi {
                    w.push(format!("group:=g{g2i}"));
                }
                let what = w.join("+");
                t.count("context_replacements", 1);
                judge(&mut t, "psk_seed", &obj, &what, open(rk, sk, &enc, &ct, g2), false, || rp(&what, rk, sk, &enc, &ct, g2));
            }
        }
    }
    for (nm, g2) in bitflips32(&g0, p.thorough()) {
        let what = format!("group:{nm}");
        t.count("context_replacements", 1);
        judge(&mut t, "psk_seed", &obj, &what, open(ri, si, &enc, &ct, &g2), false, || rp(&what, ri, si, &enc, &ct, &g2));
    }
    for c in enc_corruptions(&enc, &enc2) {
        let what = format!("encap:{}", c.name);
        t.count("encap_corruptions", 1);
        judge(&mut t, "psk_seed", &obj, &what, open(ri, si, &c.bytes, &ct, &g0), false, || rp(&what, ri, si, &c.bytes, &ct, &g0));
    }
    let fields = fields3(n, 0, n - 16, ["", "ciphertext", "tag"]);
    for c in corruptions(&ct, &fields, Some(&ct2), Positions::All) {
        let what = format!("ct:{}", c.name);
        t.count("ciphertext_corruptions", 1);
        judge(&mut t, "psk_seed", &obj, &what, open(ri, si, &enc, &c.bytes, &g0), false, || rp(&what, ri, si, &enc, &c.bytes, &g0));
    }
    if oi == 0 {
        t.sample(json!({"primitive": "psk_seed", "encap_len": enc.len(), "ciphertext_len": ct.len()}));
    }
    t
}

// ------------------------------------------------------------------------------------------ (d)

fn topic_msg_job(p: &P, li: usize) -> Tally {
    let mut t = Tally::default();
    let len = LENS[li];
    let versions = [Version::new(1), Version::new(2), Version::new(0x0100_0000)];
    let topics = [Topic::new("alpha"), Topic::new("beta")];
    let enc_keys: Vec<_> = (0..2).map(|i| SenderSecretKey::<CS>::new(rng(p.seed, 3731, i)).public().unwrap()).collect();
    let sign_keys: Vec<_> = (0..2).map(|i| SenderSigningKey::<CS>::new(rng(p.seed, 3732, i)).public().unwrap()).collect();
    let pt: Vec<u8> = (0..len).map(|i| (i as u8).wrapping_mul(13).wrapping_add(1)).collect();
    let r = rng(p.seed, 3733, li as u64);
    for (vi, v) in versions.iter().enumerate().take(2) {
        for (ti, topic) in topics.iter().enumerate() {
            // two keys created for the same (version, topic)
            let tks: Vec<TopicKey<CS>> = (0..2).map(|i| TopicKey::<CS>::new(rng(p.seed, 3734, (vi * 8 + ti * 2 + i) as u64), *v, topic).unwrap()).collect();
            for ei in 0..2 {
                let si = ei; // sender identity i = (enc key i, sign key i)
                let obj = format!("topic_msg/len{len}/v{vi}/t{ti}/e{ei}");
                let mut ct = vec![0u8; len + TopicKey::<CS>::OVERHEAD];
                let mut ct2 = ct.clone();
                let ident = Sender { enc_key: &enc_keys[ei], sign_key: &sign_keys[si] };
                tks[0].seal_message(&r, &mut ct, &pt, *v, topic, &ident).unwrap_or_else(|e| mcx::machinery_error(&format!("seal_message: {e}")));
                tks[0].seal_message(&r, &mut ct2, &pt, *v, topic, &ident).unwrap();
                t.count("sealed_objects", 1);
                let open = |k: usize, ct: &[u8], v2: usize, t2: usize, e2: usize, s2: usize| -> Res {
                    let mut dst = vec![0u8; ct.len().saturating_sub(TopicKey::<CS>::OVERHEAD)];
                    let ident = Sender { enc_key: &enc_keys[e2], sign_key: &sign_keys[s2] };
                    match tks[k].open_message(&mut dst, ct, versions[v2], &topics[t2], &ident) {
                        Ok(()) if dst == pt => Res::Match,
                        Ok(()) => Res::Mismatch,
                        Err(e) => {
                            if ct.len() < TopicKey::<CS>::OVERHEAD {
                                Res::Parse
                            } else {
                                classify(&e)
                            }
                        }
                    }
                };
                let rp = |what: &str, ct: &[u8]| json!({"primitive": "topic_message", "object": obj, "what": what, "ciphertext": hexs(ct)});
                judge(&mut t, "topic_message", &obj, "untouched", open(0, &ct, vi, ti, ei, si), true, || rp("untouched", &ct));
                for k in 0..2 {
                    for v2 in 0..versions.len() {
                        for t2 in 0..topics.len() {
                            for e2 in 0..2 {
                                for s2 in 0..2 {
                                    if (k, v2, t2, e2, s2) == (0, vi, ti, ei, si) {
                                        continue;
                                    }
                                    let mut w = vec![];
                                    if k != 0 {
                                        w.push("key:=other".to_string());
                                    }
                                    if v2 != vi {
                                        w.push(format!("version:=v{v2}"));
                                    }
                                    if t2 != ti {
                                        w.push(format!("topic:=t{t2}"));
                                    }
                                    if e2 != ei {
                                        w.push(format!("sender_enc_key:=e{e2}"));
                                    }
                                    if s2 != si {
                                        w.push(format!("sender_sign_key:=s{s2}"));
                                    }
                                    let what = w.join("+");
                                    t.count("context_replacements", 1);
                                    judge(&mut t, "topic_message", &obj, &what, open(k, &ct, v2, t2, e2, s2), false, || rp(&what, &ct));
                                }
                            }
                        }
                    }
                }
                let n = ct.len();
                let fields = fields3(n, 12, n - 16, ["nonce", "ciphertext", "tag"]);
                for c in corruptions(&ct, &fields, Some(&ct2), Positions::All) {
                    let what = format!("ct:{}", c.name);
                    t.count("ciphertext_corruptions", 1);
                    judge(&mut t, "topic_message", &obj, &what, open(0, &c.bytes, vi, ti, ei, si), false, || rp(&what, &c.bytes));
                }
            }
        }
    }
    t
}

// ------------------------------------------------------------------------------------------ (e)

fn sealed_topic_key_job(p: &P, oi: usize) -> Tally {
    let mut t = Tally::default();
    let versions = [Version::new(1), Version::new(2), Version::new(0x0100_0000)];
    let topics = [Topic::new("alpha"), Topic::new("beta")];
    let senders: Vec<SenderSecretKey<CS>> = (0..2).map(|i| SenderSecretKey::<CS>::new(rng(p.seed, 3741, i))).collect();
    let spks: Vec<_> = senders.iter().map(|s| s.public().unwrap()).collect();
    let recvs: Vec<ReceiverSecretKey<CS>> = (0..2).map(|i| ReceiverSecretKey::<CS>::new(rng(p.seed, 3742, i))).collect();
    let (vi, ti, si, ri) = (oi % 2, (oi / 2) % 2, (oi / 4) % 2, (oi / 8) % 2);
    let tk = TopicKey::<CS>::new(rng(p.seed, 3743, oi as u64), versions[vi], &topics[ti]).unwrap();
    let tk_other = TopicKey::<CS>::new(rng(p.seed, 3743, 100 + oi as u64), versions[vi], &topics[ti]).unwrap();
    let r = rng(p.seed, 3744, oi as u64);
    let rpk = recvs[ri].public().unwrap();
    let seal = |k: &TopicKey<CS>| {
        let (enc, ct) = rpk.seal_topic_key(&r, versions[vi], &topics[ti], &senders[si], k).unwrap_or_else(|e| mcx::machinery_error(&format!("seal_topic_key: {e}")));
        (enc.as_bytes().to_vec(), ct.as_bytes().to_vec())
    };
    let (enc, ct) = seal(&tk);
    let (enc2, ct2) = seal(&tk_other);
    let want = tk.id().unwrap();
    let obj = format!("sealed_topic_key{oi}/v{vi}/t{ti}/s{si}/r{ri}");
    t.count("sealed_objects", 1);
    // a message sealed with the original key: the opened key must open it (behaviour)
    let ident_e = SenderSecretKey::<CS>::new(rng(p.seed, 3745, 0)).public().unwrap();
    let ident_s = SenderSigningKey::<CS>::new(rng(p.seed, 3745, 1)).public().unwrap();
    let msg = b"topic message";
    let mut sealed_msg = vec![0u8; msg.len() + TopicKey::<CS>::OVERHEAD];
    tk.seal_message(&r, &mut sealed_msg, msg, versions[vi], &topics[ti], &Sender { enc_key: &ident_e, sign_key: &ident_s }).unwrap();
    let open = |rk: usize, v2: usize, t2: usize, s2: usize, enc: &[u8], ct: &[u8]| -> Res {
        let Ok(enc) = Encap::<CS>::from_bytes(enc) else { return Res::Parse };
        let Ok(ct) = EncryptedTopicKey::<CS>::from_bytes(ct) else { return Res::Parse };
        match recvs[rk].open_topic_key(versions[v2], &topics[t2], &spks[s2], &enc, &ct) {
            Ok(k) => {
                let mut dst = vec![0u8; msg.len()];
                let opens = k.open_message(&mut dst, &sealed_msg, versions[vi], &topics[ti], &Sender { enc_key: &ident_e, sign_key: &ident_s }).is_ok() && dst == msg;
                if k.id().ok() == Some(want) && opens {
                    Res::Match
                } else {
                    Res::Mismatch
                }
            }
            Err(e) => classify(&e),
        }
    };
    let rp = |what: &str, enc: &[u8], ct: &[u8]| json!({"primitive": "sealed_topic_key", "object": obj, "what": what, "encap": hexs(enc), "ciphertext": hexs(ct)});
    judge(&mut t, "sealed_topic_key", &obj, "untouched", open(ri, vi, ti, si, &enc, &ct), true, || rp("untouched", &enc, &ct));
    for rk in 0..2 {
        for v2 in 0..versions.len() {
            for t2 in 0..topics.len() {
                for s2 in 0..2 {
                    if (rk, v2, t2, s2) == (ri, vi, ti, si) {
                        continue;
                    }
                    let mut w = vec![];
                    if rk != ri {
                        w.push(format!("recipient:=r{rk}"));
                    }
                    if v2 != vi {
                        w.push(format!("version:=v{v2}"));
                    }
                    if t2 != ti {
                        w.push(format!("topic:=t{t2}"));
                    }
                    if s2 != si {
                        w.push(format!("sender:=s{s2}"));
                    }
                    let what = w.join("+");
                    t.count("context_replacements", 1);
                    judge(&mut t, "sealed_topic_key", &obj, &what, open(rk, v2, t2, s2, &enc, &ct), false, || rp(&what, &enc, &ct));
                }
            }
        }
    }
    for c in enc_corruptions(&enc, &enc2) {
        let what = format!("encap:{}", c.name);
        t.count("encap_corruptions", 1);
        judge(&mut t, "sealed_topic_key", &obj, &what, open(ri, vi, ti, si, &c.bytes, &ct), false, || rp(&what, &c.bytes, &ct));
    }
    let n = ct.len();
    let fields = fields3(n, 0, n - 16, ["", "ciphertext", "tag"]);
    for c in corruptions(&ct, &fields, Some(&ct2), Positions::All) {
        let what = format!("ct:{}", c.name);
        t.count("ciphertext_corruptions", 1);
        judge(&mut t, "sealed_topic_key", &obj, &what, open(ri, vi, ti, si, &enc, &c.bytes), false, || rp(&what, &enc, &c.bytes));
    }
    t
}

// ---------------------------------------------------------------------------------------------

pub fn run(args: &Args) {
    let mut rep = Report::new(args, Level::Exploration);
    let replay_key = crate::common::replay_key(args);
    let p = P { seed: args.seed, tier: args.tier };
    enum Job {
        Gk(usize, usize),
        Sgk(usize),
        Psk(usize),
        Tm(usize),
        Stk(usize),
    }
    let mut jobs = vec![];
    for ki in 0..args.tier.pick(1, 2) {
        for li in 0..LENS.len() {
            jobs.push(Job::Gk(ki, li));
        }
    }
    for oi in 0..args.tier.pick(4, 24) {
        jobs.push(Job::Sgk(oi));
    }
    for oi in 0..args.tier.pick(4, 24) {
        jobs.push(Job::Psk(oi));
    }
    for li in 0..LENS.len() {
        jobs.push(Job::Tm(li));
    }
    for oi in 0..args.tier.pick(4, 32) {
        jobs.push(Job::Stk(oi));
    }
    let tally = jobs
        .par_iter()
        .map(|j| match j {
            Job::Gk(k, l) => group_key_job(&p, *k, *l),
            Job::Sgk(o) => sealed_group_key_job(&p, *o),
            Job::Psk(o) => psk_seed_job(&p, *o),
            Job::Tm(l) => topic_msg_job(&p, *l),
            Job::Stk(o) => sealed_topic_key_job(&p, *o),
        })
        .reduce(Tally::default, |mut a, b| {
            a.merge(b);
            a
        });
    let tally = crate::common::filter_replay(tally, &replay_key);
    tally.into_report(&mut rep);
    rep.set("plaintext_lengths", LENS.to_vec());
    rep.set(
        "rule",
        "5 primitives (GroupKey seal/open; HPKE-sealed group key; HPKE-auth sealed PSK seed; apq topic-key messages; HPKE-auth sealed topic key) × sealed objects over the context alphabets × {untouched; every other tuple of the context alphabet; every single-bit flip of parent/group ids; derived labels; one-byte moves label|parent; DESIGN 4.8 over every byte of ciphertext (nonce|ciphertext|tag) and encapsulation, every single-bit flip, all truncations, trailing byte, field swaps with a second sealing}; distinct_nontrivial = distinct tampered (primitive, object, change) triples that parsed and reached the AEAD / KEM computation",
    );
    rep.set("exhaustive", true);
    rep.assume("binding property only, DefaultCipherSuite with deterministic keys and nonces; nothing cryptographic is claimed");
    rep.assume("apq version and topic are treated as context components of topic keys although the statement's parenthesis does not list them");
    guards(
        &mut rep,
        &["sealed_objects", "context_replacements", "ciphertext_corruptions", "encap_corruptions", "boundary_move_cases", "group_key_cases", "sealed_group_key_cases", "psk_seed_cases", "topic_message_cases", "sealed_topic_key_cases"],
        &["accepted_untouched", "rejected_by_auth"],
    );
    rep.finish()
}
