//! C38 — AFC channel keys agree only for matching parameters.
//!
//! Level 1 (aranya-crypto `afc::uni`): one author secret / peer encapsulation from `UniSecrets::new`;
//!   every author-side parameter tuple a = (parent, label, seal id, open id, own secret key, peer public
//!   key) → `UniSealKey::from_author_secret`; every peer-side tuple b → `UniOpenKey::from_peer_encap`;
//!   the *full cross product* a × b (all single and multi-parameter differences on either side) is judged:
//!   the peer opens the author's message iff the four ids agree and each side's peer public key is the
//!   public half of the other side's secret key. Plus every single-bit flip of each of the four ids on
//!   either side, every DESIGN 4.8 corruption of the encapsulation, a second author secret, and
//!   seal id == open id on every entry point (a device never derives both ends).
//! Level 2 (`aranya_afc_util::Handler`): real key stores, wrapped keys and effects; every
//!   single-parameter change of `UniChannelCreated` (and of the author's device id) × every
//!   single-parameter change of `UniChannelReceived` (and of the peer's device id, and 4.8 over the
//!   encapsulation bytes); role checks: created ⇒ only `SealOnly`, received ⇒ only `OpenOnly`, author as
//!   opener / receiver as sealer ⇒ error, a device fed both effects of its own channel never holds both
//!   ends.

use aranya_afc_util::{Handler, UniChannelCreated, UniChannelReceived, UniKey};
use aranya_crypto::{
    afc::{AuthData, OpenKey, SealKey, UniAuthorSecret, UniChannel, UniOpenKey, UniPeerEncap, UniSealKey, UniSecrets},
    keystore::memstore::MemStore,
    policy::{CmdId, LabelId},
    DeviceId, EncryptionKey, EncryptionPublicKey, KeyStoreExt as _,
};
use mcx::{json, rayon::prelude::*, Args, Level, Report, Tier};

use crate::common::*;

const MSG: &[u8] = b"afc message for C38";

fn id32(tag: u8, i: u8) -> [u8; 32] {
    let mut b = [0u8; 32];
    for (j, x) in b.iter_mut().enumerate() {
        *x = tag.wrapping_add((j as u8).wrapping_mul(i.wrapping_add(3)));
    }
    b[0] = tag;
    b[31] = i;
    b
}

#[derive(Clone, Copy, PartialEq, Eq, Debug)]
struct Tuple {
    parent: [u8; 32],
    label: [u8; 32],
    seal: [u8; 32],
    open: [u8; 32],
    /// index of the own secret key
    sk: usize,
    /// index of the key whose public half is used as the peer's key
    pk: usize,
}

impl Tuple {
    fn describe(&self, base: &Tuple) -> String {
        let mut w = vec![];
        if self.parent != base.parent {
            w.push(format!("parent:={}", &hexs(&self.parent)[..8]));
        }
        if self.label != base.label {
            w.push(format!("label:={}", &hexs(&self.label)[..8]));
        }
        if self.seal != base.seal {
            w.push(format!("seal_id:={}", &hexs(&self.seal)[..8]));
        }
        if self.open != base.open {
            w.push(format!("open_id:={}", &hexs(&self.open)[..8]));
        }
        if self.sk != base.sk {
            w.push(format!("own_sk:=k{}", self.sk));
        }
        if self.pk != base.pk {
            w.push(format!("their_pk:=k{}", self.pk));
        }
        if w.is_empty() {
            "same".into()
        } else {
            w.join("+")
        }
    }
    fn to_json(&self) -> mcx::Value {
        json!({"parent": hexs(&self.parent), "label": hexs(&self.label), "seal_id": hexs(&self.seal), "open_id": hexs(&self.open), "own_sk": self.sk, "their_pk": self.pk})
    }
}

/// the statement's relation between an author-side and a peer-side tuple
fn matches(a: &Tuple, b: &Tuple) -> bool {
    a.parent == b.parent && a.label == b.label && a.seal == b.seal && a.open == b.open && a.pk == b.sk && b.pk == a.sk
}

struct Keys {
    sks: Vec<EncryptionKey<CS>>,
    pks: Vec<EncryptionPublicKey<CS>>,
}

fn keys(seed: u64, n: usize) -> Keys {
    let sks: Vec<_> = (0..n).map(|i| EncryptionKey::<CS>::new(rng(seed, 3801, i as u64))).collect();
    let pks = sks.iter().map(|k| k.public().unwrap()).collect();
    Keys { sks, pks }
}

fn chan<'a>(k: &'a Keys, t: &Tuple) -> UniChannel<'a, CS> {
    UniChannel {
        parent_cmd_id: CmdId::from_bytes(t.parent),
        our_sk: &k.sks[t.sk],
        their_pk: &k.pks[t.pk],
        seal_id: DeviceId::from_bytes(t.seal),
        open_id: DeviceId::from_bytes(t.open),
        label_id: LabelId::from_bytes(t.label),
    }
}

fn ad() -> AuthData {
    AuthData { version: 1, label_id: LabelId::from_bytes(id32(b'L', 0)) }
}

fn seal_with(mut k: SealKey<CS>) -> Result<(Vec<u8>, u64), String> {
    let mut ct = vec![0u8; MSG.len() + SealKey::<CS>::OVERHEAD];
    let seq = k.seal(&mut ct, MSG, &ad()).map_err(|e| format!("seal: {e}"))?;
    Ok((ct, seq.to_u64()))
}

fn opens(k: &OpenKey<CS>, ct: &[u8], seq: u64) -> bool {
    let mut pt = vec![0u8; MSG.len()];
    k.open(&mut pt, ct, &ad(), seq.into()).is_ok() && pt == MSG
}

struct Alph {
    parents: Vec<[u8; 32]>,
    labels: Vec<[u8; 32]>,
    devs: Vec<[u8; 32]>,
    nkeys: usize,
}

fn alphabet(tier: Tier) -> Alph {
    let n = tier.pick(2, 3);
    Alph {
        parents: (0..n as u8).map(|i| if i == 0 { [0u8; 32] } else { id32(b'P', i) }).collect(),
        labels: (0..n as u8).map(|i| id32(b'L', i)).collect(),
        devs: (0..3u8).map(|i| id32(b'D', i)).collect(),
        nkeys: 3,
    }
}

fn tuples(al: &Alph) -> Vec<Tuple> {
    let mut v = vec![];
    for p in &al.parents {
        for l in &al.labels {
            for s in &al.devs {
                for o in &al.devs {
                    for sk in 0..al.nkeys {
                        for pk in 0..al.nkeys {
                            v.push(Tuple { parent: *p, label: *l, seal: *s, open: *o, sk, pk });
                        }
                    }
                }
            }
        }
    }
    v
}

// ---------------------------------------------------------------------------------------------
// level 1

fn level1(seed: u64, tier: Tier) -> Tally {
    let al = alphabet(tier);
    let all = tuples(&al);
    let eng = engine(seed, 38, 1);
    let ks = keys(seed, al.nkeys);
    // the honest channel the secrets are created for
    let base = Tuple { parent: al.parents[1], label: al.labels[0], seal: al.devs[0], open: al.devs[1], sk: 0, pk: 1 };
    let secrets = UniSecrets::new(&eng, &chan(&ks, &base)).unwrap_or_else(|e| mcx::machinery_error(&format!("UniSecrets::new: {e}")));
    let secrets2 = UniSecrets::new(&eng, &chan(&ks, &base)).unwrap_or_else(|e| mcx::machinery_error(&format!("UniSecrets::new: {e}")));
    let encap = secrets.peer.as_bytes().to_vec();
    let encap2 = secrets2.peer.as_bytes().to_vec();

    // author side: seal key + one sealed message per tuple (None if derivation failed)
    let mut t = Tally::default();
    let derive_author = |t: &mut Tally, secret: &UniAuthorSecret<CS>, a: &Tuple| -> Option<(Vec<u8>, u64)> {
        match UniSealKey::from_author_secret(&chan(&ks, a), secret.clone()).and_then(|k| k.into_key()) {
            Ok(k) => match seal_with(k) {
                Ok(x) => Some(x),
                Err(e) => mcx::machinery_error(&e),
            },
            Err(e) => {
                t.outcome(&format!("l1:author_derivation_error:{}", if a.seal == a.open { "same_device" } else { "other" }));
                if a.seal != a.open {
                    t.violation(format!("l1:author:{}", a.describe(&base)), format!("from_author_secret failed for distinct devices: {e}"), a.to_json());
                }
                None
            }
        }
    };
    let derive_peer = |t: &mut Tally, enc: &[u8], b: &Tuple| -> Option<OpenKey<CS>> {
        let enc = UniPeerEncap::<CS>::from_bytes(enc).ok()?;
        match UniOpenKey::from_peer_encap(&chan(&ks, b), enc).and_then(|k| k.into_key()) {
            Ok(k) => Some(k),
            Err(e) => {
                t.outcome(&format!("l1:peer_derivation_error:{}", if b.seal == b.open { "same_device" } else { "other" }));
                if b.seal != b.open {
                    t.violation(format!("l1:peer:{}", b.describe(&base)), format!("from_peer_encap failed for distinct devices: {e}"), b.to_json());
                }
                None
            }
        }
    };

    let mut authors: Vec<(Tuple, Option<(Vec<u8>, u64)>)> = vec![];
    for a in &all {
        let r = derive_author(&mut t, &secrets.author, a);
        t.count("evaluations", 1);
        if a.seal == a.open {
            t.count("same_device_cases", 1);
            // every entry point must refuse: the device would hold both ends
            let mut refused = true;
            if r.is_some() {
                refused = false;
                t.violation(format!("l1:author:same_device:{}", a.describe(&base)), "from_author_secret derived a key with seal id == open id".to_string(), a.to_json());
            }
            if UniSecrets::new(&eng, &chan(&ks, a)).is_ok() {
                refused = false;
                t.violation(format!("l1:secrets:same_device:{}", a.describe(&base)), "UniSecrets::new succeeded with seal id == open id".to_string(), a.to_json());
            }
            if derive_peer(&mut t, &encap, a).is_some() {
                refused = false;
                t.violation(format!("l1:peer:same_device:{}", a.describe(&base)), "from_peer_encap derived a key with seal id == open id".to_string(), a.to_json());
            }
            if refused {
                t.count("same_device_refused", 1);
            }
        }
        authors.push((*a, r));
    }
    let peers: Vec<(Tuple, Option<OpenKey<CS>>)> = all.iter().filter(|b| b.seal != b.open).map(|b| (*b, derive_peer(&mut t, &encap, b))).collect();

    // full cross product
    for (a, sealed) in &authors {
        let Some((ct, seq)) = sealed else { continue };
        for (b, ok) in &peers {
            let Some(ok) = ok else { continue };
            t.count("evaluations", 1);
            t.count("l1_cross_pairs", 1);
            let got = opens(ok, ct, *seq);
            let want = matches(a, b);
            t.outcome(if got { "l1:peer_opens" } else { "l1:peer_cannot_open" });
            if want {
                t.count("l1_matching_pairs", 1);
            } else {
                t.nontrivial(&format!("l1:{:?}|{:?}", a, b));
            }
            if got && want {
                t.count("accepted_matching", 1);
            }
            if !got && !want {
                t.count("rejected_mismatching", 1);
            }
            if got != want {
                let what = format!("author[{}]|peer[{}]", a.describe(&base), b.describe(&base));
                t.violation(
                    format!("l1:{}:{what}", if got { "opens-despite-mismatch" } else { "cannot-open-despite-match" }),
                    format!("peer {} the author's message although the parameters {}", if got { "opened" } else { "could not open" }, if want { "match" } else { "differ" }),
                    json!({"level": 1, "author": a.to_json(), "peer": b.to_json()}),
                );
            }
        }
    }

    // single-bit flips of each id on either side of the base channel
    let (base_ct, base_seq) = authors.iter().find(|(a, _)| *a == base).and_then(|(_, s)| s.clone()).unwrap_or_else(|| mcx::machinery_error("base author tuple missing"));
    let base_peer = Tuple { sk: 1, pk: 0, ..base };
    let base_open = derive_peer(&mut t, &encap, &base_peer).unwrap_or_else(|| mcx::machinery_error("base peer key"));
    if !opens(&base_open, &base_ct, base_seq) {
        t.violation("l1:base".to_string(), "peer cannot open the author's message on the honest channel".to_string(), json!({"level": 1, "author": base.to_json(), "peer": base_peer.to_json()}));
    }
    for field in 0..4 {
        for bit in 0..256 {
            let flip = |x: &Tuple| {
                let mut y = *x;
                let f = match field {
                    0 => &mut y.parent,
                    1 => &mut y.label,
                    2 => &mut y.seal,
                    _ => &mut y.open,
                };
                f[bit / 8] ^= 1 << (bit % 8);
                y
            };
            let fname = ["parent", "label", "seal_id", "open_id"][field];
            // peer side changed
            let b = flip(&base_peer);
            t.count("evaluations", 2);
            t.count("l1_bitflip_cases", 2);
            if let Some(k) = derive_peer(&mut t, &encap, &b) {
                let got = opens(&k, &base_ct, base_seq);
                t.outcome(if got { "l1:peer_opens" } else { "l1:peer_cannot_open" });
                t.nontrivial(&format!("l1:peer:{fname}^bit{bit}"));
                if got {
                    t.violation(format!("l1:opens-despite-mismatch:peer[{fname}^bit{bit}]"), "peer opened although one id bit differs on the peer side".to_string(), json!({"level": 1, "author": base.to_json(), "peer": b.to_json()}));
                } else {
                    t.count("rejected_mismatching", 1);
                }
            }
            // author side changed
            let a = flip(&base);
            if let Some((ct, seq)) = derive_author(&mut t, &secrets.author, &a) {
                let got = opens(&base_open, &ct, seq);
                t.outcome(if got { "l1:peer_opens" } else { "l1:peer_cannot_open" });
                t.nontrivial(&format!("l1:author:{fname}^bit{bit}"));
                if got {
                    t.violation(format!("l1:opens-despite-mismatch:author[{fname}^bit{bit}]"), "peer opened although one id bit differs on the author side".to_string(), json!({"level": 1, "author": a.to_json(), "peer": base_peer.to_json()}));
                } else {
                    t.count("rejected_mismatching", 1);
                }
            }
        }
    }
    // encapsulation corruptions and a second author secret
    let f = vec![Field { name: "encap", start: 0, end: encap.len(), is_len: false }];
    for c in corruptions(&encap, &f, Some(&encap2), Positions::All) {
        t.count("evaluations", 1);
        t.count("l1_encap_corruptions", 1);
        match UniPeerEncap::<CS>::from_bytes(&c.bytes) {
            Err(_) => t.outcome("l1:encap_rejected_by_parse"),
            Ok(enc) => match UniOpenKey::from_peer_encap(&chan(&ks, &base_peer), enc).and_then(|k| k.into_key()) {
                Err(_) => {
                    t.outcome("l1:encap_rejected_by_kem");
                    t.nontrivial(&format!("l1:encap:{}", c.name));
                }
                Ok(k) => {
                    t.nontrivial(&format!("l1:encap:{}", c.name));
                    let got = opens(&k, &base_ct, base_seq);
                    t.outcome(if got { "l1:peer_opens" } else { "l1:peer_cannot_open" });
                    if got {
                        t.violation(format!("l1:opens-despite-mismatch:encap:{}", c.name), "peer opened with a modified encapsulation".to_string(), json!({"level": 1, "encap": hexs(&c.bytes)}));
                    } else {
                        t.count("rejected_mismatching", 1);
                    }
                }
            },
        }
    }
    {
        // the second author secret (same channel) must not produce messages the first encap opens
        t.count("evaluations", 1);
        if let Some((ct, seq)) = derive_author(&mut t, &secrets2.author, &base) {
            if opens(&base_open, &ct, seq) {
                t.violation("l1:opens-despite-mismatch:author_secret:=second".to_string(), "peer opened a message sealed under a different author secret".to_string(), json!({"level": 1}));
            } else {
                t.count("rejected_mismatching", 1);
                t.nontrivial("l1:author_secret:=second");
            }
        }
    }
    t.sample(json!({"level": 1, "tuples_per_side": all.len(), "author_keys": authors.iter().filter(|a| a.1.is_some()).count(), "peer_keys": peers.iter().filter(|p| p.1.is_some()).count(), "encap_len": encap.len()}));
    t
}

// ---------------------------------------------------------------------------------------------
// level 2: the effect handler

#[derive(Clone)]
struct CreatedV {
    name: String,
    dev: [u8; 32],
    parent: [u8; 32],
    open_id: [u8; 32],
    /// index of the author's encryption key referenced by the effect (usize::MAX: unknown id)
    enc_key: usize,
    peer_pk: Vec<u8>,
    /// which key's public half `peer_pk` encodes (None if corrupted)
    peer_pk_of: Option<usize>,
    label: [u8; 32],
    /// 0 = the channel's author secret, 1 = a second secret, 2 = unknown id
    secret: usize,
}

#[derive(Clone)]
struct ReceivedV {
    name: String,
    dev: [u8; 32],
    parent: [u8; 32],
    seal_id: [u8; 32],
    author_pk: Vec<u8>,
    author_pk_of: Option<usize>,
    enc_key: usize,
    label: [u8; 32],
    encap: Vec<u8>,
    /// which author secret the encapsulation belongs to (None: corrupted)
    encap_of: Option<usize>,
}

struct World {
    seed: u64,
    pk_bytes: Vec<Vec<u8>>,
    secret_wrapped: Vec<Vec<u8>>,
    encap: Vec<u8>,
}

fn build_store(w: &World, ks: &Keys, eng: &Eng, with_secrets: bool) -> (MemStore, Vec<[u8; 32]>) {
    let mut st = MemStore::new();
    for k in &ks.sks {
        st.insert_key(eng, k.clone()).unwrap_or_else(|e| mcx::machinery_error(&format!("insert enc key: {e}")));
    }
    let mut ids = vec![];
    if with_secrets {
        for b in &w.secret_wrapped {
            let wk: aranya_crypto::default::WrappedKey<CS> = postcard::from_bytes(b).unwrap();
            let s: UniAuthorSecret<CS> = aranya_crypto::Engine::unwrap(eng, &wk).unwrap();
            let id = st.insert_key(eng, s).unwrap_or_else(|e| mcx::machinery_error(&format!("insert secret: {e}")));
            ids.push(*id.as_base().as_array());
        }
    }
    (st, ids)
}

enum HOut<T> {
    Key(T),
    WrongEnd,
    Err(String),
}

fn run_created(w: &World, ks: &Keys, eng: &Eng, v: &CreatedV) -> HOut<(Vec<u8>, u64)> {
    let (st, ids) = build_store(w, ks, eng, true);
    let key_id = match v.secret {
        0 | 1 => ids[v.secret],
        _ => [0xEE; 32],
    };
    let enc_id = if v.enc_key < ks.sks.len() { ks.sks[v.enc_key].id().unwrap() } else { aranya_crypto::EncryptionKeyId::from_bytes([0xED; 32]) };
    let eff = UniChannelCreated {
        parent_cmd_id: CmdId::from_bytes(v.parent),
        open_id: DeviceId::from_bytes(v.open_id),
        author_enc_key_id: enc_id,
        peer_enc_pk: &v.peer_pk,
        label_id: LabelId::from_bytes(v.label),
        key_id: aranya_crypto::BaseId::from_bytes(key_id).into(),
    };
    let mut h = Handler::new(DeviceId::from_bytes(v.dev), st);
    match h.uni_channel_created::<Eng, SealKey<CS>, OpenKey<CS>>(eng, &eff) {
        Ok(UniKey::SealOnly(k)) => match seal_with(k) {
            Ok(x) => HOut::Key(x),
            Err(e) => HOut::Err(e),
        },
        Ok(UniKey::OpenOnly(_)) => HOut::WrongEnd,
        Err(e) => HOut::Err(format!("{e}")),
    }
}

fn run_received(w: &World, ks: &Keys, eng: &Eng, v: &ReceivedV) -> HOut<OpenKey<CS>> {
    let (st, _) = build_store(w, ks, eng, false);
    let enc_id = if v.enc_key < ks.sks.len() { ks.sks[v.enc_key].id().unwrap() } else { aranya_crypto::EncryptionKeyId::from_bytes([0xED; 32]) };
    let eff = UniChannelReceived {
        parent_cmd_id: CmdId::from_bytes(v.parent),
        seal_id: DeviceId::from_bytes(v.seal_id),
        author_enc_pk: &v.author_pk,
        peer_enc_key_id: enc_id,
        label_id: LabelId::from_bytes(v.label),
        encap: &v.encap,
    };
    let mut h = Handler::new(DeviceId::from_bytes(v.dev), st);
    match h.uni_channel_received::<Eng, SealKey<CS>, OpenKey<CS>>(eng, &eff) {
        Ok(UniKey::OpenOnly(k)) => HOut::Key(k),
        Ok(UniKey::SealOnly(_)) => HOut::WrongEnd,
        Err(e) => HOut::Err(format!("{e}")),
    }
}

fn level2(seed: u64, tier: Tier) -> Tally {
    let mut t = Tally::default();
    let eng = engine(seed, 38, 2);
    let ks = keys(seed, 3);
    let pk_bytes: Vec<Vec<u8>> = ks.pks.iter().map(|p| postcard::to_allocvec(p).unwrap()).collect();
    let dev_a = id32(b'D', 0);
    let dev_b = id32(b'D', 1);
    let dev_c = id32(b'D', 2);
    let parent = id32(b'P', 1);
    let label = id32(b'L', 0);
    let base = Tuple { parent, label, seal: dev_a, open: dev_b, sk: 0, pk: 1 };
    let s1 = UniSecrets::new(&eng, &chan(&ks, &base)).unwrap_or_else(|e| mcx::machinery_error(&format!("UniSecrets::new: {e}")));
    let s2 = UniSecrets::new(&eng, &chan(&ks, &base)).unwrap();
    let encap = s1.peer.as_bytes().to_vec();
    let encap2 = s2.peer.as_bytes().to_vec();
    let wrap = |s: UniAuthorSecret<CS>| postcard::to_allocvec(&aranya_crypto::Engine::wrap(&eng, s).unwrap()).unwrap();
    let w = World { seed, pk_bytes, secret_wrapped: vec![wrap(s1.author), wrap(s2.author)], encap: encap.clone() };

    // ---- created-side variants (author): base + every single-parameter change
    let cb = CreatedV { name: "same".into(), dev: dev_a, parent, open_id: dev_b, enc_key: 0, peer_pk: w.pk_bytes[1].clone(), peer_pk_of: Some(1), label, secret: 0 };
    let mut cvs = vec![cb.clone()];
    let flip = |x: &[u8; 32], bit: usize| {
        let mut y = *x;
        y[bit / 8] ^= 1 << (bit % 8);
        y
    };
    let bits: Vec<usize> = if tier == Tier::Thorough { (0..256).collect() } else { vec![0, 7, 128, 255] };
    for (nm, alts) in [("parent", vec![[0u8; 32], id32(b'P', 2)]), ("label", vec![id32(b'L', 1)]), ("open_id", vec![dev_c, dev_a]), ("device(seal_id)", vec![dev_c, dev_b])] {
        let get = |v: &CreatedV| match nm {
            "parent" => v.parent,
            "label" => v.label,
            "open_id" => v.open_id,
            _ => v.dev,
        };
        let set = |v: &mut CreatedV, x: [u8; 32]| match nm {
            "parent" => v.parent = x,
            "label" => v.label = x,
            "open_id" => v.open_id = x,
            _ => v.dev = x,
        };
        let mut all: Vec<(String, [u8; 32])> = alts.iter().map(|a| (format!("{nm}:={}", &hexs(a)[..6]), *a)).collect();
        for &b in &bits {
            all.push((format!("{nm}^bit{b}"), flip(&get(&cb), b)));
        }
        for (name, x) in all {
            let mut v = cb.clone();
            set(&mut v, x);
            v.name = name;
            cvs.push(v);
        }
    }
    for k in [1usize, 2, usize::MAX] {
        let mut v = cb.clone();
        v.enc_key = k;
        v.name = if k == usize::MAX { "author_enc_key_id:=unknown".into() } else { format!("author_enc_key_id:=k{k}") };
        cvs.push(v);
    }
    for k in [0usize, 2] {
        let mut v = cb.clone();
        v.peer_pk = w.pk_bytes[k].clone();
        v.peer_pk_of = Some(k);
        v.name = format!("peer_enc_pk:=k{k}");
        cvs.push(v);
    }
    for s in [1usize, 2] {
        let mut v = cb.clone();
        v.secret = s;
        v.name = if s == 1 { "key_id:=second_secret".into() } else { "key_id:=unknown".into() };
        cvs.push(v);
    }

    // ---- received-side variants (peer)
    let rb = ReceivedV { name: "same".into(), dev: dev_b, parent, seal_id: dev_a, author_pk: w.pk_bytes[0].clone(), author_pk_of: Some(0), enc_key: 1, label, encap: encap.clone(), encap_of: Some(0) };
    let mut rvs = vec![rb.clone()];
    for (nm, alts) in [("parent", vec![[0u8; 32], id32(b'P', 2)]), ("label", vec![id32(b'L', 1)]), ("seal_id", vec![dev_c, dev_b]), ("device(open_id)", vec![dev_c, dev_a])] {
        let get = |v: &ReceivedV| match nm {
            "parent" => v.parent,
            "label" => v.label,
            "seal_id" => v.seal_id,
            _ => v.dev,
        };
        let set = |v: &mut ReceivedV, x: [u8; 32]| match nm {
            "parent" => v.parent = x,
            "label" => v.label = x,
            "seal_id" => v.seal_id = x,
            _ => v.dev = x,
        };
        let mut all: Vec<(String, [u8; 32])> = alts.iter().map(|a| (format!("{nm}:={}", &hexs(a)[..6]), *a)).collect();
        for &b in &bits {
            all.push((format!("{nm}^bit{b}"), flip(&get(&rb), b)));
        }
        for (name, x) in all {
            let mut v = rb.clone();
            set(&mut v, x);
            v.name = name;
            rvs.push(v);
        }
    }
    for k in [0usize, 2, usize::MAX] {
        let mut v = rb.clone();
        v.enc_key = k;
        v.name = if k == usize::MAX { "peer_enc_key_id:=unknown".into() } else { format!("peer_enc_key_id:=k{k}") };
        rvs.push(v);
    }
    for k in [1usize, 2] {
        let mut v = rb.clone();
        v.author_pk = w.pk_bytes[k].clone();
        v.author_pk_of = Some(k);
        v.name = format!("author_enc_pk:=k{k}");
        rvs.push(v);
    }
    {
        let f = vec![Field { name: "encap", start: 0, end: encap.len(), is_len: false }];
        for c in corruptions(&encap, &f, Some(&encap2), Positions::All) {
            let mut v = rb.clone();
            v.encap_of = if c.bytes == encap2 { Some(1) } else { None };
            v.encap = c.bytes;
            v.name = format!("encap:{}", c.name);
            rvs.push(v);
        }
        // 4.8 over the encoded public keys as well (quick: edges via the same alphabet on all bytes)
        let pkb = &w.pk_bytes[0];
        let f = vec![Field { name: "author_enc_pk", start: 0, end: pkb.len(), is_len: false }];
        for c in corruptions(pkb, &f, None, Positions::All) {
            let mut v = rb.clone();
            // what the repository's decoder makes of the bytes (it ignores trailing bytes)
            v.author_pk_of = match postcard::from_bytes::<EncryptionPublicKey<CS>>(&c.bytes) {
                Ok(pk) => Some(ks.pks.iter().position(|k| *k == pk).unwrap_or(usize::MAX - 1)),
                Err(_) => None,
            };
            v.author_pk = c.bytes;
            v.name = format!("author_enc_pk:{}", c.name);
            rvs.push(v);
        }
    }

    t.count("l2_created_variants", cvs.len() as u64);
    t.count("l2_received_variants", rvs.len() as u64);

    // run each side once per variant (in parallel), then judge the cross product
    let created: Vec<HOut<(Vec<u8>, u64)>> = cvs.par_iter().map_init(|| (keys(w.seed, 3), engine(w.seed, 38, 2)), |(ks, e), v| run_created(&w, ks, e, v)).collect();
    let received: Vec<HOut<OpenKey<CS>>> = rvs.par_iter().map_init(|| (keys(w.seed, 3), engine(w.seed, 38, 2)), |(ks, e), v| run_received(&w, ks, e, v)).collect();

    for (v, o) in cvs.iter().zip(&created) {
        t.count("evaluations", 1);
        match o {
            HOut::Key(_) => t.outcome("l2:created:SealOnly"),
            HOut::WrongEnd => {
                t.outcome("l2:created:OpenOnly");
                t.violation(format!("l2:created:{}:wrong-end", v.name), "uni_channel_created returned an open key: the author holds the wrong / both ends".to_string(), json!({"level": 2, "created": v.name}));
            }
            HOut::Err(e) => t.outcome(&format!("l2:created:err:{e}")),
        }
        // role check: the author must be the sealer
        if v.open_id == v.dev {
            t.count("role_check_cases", 1);
            if !matches!(o, HOut::Err(_)) {
                t.violation(format!("l2:created:{}:author-is-opener", v.name), "uni_channel_created derived a key although the author is the channel's opener".to_string(), json!({"level": 2, "created": v.name}));
            } else {
                t.count("role_check_refused", 1);
            }
        } else if v.enc_key < 3 && v.peer_pk_of.is_some() && v.secret < 2 && !matches!(o, HOut::Key(_)) {
            if let HOut::Err(e) = o {
                t.violation(format!("l2:created:{}:unexpected-error", v.name), format!("uni_channel_created failed for well-formed parameters: {e}"), json!({"level": 2, "created": v.name}));
            }
        }
    }
    for (v, o) in rvs.iter().zip(&received) {
        t.count("evaluations", 1);
        match o {
            HOut::Key(_) => t.outcome("l2:received:OpenOnly"),
            HOut::WrongEnd => {
                t.outcome("l2:received:SealOnly");
                t.violation(format!("l2:received:{}:wrong-end", v.name), "uni_channel_received returned a seal key".to_string(), json!({"level": 2, "received": v.name}));
            }
            HOut::Err(e) => t.outcome(&format!("l2:received:err:{}", if v.encap_of.is_some() && v.author_pk_of.is_some() { e.as_str() } else { "bad-encap-or-pk" })),
        }
        if v.seal_id == v.dev {
            t.count("role_check_cases", 1);
            if !matches!(o, HOut::Err(_)) {
                t.violation(format!("l2:received:{}:receiver-is-sealer", v.name), "uni_channel_received derived a key although the receiving device is the channel's sealer".to_string(), json!({"level": 2, "received": v.name}));
            } else {
                t.count("role_check_refused", 1);
            }
        } else if v.enc_key < 3 && v.author_pk_of.is_some_and(|k| k < 3) && v.encap_of.is_some() && !matches!(o, HOut::Key(_)) {
            if let HOut::Err(e) = o {
                t.violation(format!("l2:received:{}:unexpected-error", v.name), format!("uni_channel_received failed for well-formed parameters: {e}"), json!({"level": 2, "received": v.name}));
            }
        }
    }
    // cross product: does the peer's key open the author's message?
    for (cv, co) in cvs.iter().zip(&created) {
        let HOut::Key((ct, seq)) = co else { continue };
        for (rv, ro) in rvs.iter().zip(&received) {
            let HOut::Key(ok) = ro else { continue };
            t.count("evaluations", 1);
            t.count("l2_cross_pairs", 1);
            let want = cv.parent == rv.parent
                && cv.label == rv.label
                && cv.dev == rv.seal_id
                && cv.open_id == rv.dev
                && cv.peer_pk_of == Some(rv.enc_key)
                && rv.author_pk_of == Some(cv.enc_key)
                && Some(cv.secret) == rv.encap_of;
            let got = opens(ok, ct, *seq);
            t.outcome(if got { "l2:peer_opens" } else { "l2:peer_cannot_open" });
            if got && want {
                t.count("accepted_matching", 1);
            }
            if !got && !want {
                t.count("rejected_mismatching", 1);
            }
            if !want {
                t.nontrivial(&format!("l2:{}|{}", cv.name, rv.name));
            }
            if got != want {
                t.violation(
                    format!("l2:{}:created[{}]|received[{}]", if got { "opens-despite-mismatch" } else { "cannot-open-despite-match" }, cv.name, rv.name),
                    format!("through the handlers the peer {} the author's message although the parameters {}", if got { "opened" } else { "could not open" }, if want { "match" } else { "differ" }),
                    json!({"level": 2, "created": cv.name, "received": rv.name}),
                );
            }
        }
    }
    // a device fed both effects of its own channel never ends up with both ends
    for (dev, enc_key, name) in [(dev_a, 0usize, "author"), (dev_b, 1usize, "peer")] {
        t.count("evaluations", 2);
        t.count("both_ends_cases", 1);
        let c = CreatedV { name: format!("{name}:created"), dev, parent, open_id: dev_b, enc_key, peer_pk: w.pk_bytes[1].clone(), peer_pk_of: Some(1), label, secret: 0 };
        let r = ReceivedV { name: format!("{name}:received"), dev, parent, seal_id: dev_a, author_pk: w.pk_bytes[0].clone(), author_pk_of: Some(0), enc_key, label, encap: w.encap.clone(), encap_of: Some(0) };
        let got_seal = matches!(run_created(&w, &ks, &eng, &c), HOut::Key(_) | HOut::WrongEnd);
        let got_open = matches!(run_received(&w, &ks, &eng, &r), HOut::Key(_) | HOut::WrongEnd);
        t.outcome(&format!("l2:both_ends:{name}:seal={got_seal},open={got_open}"));
        if got_seal && got_open {
            t.violation(format!("l2:both-ends:{name}"), format!("the {name} device derived both ends of its channel"), json!({"level": 2, "device": name}));
        } else {
            t.count("both_ends_refused", 1);
        }
    }
    t.sample(json!({"level": 2, "created_variants": cvs.len(), "received_variants": rvs.len()}));
    t
}

pub fn run(args: &Args) {
    let mut rep = Report::new(args, Level::Exploration);
    let replay_key = crate::common::replay_key(args);
    let seed = args.seed;
    let tier = args.tier;
    let (a, b) = mcx::rayon::join(|| level1(seed, tier), || level2(seed, tier));
    let mut tally = a;
    tally.merge(b);
    let tally = crate::common::filter_replay(tally, &replay_key);
    tally.into_report(&mut rep);
    rep.set(
        "rule",
        "level 1: all author-side × all peer-side parameter tuples (parents × labels × 3 seal ids × 3 open ids × 3 own keys × 3 peer keys per side, full cross product), every single-bit flip of each id on either side, DESIGN 4.8 over the encapsulation, second author secret, seal id == open id on every entry point; level 2: every single-parameter change of UniChannelCreated / author device × every single-parameter change of UniChannelReceived / peer device incl. 4.8 over encapsulation and public-key bytes, role checks. distinct_nontrivial = distinct mismatching (author side, peer side) pairs for which both keys were derived and the AEAD open decided",
    );
    rep.set("exhaustive", true);
    rep.assume("binding property only, DefaultCipherSuite with deterministic keys; nothing cryptographic is claimed");
    rep.assume("the parameters given to UniSecrets::new do not enter the encapsulation (it is the public half of the ephemeral secret); 'author side' means the tuple given to from_author_secret / carried by UniChannelCreated");
    guards(
        &mut rep,
        &["same_device_cases", "role_check_cases", "both_ends_cases", "l1_cross_pairs", "l2_cross_pairs", "l1_matching_pairs", "l1_bitflip_cases", "l1_encap_corruptions"],
        &["accepted_matching", "rejected_mismatching", "same_device_refused", "role_check_refused", "both_ends_refused"],
    );
    rep.finish()
}
