//! C29 — fact queries in policies match a fact-store model.
//!
//! Explicit-state exploration. A state is a history of fact-changing commands; every history is
//! replayed on a fresh graph of a real `ClientState` (real parser, compiler, `VmPolicy`,
//! `MemStorageProvider`). Two families of histories:
//!
//! * **stored fact sets**: every set of ≤ 3 facts over the boundary key alphabets of each schema,
//!   created one command per fact in non-key order; then *every* query literal (every shape ×
//!   every choice of bound keys from the alphabet × value fields bound to each value present in the
//!   alphabet) is evaluated as `query`, `exists`, `count_up_to/at_least/at_most/exactly` 1..3 in a
//!   command's policy block and in the publishing action, and as `map` (visit order observed through
//!   one emitted effect per visited fact) — ephemerally in a session on the committed fact index and,
//!   for one value variant, on-graph on the linear perspective.
//! * **create/update/delete sequences** ≤ 3 operations with valid preconditions (11 command kinds
//!   incl. four `update` literal forms and five two-statement finish blocks), the raw fact listing
//!   (`fact_cache().query_prefix(name, [])`) compared with the model after every command and a full
//!   scan + point queries at the end.
//!
//! * **multi-command actions**: on top of every committed prior store over 3 keys (each key never
//!   created / committed / created and deleted again by earlier single-command actions), every valid
//!   sequence of create/update/delete commands published by ONE action (quick: ≤ 2 steps on all 27
//!   priors and exactly 3 on the 8 priors without committed deletions; thorough: wider, see
//!   `tx_bounds`), so that all of them and the observations between them run on the same
//!   uncommitted perspective over the committed fact index: after every step the
//!   same action scans the schema (query kinds + `map`), after the last step it evaluates every
//!   literal shape bound to the three keys, one never-stored key and the key prefixes in use as
//!   `query`, `exists`, `count_up_to/at_least/at_most/exactly` 1..3 (command policy and action
//!   context) and as `map`; after the commit the raw listing and a session scan are compared.
//!
//! Oracle: the typed model store in `Model` (ordering from the statement), nothing else.

use std::collections::{BTreeMap, BTreeSet};

use aranya_policy_vm::{Machine, Value};
use aranya_runtime::VmEffect;
use mcx::{json, rayon::prelude::*, Args, Level, Report, Value as J};

use crate::{
    schema::{schemas, shapes, tx_literals, tx_params, Atom, Schema, Shape, TxLit, Ty, LIMITS, TX_QKEYS, TX_QPREFIXES, TX_STEPS},
    sys::{decode_fact_struct, field, Graph, Sys},
    util::MinCases,
};

type Fact = (Vec<Atom>, Vec<Atom>);

/// The reference fact store of one schema.
#[derive(Clone, Default, Debug, PartialEq, Eq, PartialOrd, Ord)]
pub struct Model {
    facts: BTreeMap<Vec<Atom>, Vec<Atom>>,
}

/// A query literal: leading keys bound, value fields bound or not.
#[derive(Clone, Debug, PartialEq, Eq, PartialOrd, Ord)]
pub struct Lit {
    shape: Shape,
    keys: Vec<Atom>,
    vals: Vec<Option<Atom>>,
}

impl Model {
    /// Facts whose leading keys equal the bound keys, in key order, filtered by the bound values.
    fn matches(&self, l: &Lit) -> Vec<Fact> {
        self.facts
            .iter()
            .filter(|(k, _)| k[..l.keys.len()] == l.keys[..])
            .filter(|(_, v)| l.vals.iter().zip(v.iter()).all(|(q, v)| q.as_ref().is_none_or(|q| q == v)))
            .map(|(k, v)| (k.clone(), v.clone()))
            .collect()
    }
    fn list(&self) -> Vec<Fact> {
        self.facts.iter().map(|(k, v)| (k.clone(), v.clone())).collect()
    }
    fn show(&self) -> String {
        let f: Vec<String> = self.facts.iter().map(|(k, v)| show_fact(k, v)).collect();
        format!("{{{}}}", f.join(", "))
    }
}

fn show_fact(k: &[Atom], v: &[Atom]) -> String {
    format!("[{}]=>{{{}}}", k.iter().map(Atom::show).collect::<Vec<_>>().join(","), v.iter().map(Atom::show).collect::<Vec<_>>().join(","))
}

impl Lit {
    fn show(&self, s: &Schema) -> String {
        let keys: Vec<String> = s.keys.iter().enumerate().map(|(j, (n, _))| format!("{n}: {}", self.keys.get(j).map(Atom::show).unwrap_or("?".into()))).collect();
        let mut out = format!("{}[{}]", s.name, keys.join(", "));
        if self.shape.val_mask.is_some() {
            let vals: Vec<String> = s.vals.iter().enumerate().map(|(j, (n, _))| format!("{n}: {}", self.vals[j].as_ref().map(Atom::show).unwrap_or("?".into()))).collect();
            out.push_str(&format!("=>{{{}}}", vals.join(", ")));
        }
        out
    }
    fn args(&self, tag: i64) -> Vec<Value> {
        let mut a = vec![Value::Int(tag)];
        a.extend(self.keys.iter().map(Atom::to_value));
        a.extend(self.vals.iter().flatten().map(Atom::to_value));
        a
    }
}

// ---------------------------------------------------------------------------------------------
// alphabets

struct Alphabet {
    /// per key field
    keys: Vec<Vec<Atom>>,
    /// value tuples a fact may carry
    vals: Vec<Vec<Atom>>,
    /// per value field, the atoms a literal may bind
    val_atoms: Vec<Vec<Atom>>,
}

fn alphabet(s: &Schema, thorough: bool) -> Alphabet {
    let ints: Vec<i64> = if thorough { vec![i64::MIN, i64::MIN + 1, -256, -1, 0, 1, 255, i64::MAX - 1, i64::MAX] } else { vec![i64::MIN, -1, 0, 1, i64::MAX] };
    let strs: Vec<&str> = if thorough { vec!["", "a", "ab", "b", "a\u{1}", "é", "aa"] } else { vec!["", "a", "ab", "b"] };
    let ids: Vec<Atom> = if thorough {
        vec![Atom::id(0, 0), Atom::id(0, 1), Atom::id(1, 0), Atom::id(0x7f, 0xff), Atom::id(0x80, 0), Atom::id(0xff, 0xff)]
    } else {
        vec![Atom::id(0, 0), Atom::id(0, 1), Atom::id(0x80, 0), Atom::id(0xff, 0xff)]
    };
    let keys = s
        .keys
        .iter()
        .map(|(_, t)| match t {
            Ty::Int => ints.iter().map(|&i| Atom::Int(i)).collect(),
            Ty::Str => strs.iter().map(|s| Atom::Str(s.to_string())).collect(),
            Ty::Color => (0..3).map(Atom::color).collect(),
            Ty::Id => ids.clone(),
            Ty::Bool => vec![Atom::Bool(false), Atom::Bool(true)],
        })
        .collect();
    // two value tuples that differ in every field
    let tuple = |ix: usize| -> Vec<Atom> {
        s.vals
            .iter()
            .map(|(_, t)| match t {
                Ty::Int => Atom::Int(if ix == 0 { 1 } else { -2 }),
                Ty::Bool => Atom::Bool(ix == 0),
                Ty::Str => Atom::Str(if ix == 0 { "x".into() } else { "".into() }),
                Ty::Color => Atom::color(ix),
                Ty::Id => Atom::id(ix as u8, 0),
            })
            .collect()
    };
    let mut vals = vec![tuple(0), tuple(1)];
    if s.vals.len() > 1 {
        // a mixed tuple so that one bound value field selects differently from the other
        let mut m = tuple(0);
        m[1] = tuple(1)[1].clone();
        vals.push(m);
    }
    let val_atoms = (0..s.vals.len()).map(|j| vals.iter().map(|t| t[j].clone()).collect::<BTreeSet<_>>().into_iter().collect()).collect();
    Alphabet { keys, vals, val_atoms }
}

fn all_keys(a: &Alphabet) -> Vec<Vec<Atom>> {
    let mut out: Vec<Vec<Atom>> = vec![vec![]];
    for field in &a.keys {
        out = out.into_iter().flat_map(|p| field.iter().map(move |x| { let mut q = p.clone(); q.push(x.clone()); q })).collect();
    }
    out
}

/// Every literal of every shape over the alphabet.
fn all_literals(s: &Schema, a: &Alphabet) -> Vec<Lit> {
    let mut out = Vec::new();
    for sh in shapes(s) {
        let mut prefixes: Vec<Vec<Atom>> = vec![vec![]];
        for field in a.keys.iter().take(sh.bound_keys) {
            prefixes = prefixes.into_iter().flat_map(|p| field.iter().map(move |x| { let mut q = p.clone(); q.push(x.clone()); q })).collect();
        }
        let mut valsets: Vec<Vec<Option<Atom>>> = vec![vec![]];
        for j in 0..s.vals.len() {
            valsets = valsets
                .into_iter()
                .flat_map(|p| {
                    let opts: Vec<Option<Atom>> = if sh.val_bound(j) { a.val_atoms[j].iter().cloned().map(Some).collect() } else { vec![None] };
                    opts.into_iter().map(move |o| { let mut q = p.clone(); q.push(o); q })
                })
                .collect();
        }
        for p in &prefixes {
            for v in &valsets {
                out.push(Lit { shape: sh, keys: p.clone(), vals: v.clone() });
            }
        }
    }
    out
}

// ---------------------------------------------------------------------------------------------
// operations (fact-changing commands)

#[derive(Clone, Debug, PartialEq, Eq, PartialOrd, Ord)]
enum Op {
    Mk(Vec<Atom>, Vec<Atom>),
    Del(Vec<Atom>),
    /// kind 0 = all old values bound, 1 = all `?`, 2 = no value clause, 3 = first bound, rest `?`
    Upd(u8, Vec<Atom>, Vec<Atom>),
    CrUp(Vec<Atom>, Vec<Atom>, Vec<Atom>),
    CrDel(Vec<Atom>, Vec<Atom>),
    DelCr(Vec<Atom>, Vec<Atom>),
    UpDel(Vec<Atom>, Vec<Atom>),
    Cr2(Vec<Atom>, Vec<Atom>, Vec<Atom>, Vec<Atom>),
}

impl Op {
    fn kind(&self) -> &'static str {
        match self {
            Op::Mk(..) => "create",
            Op::Del(..) => "delete",
            Op::Upd(0, ..) => "update(old values bound)",
            Op::Upd(1, ..) => "update(old values ?)",
            Op::Upd(2, ..) => "update(no old value clause)",
            Op::Upd(..) => "update(first old value bound, rest ?)",
            Op::CrUp(..) => "create;update in one finish",
            Op::CrDel(..) => "create;delete in one finish",
            Op::DelCr(..) => "delete;create in one finish",
            Op::UpDel(..) => "update;delete in one finish",
            Op::Cr2(..) => "create;create in one finish",
        }
    }
    fn show(&self) -> String {
        let a = |x: &[Atom]| x.iter().map(Atom::show).collect::<Vec<_>>().join(",");
        match self {
            Op::Mk(k, v) => format!("create[{}]=>{{{}}}", a(k), a(v)),
            Op::Del(k) => format!("delete[{}]", a(k)),
            Op::Upd(kind, k, w) => {
                let from = match kind {
                    0 => "=>{all fields: current values}",
                    1 => "=>{all fields: ?}",
                    2 => "",
                    _ => "=>{first field: current value, others: ?}",
                };
                format!("update[{}]{from} to {{{}}}", a(k), a(w))
            }
            Op::CrUp(k, v, w) => format!("create[{}]=>{{{}}};update to {{{}}}", a(k), a(v), a(w)),
            Op::CrDel(k, v) => format!("create[{}]=>{{{}}};delete", a(k), a(v)),
            Op::DelCr(k, w) => format!("delete[{}];create=>{{{}}}", a(k), a(w)),
            Op::UpDel(k, w) => format!("update[{}] to {{{}}};delete", a(k), a(w)),
            Op::Cr2(k, v, l, w) => format!("create[{}]=>{{{}}};create[{}]=>{{{}}}", a(k), a(v), a(l), a(w)),
        }
    }
    /// Valid preconditions (the statement only speaks about creating absent facts and updating or
    /// deleting existing ones).
    fn valid(&self, m: &Model) -> bool {
        match self {
            Op::Mk(k, _) | Op::CrUp(k, ..) | Op::CrDel(k, _) => !m.facts.contains_key(k),
            Op::Del(k) | Op::Upd(_, k, _) | Op::DelCr(k, _) | Op::UpDel(k, _) => m.facts.contains_key(k),
            Op::Cr2(k, _, l, _) => k != l && !m.facts.contains_key(k) && !m.facts.contains_key(l),
        }
    }
    fn apply(&self, m: &mut Model) {
        match self {
            Op::Mk(k, v) => {
                m.facts.insert(k.clone(), v.clone());
            }
            Op::Del(k) | Op::CrDel(k, _) | Op::UpDel(k, _) => {
                m.facts.remove(k);
            }
            Op::Upd(_, k, w) | Op::CrUp(k, _, w) | Op::DelCr(k, w) => {
                m.facts.insert(k.clone(), w.clone());
            }
            Op::Cr2(k, v, l, w) => {
                m.facts.insert(k.clone(), v.clone());
                m.facts.insert(l.clone(), w.clone());
            }
        }
    }
    /// (action name, op code in the Done effect, arguments after the tag)
    fn call(&self, s: &Schema, m: &Model) -> (String, i64, Vec<Value>) {
        let lf = s.lower();
        let vs = |x: &[Atom]| x.iter().map(Atom::to_value).collect::<Vec<_>>();
        let cat = |parts: &[&[Atom]]| parts.iter().flat_map(|p| vs(p)).collect::<Vec<_>>();
        match self {
            Op::Mk(k, v) => (format!("mk_{lf}"), 1, cat(&[k, v])),
            Op::Del(k) => (format!("del_{lf}"), 2, vs(k)),
            Op::Upd(0, k, w) => (format!("updall_{lf}"), 3, cat(&[k, &m.facts[k], w])),
            Op::Upd(1, k, w) => (format!("updany_{lf}"), 4, cat(&[k, w])),
            Op::Upd(2, k, w) => (format!("updnone_{lf}"), 5, cat(&[k, w])),
            Op::Upd(_, k, w) => (format!("updpart_{lf}"), 6, cat(&[k, &m.facts[k][..1], w])),
            Op::CrUp(k, v, w) => (format!("crup_{lf}"), 7, cat(&[k, v, w])),
            Op::CrDel(k, v) => (format!("crdel_{lf}"), 8, cat(&[k, v])),
            Op::DelCr(k, w) => (format!("delcr_{lf}"), 9, cat(&[k, w])),
            Op::UpDel(k, w) => (format!("updel_{lf}"), 10, cat(&[k, w])),
            Op::Cr2(k, v, l, w) => (format!("cr2_{lf}"), 11, cat(&[k, v, l, w])),
        }
    }
    fn order_bytes(&self, out: &mut Vec<u8>) {
        let (tag, parts): (u8, Vec<&[Atom]>) = match self {
            Op::Mk(k, v) => (1, vec![k, v]),
            Op::Del(k) => (2, vec![k]),
            Op::Upd(kind, k, w) => (3 + kind, vec![k, w]),
            Op::CrUp(k, v, w) => (7, vec![k, v, w]),
            Op::CrDel(k, v) => (8, vec![k, v]),
            Op::DelCr(k, w) => (9, vec![k, w]),
            Op::UpDel(k, w) => (10, vec![k, w]),
            Op::Cr2(k, v, l, w) => (11, vec![k, v, l, w]),
        };
        out.push(tag);
        for p in parts {
            for a in p {
                a.order_bytes(out);
            }
        }
    }
}

// ---------------------------------------------------------------------------------------------
// worker

#[derive(Clone, Copy, PartialEq, Eq)]
enum Ctx {
    Ephemeral,
    OnGraph,
    /// inside the action that published the last commands of the history (uncommitted perspective)
    InTx,
}
impl Ctx {
    fn name(self) -> &'static str {
        match self {
            Ctx::Ephemeral => "session",
            Ctx::OnGraph => "on-graph",
            Ctx::InTx => "same action, uncommitted",
        }
    }
}

struct Worker<'a> {
    sys: Sys,
    rep: Report,
    bad: MinCases,
    states: BTreeSet<(usize, Model)>,
    machine: &'a Machine,
    seed: u64,
    tag: i64,
    all_literals: bool,
    /// index in the reported history at which the commands of one multi-command action begin
    tx_from: Option<usize>,
}

impl<'a> Worker<'a> {
    fn new(parent: &Report, machine: &'a Machine, seed: u64) -> Self {
        Worker { sys: Sys::new(machine, seed), rep: parent.worker(), bad: MinCases::default(), states: BTreeSet::new(), machine, seed, tag: 0, all_literals: false, tx_from: None }
    }

    /// The storage provider keeps every graph; start over now and then to bound memory.
    fn recycle(&mut self) {
        if self.sys.graphs_created >= 400 {
            self.rep.count("client_states", 1);
            self.sys = Sys::new(self.machine, self.seed);
        }
    }

    fn fail(&mut self, s: &Schema, group: String, hist: &[Op], lit: Option<(&Lit, Ctx, &str)>, detail: String) {
        let si = schemas().iter().position(|x| x.name == s.name).unwrap_or(9) as u8;
        let mut order = vec![hist.len() as u8, si, lit.map(|(l, c, _)| 1 + (c == Ctx::OnGraph) as u8 + 2 * (l.keys.len() + l.vals.iter().flatten().count()) as u8).unwrap_or(0)];
        for o in hist {
            o.order_bytes(&mut order);
        }
        if let Some((l, c, _)) = lit {
            order.push((c == Ctx::OnGraph) as u8);
            order.push(l.keys.len() as u8);
            order.push(l.vals.iter().flatten().count() as u8);
            for a in l.keys.iter().chain(l.vals.iter().flatten()) {
                a.order_bytes(&mut order);
            }
        }
        let hs: Vec<String> = hist.iter().map(Op::show).collect();
        let hshow = match self.tx_from {
            Some(n) if n <= hs.len() => format!("{}{}in ONE action: {}", hs[..n].join(" ; "), if n > 0 { " ; then " } else { "" }, hs[n..].join(" ; ")),
            _ => hs.join(" ; "),
        };
        let label = match lit {
            Some((l, c, _)) => format!("history {hshow} ; literal {} ; {}", l.show(s), c.name()),
            None => format!("history {hshow}"),
        };
        let replay = json!({
            "schema": s.name,
            "tx_from": self.tx_from,
            "history": hist.iter().map(op_json).collect::<Vec<_>>(),
            "literal": lit.map(|(l, c, kind)| json!({"shape": [l.shape.bound_keys, l.shape.val_mask], "keys": l.keys.iter().map(atom_json).collect::<Vec<_>>(), "vals": l.vals.iter().map(|v| v.as_ref().map(atom_json)).collect::<Vec<_>>(), "context": c.name(), "kind": kind})),
        });
        self.bad.offer(&group, &order, || format!("schema {} ; {label}", s.name), || format!("fact {}[{}]=>{{{}}}: {label}: {detail}", s.name, s.keys.iter().map(|(n, t)| format!("{n} {}", t.policy())).collect::<Vec<_>>().join(", "), s.vals.iter().map(|(n, t)| format!("{n} {}", t.policy())).collect::<Vec<_>>().join(", ")), || replay);
    }

    /// Applies one fact-changing command to the real graph and the model; checks the Done effect
    /// and the raw listing. Returns false if the history must not be extended.
    fn step(&mut self, si: usize, s: &Schema, g: &mut Graph, m: &mut Model, hist: &[Op], op: &Op) -> bool {
        self.tag += 1;
        let (name, code, mut args) = op.call(s, m);
        args.insert(0, Value::Int(self.tag));
        self.rep.count("transitions", 1);
        self.rep.count(&format!("op {}", op.kind()), 1);
        match self.sys.action(g, &name, args) {
            Err(e) => {
                self.rep.outcome("op rejected", 1);
                self.fail(s, format!("{}: command with valid preconditions is rejected", op.kind()), hist, None, format!("store before: {}; error: {e}", m.show()));
                return false;
            }
            Ok(eff) => {
                let ok = eff.len() == 1 && eff[0].name.as_str() == "Done" && field(&eff[0], "op").ok() == Some(&Value::Int(code)) && field(&eff[0], "tag").ok() == Some(&Value::Int(self.tag));
                if !ok {
                    self.fail(s, format!("{}: unexpected effects", op.kind()), hist, None, format!("{eff:?}"));
                    return false;
                }
            }
        }
        op.apply(m);
        self.states.insert((si, m.clone()));
        // the raw listing is a second observation; a mismatch is reported but the history goes on,
        // so that the policy-level observations are still made
        self.check_listing(s, g, m, hist, op.kind());
        true
    }

    fn check_listing(&mut self, s: &Schema, g: &Graph, m: &Model, hist: &[Op], after: &str) -> bool {
        self.rep.count("listings_compared", 1);
        match self.sys.listing(g, s) {
            Err(e) => {
                self.fail(s, "stored facts cannot be listed".to_string(), hist, None, format!("after {after}: {e}"));
                false
            }
            Ok(l) => {
                let want = m.list();
                if l == want {
                    return true;
                }
                let mut sorted = l.clone();
                sorted.sort();
                let class = if sorted == want { "stored facts are listed out of key order" } else { "stored facts differ from the model" };
                self.fail(s, class.to_string(), hist, None, format!("after {after}: storage lists {:?}, model {}", l.iter().map(|(k, v)| show_fact(k, v)).collect::<Vec<_>>(), m.show()));
                false
            }
        }
    }

    /// One literal: all query kinds in one command (+ the same in its action), and `map`.
    fn observe(&mut self, s: &Schema, g: &mut Graph, m: &Model, hist: &[Op], l: &Lit, ctx: Ctx) {
        let lf = s.lower();
        let want = m.matches(l);
        let n = want.len() as i64;
        let pre = if ctx == Ctx::Ephemeral { "q" } else { "p" };
        self.tag += 1;
        let tag = self.tag;
        // ---- query kinds
        self.rep.count("query_runs", 1);
        if l.keys.iter().any(|a| matches!(a, Atom::Int(i) if *i < 0)) || m.facts.keys().any(|k| k.iter().any(|a| matches!(a, Atom::Int(i) if *i < 0))) {
            self.rep.count("runs_with_negative_int_keys", 1);
        }
        if !l.keys.is_empty() && l.keys.len() < s.keys.len() {
            self.rep.count("prefix_queries_some_keys_bound", 1);
        }
        if l.vals.iter().any(Option::is_some) {
            self.rep.count("queries_with_bound_values", 1);
        }
        let name = format!("{pre}_{lf}_{}", l.shape.suffix());
        let res = if ctx == Ctx::Ephemeral { self.sys.ephemeral(g, &name, l.args(tag)) } else { self.sys.action(g, &name, l.args(tag)) };
        match res {
            Err(e) => self.fail(s, "query command fails".to_string(), hist, Some((l, ctx, "query")), e),
            Ok(eff) => {
                if eff.len() != 1 || eff[0].name.as_str() != format!("Obs{}", s.name) || field(&eff[0], "tag").ok() != Some(&Value::Int(tag)) {
                    self.fail(s, "query command emits unexpected effects".to_string(), hist, Some((l, ctx, "query")), format!("{eff:?}"));
                } else {
                    self.compare_obs(s, &eff[0], &want, n, hist, l, ctx);
                }
            }
        }
        // ---- map
        self.tag += 1;
        let tag = self.tag;
        self.rep.count("map_runs", 1);
        if want.len() >= 2 {
            self.rep.count("map_visiting_2_or_more", 1);
        }
        let name = format!("{pre}m_{lf}_{}", l.shape.suffix());
        let res = if ctx == Ctx::Ephemeral { self.sys.ephemeral(g, &name, l.args(tag)) } else { self.sys.action(g, &name, l.args(tag)) };
        match res {
            Err(e) if ctx == Ctx::OnGraph && want.is_empty() && e.contains("empty perspective") => {
                // an on-graph action that publishes nothing cannot be committed: that *is* "visited nothing"
                self.rep.outcome("on-graph map visited nothing (nothing to commit)", 1);
            }
            Err(e) => self.fail(s, "map action fails".to_string(), hist, Some((l, ctx, "map")), e),
            Ok(eff) => {
                let mut got: Vec<Fact> = Vec::new();
                let mut err = None;
                for e in &eff {
                    if e.name.as_str() != format!("Visit{}", s.name) || field(e, "tag").ok() != Some(&Value::Int(tag)) {
                        err = Some(format!("unexpected effect {e:?}"));
                        break;
                    }
                    match field(e, "f").and_then(|v| decode_fact_struct(s, v)) {
                        Ok(f) => got.push(f),
                        Err(x) => {
                            err = Some(x);
                            break;
                        }
                    }
                }
                if let Some(x) = err {
                    self.fail(s, "map emits unexpected effects".to_string(), hist, Some((l, ctx, "map")), x);
                } else {
                    self.compare_map(s, &got, &want, m, hist, l, ctx);
                }
            }
        }
    }

    #[allow(clippy::too_many_arguments)]
    fn compare_map(&mut self, s: &Schema, got: &[Fact], want: &[Fact], m: &Model, hist: &[Op], l: &Lit, ctx: Ctx) {
        if got != want {
            let show = |v: &[Fact]| v.iter().map(|(k, v)| show_fact(k, v)).collect::<Vec<_>>().join(" ");
            let mut a = got.to_vec();
            a.sort();
            let class = if a == want {
                "map visits the matching facts out of key order"
            } else if got.iter().any(|f| !want.contains(f)) && l.vals.iter().any(Option::is_some) && got.iter().all(|(k, _)| k[..l.keys.len()] == l.keys[..]) {
                "map visits facts that do not match the bound value fields"
            } else {
                "map visits the wrong facts"
            };
            self.fail(s, class.to_string(), hist, Some((l, ctx, "map")), format!("store {}; visited [{}], model [{}]", m.show(), show(got), show(want)));
        } else {
            self.rep.outcome(&format!("map visited {}", want.len().min(3)), 1);
        }
    }

    #[allow(clippy::too_many_arguments)]
    fn compare_obs(&mut self, s: &Schema, e: &VmEffect, want: &[Fact], n: i64, hist: &[Op], l: &Lit, ctx: Ctx) {
        let first = want.first().cloned();
        let opt = |f: &str| -> Result<Option<Fact>, String> {
            match field(e, f)? {
                Value::Option(None) => Ok(None),
                Value::Option(Some(b)) => decode_fact_struct(s, b).map(Some),
                v => Err(format!("field {f} is not an optional: {v:?}")),
            }
        };
        let b = |f: &str| -> Result<bool, String> {
            match field(e, f)? {
                Value::Bool(b) => Ok(*b),
                v => Err(format!("field {f} is not a bool: {v:?}")),
            }
        };
        let i = |f: &str| -> Result<i64, String> {
            match field(e, f)? {
                Value::Int(i) => Ok(*i),
                v => Err(format!("field {f} is not an int: {v:?}")),
            }
        };
        let showf = |f: &Option<Fact>| f.as_ref().map(|(k, v)| show_fact(k, v)).unwrap_or("None".into());
        let mut checks: Vec<(String, Result<bool, String>, String)> = Vec::new();
        for (fname, place) in [("r", "command"), ("ar", "action")] {
            let got = opt(fname);
            let detail = format!("got {}, model {}", got.as_ref().map(showf).unwrap_or_else(|e| e.clone()), showf(&first));
            let class = match &got {
                Ok(Some(f)) if Some(f) != first.as_ref() && want.contains(f) => "query returns a match that is not the first in key order",
                _ => "query result differs from the model",
            };
            checks.push((format!("{class} [{place}]"), got.map(|g| g == first), detail));
        }
        for (fname, place) in [("e", "command"), ("ae", "action")] {
            let got = b(fname);
            checks.push((format!("exists differs from the model [{place}]"), got.clone().map(|g| g == (n > 0)), format!("got {got:?}, model {}", n > 0)));
        }
        {
            let got = i("ac");
            checks.push(("count_up_to differs from the model [action]".to_string(), got.clone().map(|g| g == n.min(3)), format!("count_up_to 3: got {got:?}, model {}", n.min(3))));
        }
        for lim in LIMITS {
            let got = i(&format!("c{lim}"));
            checks.push(("count_up_to differs from the model [command]".to_string(), got.clone().map(|g| g == n.min(lim)), format!("count_up_to {lim}: got {got:?}, model {} ({n} matches)", n.min(lim))));
            let got = b(&format!("al{lim}"));
            checks.push(("at_least differs from the model [command]".to_string(), got.clone().map(|g| g == (n >= lim)), format!("at_least {lim}: got {got:?}, model has {n} matches")));
            let got = b(&format!("am{lim}"));
            checks.push(("at_most differs from the model [command]".to_string(), got.clone().map(|g| g == (n <= lim)), format!("at_most {lim}: got {got:?}, model has {n} matches")));
            let got = b(&format!("ex{lim}"));
            checks.push(("exactly differs from the model [command]".to_string(), got.clone().map(|g| g == (n == lim)), format!("exactly {lim}: got {got:?}, model has {n} matches")));
        }
        self.rep.count("query_kind_results_compared", checks.len() as u64);
        self.rep.outcome(&format!("query matched {} facts", n.min(4)), 1);
        if n > 3 {
            self.rep.count("counts_capped_at_limit", 1);
        }
        for (group, ok, detail) in checks {
            match ok {
                Ok(true) => {}
                Ok(false) => self.fail(s, group, hist, Some((l, ctx, "query")), detail),
                Err(x) => self.fail(s, "query observation cannot be read".to_string(), hist, Some((l, ctx, "query")), x),
            }
        }
    }
}

fn atom_json(a: &Atom) -> J {
    match a {
        Atom::Int(i) => json!({"int": i.to_string()}),
        Atom::Str(s) => json!({"str": s}),
        Atom::Color(v, _) => json!({"color": v}),
        Atom::Id(b) => json!({"id": [b[0], b[31]]}),
        Atom::Bool(b) => json!({"bool": b}),
    }
}
fn atom_from(j: &J) -> Atom {
    let bad = || -> ! { mcx::machinery_error("C29 replay: bad atom") };
    if let Some(i) = j.get("int") {
        Atom::Int(i.as_str().and_then(|s| s.parse().ok()).unwrap_or_else(|| bad()))
    } else if let Some(s) = j.get("str") {
        Atom::Str(s.as_str().unwrap_or_else(|| bad()).to_string())
    } else if let Some(c) = j.get("color") {
        Atom::color(c.as_u64().unwrap_or_else(|| bad()) as usize)
    } else if let Some(b) = j.get("id") {
        Atom::id(b[0].as_u64().unwrap_or_else(|| bad()) as u8, b[1].as_u64().unwrap_or_else(|| bad()) as u8)
    } else if let Some(b) = j.get("bool") {
        Atom::Bool(b.as_bool().unwrap_or_else(|| bad()))
    } else {
        bad()
    }
}
fn atoms_json(a: &[Atom]) -> J {
    J::Array(a.iter().map(atom_json).collect())
}
fn atoms_from(j: &J) -> Vec<Atom> {
    j.as_array().map(|a| a.iter().map(atom_from).collect()).unwrap_or_default()
}
fn op_json(o: &Op) -> J {
    match o {
        Op::Mk(k, v) => json!({"op": "mk", "k": atoms_json(k), "v": atoms_json(v)}),
        Op::Del(k) => json!({"op": "del", "k": atoms_json(k)}),
        Op::Upd(kind, k, w) => json!({"op": "upd", "kind": kind, "k": atoms_json(k), "w": atoms_json(w)}),
        Op::CrUp(k, v, w) => json!({"op": "crup", "k": atoms_json(k), "v": atoms_json(v), "w": atoms_json(w)}),
        Op::CrDel(k, v) => json!({"op": "crdel", "k": atoms_json(k), "v": atoms_json(v)}),
        Op::DelCr(k, w) => json!({"op": "delcr", "k": atoms_json(k), "w": atoms_json(w)}),
        Op::UpDel(k, w) => json!({"op": "updel", "k": atoms_json(k), "w": atoms_json(w)}),
        Op::Cr2(k, v, l, w) => json!({"op": "cr2", "k": atoms_json(k), "v": atoms_json(v), "l": atoms_json(l), "w": atoms_json(w)}),
    }
}
fn op_from(j: &J) -> Op {
    let a = |n: &str| atoms_from(&j[n]);
    match j["op"].as_str().unwrap_or("") {
        "mk" => Op::Mk(a("k"), a("v")),
        "del" => Op::Del(a("k")),
        "upd" => Op::Upd(j["kind"].as_u64().unwrap_or(0) as u8, a("k"), a("w")),
        "crup" => Op::CrUp(a("k"), a("v"), a("w")),
        "crdel" => Op::CrDel(a("k"), a("v")),
        "delcr" => Op::DelCr(a("k"), a("w")),
        "updel" => Op::UpDel(a("k"), a("w")),
        "cr2" => Op::Cr2(a("k"), a("v"), a("l"), a("w")),
        _ => mcx::machinery_error("C29 replay: unknown op"),
    }
}

// ---------------------------------------------------------------------------------------------
// the two history families

/// Replays `hist` on a fresh graph; `None` if a step failed (already reported).
fn build(w: &mut Worker, si: usize, s: &Schema, hist: &[Op]) -> Option<(Graph, Model)> {
    w.recycle();
    w.rep.count("histories", 1);
    let mut g = w.sys.new_graph();
    let mut m = Model::default();
    w.states.insert((si, m.clone()));
    for (n, op) in hist.iter().enumerate() {
        if !op.valid(&m) {
            mcx::machinery_error("C29: history with an invalid precondition was generated");
        }
        if !w.step(si, s, &mut g, &mut m, &hist[..=n], op) {
            w.sys.drop_graph(g);
            return None;
        }
    }
    Some((g, m))
}

/// A stored fact set: facts created one per command, in descending key order (or a given order).
fn fact_set_case(w: &mut Worker, si: usize, s: &Schema, facts: &[Fact], lits: &[Lit], on_graph_too: bool) {
    let hist: Vec<Op> = facts.iter().map(|(k, v)| Op::Mk(k.clone(), v.clone())).collect();
    let Some((mut g, m)) = build(w, si, s, &hist) else { return };
    w.rep.count("fact_sets", 1);
    let selected: Vec<Lit>;
    let lits: &[Lit] = if w.all_literals {
        lits
    } else {
        // quick tier: every shape and every value binding, but bound key prefixes only from the
        // prefixes of the stored facts plus the first two absent prefixes of each length
        let mut absent_seen: BTreeMap<usize, BTreeSet<&Vec<Atom>>> = BTreeMap::new();
        let mut keep: BTreeSet<&Vec<Atom>> = BTreeSet::new();
        for l in lits {
            if l.keys.is_empty() || facts.iter().any(|(k, _)| k[..l.keys.len()] == l.keys[..]) {
                keep.insert(&l.keys);
            } else {
                let e = absent_seen.entry(l.keys.len()).or_default();
                if e.len() < 2 || e.contains(&l.keys) {
                    e.insert(&l.keys);
                    keep.insert(&l.keys);
                }
            }
        }
        selected = lits.iter().filter(|l| keep.contains(&l.keys)).cloned().collect();
        &selected
    };
    w.rep.count("literals_evaluated", lits.len() as u64);
    for l in lits {
        w.observe(s, &mut g, &m, &hist, l, Ctx::Ephemeral);
    }
    if on_graph_too {
        for l in lits {
            w.observe(s, &mut g, &m, &hist, l, Ctx::OnGraph);
        }
        // the on-graph query commands must not have changed anything
        w.check_listing(s, &g, &m, &hist, "on-graph queries");
    }
    w.sys.drop_graph(g);
}

fn cud_ops(s: &Schema, a: &Alphabet, nkeys: usize) -> Vec<Op> {
    // keys: the first `nkeys` of a spread over the alphabet (first, last, middle)
    let ks = all_keys(a);
    let mut pick = vec![ks[0].clone(), ks[ks.len() - 1].clone(), ks[ks.len() / 2].clone()];
    pick.truncate(nkeys);
    let (v, w2) = (a.vals[0].clone(), a.vals[1].clone());
    let mut ops = Vec::new();
    for k in &pick {
        for val in [&v, &w2] {
            ops.push(Op::Mk(k.clone(), val.clone()));
            for kind in 0..if s.vals.len() > 1 { 4 } else { 3 } {
                ops.push(Op::Upd(kind, k.clone(), val.clone()));
            }
        }
        ops.push(Op::Del(k.clone()));
        ops.push(Op::CrUp(k.clone(), v.clone(), w2.clone()));
        ops.push(Op::CrDel(k.clone(), v.clone()));
        ops.push(Op::DelCr(k.clone(), w2.clone()));
        ops.push(Op::UpDel(k.clone(), w2.clone()));
        for l in &pick {
            if l != k {
                ops.push(Op::Cr2(k.clone(), v.clone(), l.clone(), w2.clone()));
            }
        }
    }
    ops
}

fn op_keys(o: &Op) -> Vec<&Vec<Atom>> {
    match o {
        Op::Mk(k, _) | Op::Del(k) | Op::Upd(_, k, _) | Op::CrUp(k, ..) | Op::CrDel(k, _) | Op::DelCr(k, _) | Op::UpDel(k, _) => vec![k],
        Op::Cr2(k, _, l, _) => vec![k, l],
    }
}

/// All valid op sequences of length 1..=depth (as index vectors), by simulation on the model only.
fn cud_histories(ops: &[Op], depth: usize) -> Vec<Vec<Op>> {
    let mut out = Vec::new();
    let mut frontier: Vec<(Vec<Op>, Model)> = vec![(vec![], Model::default())];
    for _ in 0..depth {
        let mut next = Vec::new();
        for (h, m) in &frontier {
            for op in ops {
                if op.valid(m) {
                    let mut m2 = m.clone();
                    op.apply(&mut m2);
                    let mut h2 = h.clone();
                    h2.push(op.clone());
                    out.push(h2.clone());
                    next.push((h2, m2));
                }
            }
        }
        frontier = next;
    }
    out
}

fn cud_case(w: &mut Worker, si: usize, s: &Schema, hist: &[Op], end_lits: &[Lit]) {
    let Some((mut g, m)) = build(w, si, s, hist) else { return };
    w.rep.count("cud_histories", 1);
    if hist.iter().any(|o| matches!(o, Op::Upd(..) | Op::CrUp(..) | Op::UpDel(..))) {
        w.rep.count("histories_with_update", 1);
    }
    if hist.iter().any(|o| matches!(o, Op::Del(..) | Op::CrDel(..) | Op::DelCr(..) | Op::UpDel(..))) {
        w.rep.count("histories_with_delete", 1);
    }
    for l in end_lits {
        w.observe(s, &mut g, &m, hist, l, Ctx::Ephemeral);
    }
    w.sys.drop_graph(g);
}

// ---------------------------------------------------------------------------------------------
// multi-command actions (several fact changes and observations in one uncommitted perspective)

/// What the in-action observation binds: full keys, proper prefixes per length, two value tuples.
#[derive(Clone, Debug)]
struct TxQuery {
    /// the keys the steps work on, in model key order
    picks: Vec<Vec<Atom>>,
    qkeys: Vec<Vec<Atom>>,
    /// `qprefixes[b-1]` = the prefixes of length b
    qprefixes: Vec<Vec<Vec<Atom>>>,
    x: Vec<Atom>,
    y: Vec<Atom>,
}

fn tx_query(s: &Schema, a: &Alphabet, npicks: usize) -> TxQuery {
    let (mut picks, spare): (Vec<Vec<Atom>>, Vec<Atom>);
    let mut qprefixes: Vec<Vec<Vec<Atom>>> = Vec::new();
    if s.keys.len() == 1 {
        let f = &a.keys[0];
        picks = vec![vec![f[0].clone()], vec![f[1].clone()], vec![f[3].clone()], vec![f[4].clone()]];
        spare = vec![f[2].clone()];
    } else {
        // two first components, three second components: the picks share key prefixes
        let (f, g) = (&a.keys[0], &a.keys[1]);
        let k = |i: usize, j: usize| vec![f[i].clone(), g[j].clone()];
        picks = vec![k(1, 1), k(1, 3), k(2, 1), k(2, 3)];
        spare = k(1, 2);
        qprefixes.push(vec![vec![f[1].clone()], vec![f[2].clone()]]);
        if s.keys.len() != 2 || TX_QPREFIXES != 2 {
            mcx::machinery_error("C29: tx_query handles schemas with one or two key fields");
        }
    }
    picks.truncate(npicks);
    let mut sorted = picks.clone();
    sorted.sort();
    if sorted != picks {
        mcx::machinery_error("C29: tx picks are not in model key order");
    }
    let mut qkeys = picks.clone();
    if qkeys.len() < TX_QKEYS {
        qkeys.push(spare);
    }
    while qkeys.len() < TX_QKEYS {
        qkeys.push(qkeys[0].clone());
    }
    TxQuery { picks, qkeys, qprefixes, x: a.vals[0].clone(), y: a.vals[1].clone() }
}

impl TxQuery {
    fn lit(&self, s: &Schema, l: &TxLit) -> Lit {
        let b = l.shape.bound_keys;
        let keys = if b == 0 {
            vec![]
        } else if b == s.keys.len() {
            self.qkeys[l.key_slot].clone()
        } else {
            self.qprefixes[b - 1][l.key_slot].clone()
        };
        let t = if l.variant == 0 { &self.x } else { &self.y };
        let vals = (0..s.vals.len()).map(|j| if l.shape.val_bound(j) { Some(t[j].clone()) } else { None }).collect();
        Lit { shape: l.shape, keys, vals }
    }
}

/// (op code, key, old/created values, new values) of a step, as `txstep_<schema>` takes them.
fn tx_slot(op: &Op, m: &Model, dflt: &[Atom]) -> (i64, Vec<Atom>, Vec<Atom>, Vec<Atom>) {
    let d = || dflt.to_vec();
    match op {
        Op::Mk(k, v) => (1, k.clone(), v.clone(), d()),
        Op::Del(k) => (2, k.clone(), d(), d()),
        Op::Upd(0, k, w) => (3, k.clone(), m.facts[k].clone(), w.clone()),
        Op::Upd(1, k, w) => (4, k.clone(), d(), w.clone()),
        Op::Upd(2, k, w) => (5, k.clone(), d(), w.clone()),
        Op::Upd(_, k, w) => (6, k.clone(), m.facts[k].clone(), w.clone()),
        Op::CrUp(k, v, w) => (7, k.clone(), v.clone(), w.clone()),
        Op::CrDel(k, v) => (8, k.clone(), v.clone(), d()),
        Op::DelCr(k, w) => (9, k.clone(), d(), w.clone()),
        Op::UpDel(k, w) => (10, k.clone(), d(), w.clone()),
        Op::Cr2(..) => mcx::machinery_error("C29: create;create is not a step of a multi-command action"),
    }
}

/// The steps one action may publish in store `m`: create an absent pick (second value tuple, so
/// that a re-created fact differs from the committed one), delete a present one, update it to the
/// next value tuple; `full` adds the other update forms and the two-statement finish blocks.
fn tx_ops(s: &Schema, a: &Alphabet, picks: &[Vec<Atom>], m: &Model, full: bool) -> Vec<Op> {
    let mut ops = Vec::new();
    for k in picks {
        match m.facts.get(k) {
            None => {
                ops.push(Op::Mk(k.clone(), a.vals[1].clone()));
                if full {
                    ops.push(Op::CrUp(k.clone(), a.vals[1].clone(), a.vals[0].clone()));
                    ops.push(Op::CrDel(k.clone(), a.vals[1].clone()));
                }
            }
            Some(cur) => {
                let at = a.vals.iter().position(|t| t == cur).unwrap_or(0);
                let next = a.vals[(at + 1) % a.vals.len()].clone();
                ops.push(Op::Del(k.clone()));
                ops.push(Op::Upd(0, k.clone(), next.clone()));
                if full {
                    for kind in 1..if s.vals.len() > 1 { 4 } else { 3 } {
                        ops.push(Op::Upd(kind, k.clone(), next.clone()));
                    }
                    ops.push(Op::DelCr(k.clone(), next.clone()));
                    ops.push(Op::UpDel(k.clone(), next.clone()));
                }
            }
        }
    }
    ops
}

/// Every valid step sequence of length min_len..=depth from store `m0`.
fn tx_sequences(s: &Schema, a: &Alphabet, picks: &[Vec<Atom>], m0: &Model, min_len: usize, depth: usize, full: bool) -> Vec<Vec<Op>> {
    let mut out = Vec::new();
    let mut frontier: Vec<(Vec<Op>, Model)> = vec![(vec![], m0.clone())];
    for len in 1..=depth {
        let mut next = Vec::new();
        for (h, m) in &frontier {
            for op in tx_ops(s, a, picks, m, full) {
                let mut m2 = m.clone();
                op.apply(&mut m2);
                let mut h2 = h.clone();
                h2.push(op);
                if len >= min_len {
                    out.push(h2.clone());
                }
                next.push((h2, m2));
            }
        }
        frontier = next;
    }
    out
}

/// Committed priors: every pick never created (0), committed (1), or — with `states` = 3 — created
/// and deleted again (2); one command per action, creations in descending key order, then the
/// deletions.
fn tx_priors(a: &Alphabet, picks: &[Vec<Atom>], states: usize) -> Vec<Vec<Op>> {
    let mut out = Vec::new();
    let n = picks.len();
    for code in 0..states.pow(n as u32) {
        let st: Vec<usize> = (0..n).map(|i| code / states.pow(i as u32) % states).collect();
        let mut h = Vec::new();
        for i in (0..n).rev() {
            if st[i] != 0 {
                h.push(Op::Mk(picks[i].clone(), a.vals[0].clone()));
            }
        }
        for i in 0..n {
            if st[i] == 2 {
                h.push(Op::Del(picks[i].clone()));
            }
        }
        out.push(h);
    }
    out
}

#[derive(Clone, Copy, PartialEq, Eq)]
enum KeyLife {
    /// as the committed prior left it
    Prior,
    /// created by an earlier step of this action
    Own,
    /// deleted by an earlier step of this action
    Deleted,
}

impl<'a> Worker<'a> {
    /// Coverage triggers of one step sequence (measured on the model, before anything runs).
    fn tx_coverage(&mut self, m0: &Model, steps: &[Op]) {
        let mut life: BTreeMap<Vec<Atom>, KeyLife> = BTreeMap::new();
        let mut recreated: BTreeSet<Vec<Atom>> = BTreeSet::new();
        let mut m = m0.clone();
        for op in steps {
            let k = op_keys(op)[0].clone();
            let before = life.get(&k).copied().unwrap_or(KeyLife::Prior);
            let (creates, updates, deletes, creates_after) = match op {
                Op::Mk(..) => (true, false, false, false),
                Op::Upd(..) => (false, true, false, false),
                Op::Del(..) => (false, false, true, false),
                Op::CrUp(..) => (true, true, false, false),
                Op::CrDel(..) => (true, false, true, false),
                Op::DelCr(..) => (false, false, true, true),
                Op::UpDel(..) => (false, true, true, false),
                Op::Cr2(..) => (true, false, false, false),
            };
            let mut cur = before;
            if creates {
                if cur == KeyLife::Deleted {
                    self.rep.count("tx_recreate_after_delete_in_same_action", 1);
                    recreated.insert(k.clone());
                }
                cur = KeyLife::Own;
            }
            if updates {
                if cur == KeyLife::Prior {
                    self.rep.count("tx_update_of_committed_fact", 1);
                } else {
                    self.rep.count("tx_update_of_own_created_fact", 1);
                    if recreated.contains(&k) {
                        self.rep.count("tx_update_after_delete_and_recreate_in_same_action", 1);
                    }
                }
            }
            if deletes {
                if cur == KeyLife::Prior {
                    self.rep.count("tx_delete_of_committed_fact", 1);
                } else {
                    self.rep.count("tx_delete_of_own_created_fact", 1);
                }
                cur = KeyLife::Deleted;
            }
            if creates_after {
                self.rep.count("tx_recreate_after_delete_in_same_action", 1);
                recreated.insert(k.clone());
                cur = KeyLife::Own;
            }
            life.insert(k.clone(), cur);
            op.apply(&mut m);
            if cur == KeyLife::Deleted && !m.facts.is_empty() {
                let below = m.facts.keys().filter(|x| **x < k).count();
                let place = if below == 0 {
                    "before"
                } else if below == m.facts.len() {
                    "after"
                } else {
                    "between"
                };
                self.rep.count(&format!("tx_deleted_key_sorts_{place}_remaining_facts"), 1);
            }
        }
    }

    /// One multi-command action on top of the committed history `prior`.
    fn tx_case(&mut self, si: usize, s: &Schema, prior: &[Op], steps: &[Op], q: &TxQuery, lits: &[TxLit]) {
        if steps.is_empty() || steps.len() > TX_STEPS {
            mcx::machinery_error("C29: a multi-command action has 1..=TX_STEPS steps");
        }
        self.tx_from = None;
        let Some((mut g, m0)) = build(self, si, s, prior) else { return };
        self.rep.count("tx_actions", 1);
        if !m0.facts.is_empty() {
            self.rep.count("tx_actions_on_nonempty_committed_store", 1);
        }
        if steps.len() >= 2 {
            self.rep.count("tx_actions_with_2_or_more_fact_changing_commands", 1);
        }
        self.tx_coverage(&m0, steps);
        self.tx_from = Some(prior.len());
        let mut hist: Vec<Op> = prior.to_vec();
        hist.extend(steps.iter().cloned());
        let np = prior.len();

        // ---- arguments, and the model after every step
        let mut named: BTreeMap<String, Value> = BTreeMap::new();
        let mut models: Vec<Model> = Vec::new();
        let mut codes: Vec<(i64, i64)> = Vec::new();
        let mut m = m0.clone();
        for (i, op) in steps.iter().enumerate() {
            if !op.valid(&m) {
                mcx::machinery_error("C29: multi-command action with an invalid precondition was generated");
            }
            self.tag += 1;
            let (code, k, v, w) = tx_slot(op, &m, &q.x);
            named.insert(format!("t{i}"), Value::Int(self.tag));
            named.insert(format!("o{i}"), Value::Int(code));
            named.insert(format!("b{i}"), Value::Int(if i + 1 == steps.len() { 2 } else { 1 }));
            for (pre, atoms, fields) in [("k", &k, &s.keys), ("v", &v, &s.vals), ("w", &w, &s.vals)] {
                for (a, (n, _)) in atoms.iter().zip(fields.iter()) {
                    named.insert(format!("{pre}{i}_{n}"), a.to_value());
                }
            }
            codes.push((code, self.tag));
            op.apply(&mut m);
            models.push(m.clone());
            self.rep.count("transitions", 1);
            self.rep.count(&format!("op {}", op.kind()), 1);
        }
        for (slot, k) in q.qkeys.iter().enumerate() {
            for (a, (n, _)) in k.iter().zip(s.keys.iter()) {
                named.insert(format!("qk{slot}_{n}"), a.to_value());
            }
        }
        for (b1, ps) in q.qprefixes.iter().enumerate() {
            for (slot, pfx) in ps.iter().enumerate() {
                for (a, (n, _)) in pfx.iter().zip(s.keys.iter()) {
                    named.insert(format!("qp{}x{slot}_{n}", b1 + 1), a.to_value());
                }
            }
        }
        for (var, t) in [("x", &q.x), ("y", &q.y)] {
            for (a, (n, _)) in t.iter().zip(s.vals.iter()) {
                named.insert(format!("{var}_{n}"), a.to_value());
            }
        }
        let args: Vec<Value> = tx_params(s)
            .iter()
            .map(|(n, t)| {
                named.get(n).cloned().unwrap_or_else(|| match t {
                    // an unused step
                    Ty::Int => Value::Int(0),
                    Ty::Bool => Value::Bool(false),
                    Ty::Str => Atom::Str(String::new()).to_value(),
                    Ty::Color => Atom::color(0).to_value(),
                    Ty::Id => Atom::id(0, 0).to_value(),
                })
            })
            .collect();

        // ---- run the action: everything below was produced inside one uncommitted perspective
        let eff = match self.sys.action(&mut g, &format!("tx_{}", s.lower()), args) {
            Err(e) => {
                self.rep.outcome("multi-command action rejected", 1);
                self.fail(s, "multi-command action with valid preconditions is rejected".to_string(), &hist, None, format!("committed store: {}; error: {e}", m0.show()));
                self.tx_from = None;
                self.sys.drop_graph(g);
                return;
            }
            Ok(eff) => eff,
        };
        let tagpt = |e: &VmEffect| -> Option<(i64, i64)> {
            match (field(e, "tag").ok()?, field(e, "pt").ok()?) {
                (Value::Int(t), Value::Int(p)) => Some((*t, *p)),
                _ => None,
            }
        };
        let mut cur = 0usize;
        let mut broken: Option<(usize, String)> = None;
        'steps: for (i, op) in steps.iter().enumerate() {
            let h = &hist[..np + i + 1];
            let (code, tag) = codes[i];
            let done = eff.get(cur).is_some_and(|e| e.name.as_str() == "Done" && field(e, "op").ok() == Some(&Value::Int(code)) && field(e, "tag").ok() == Some(&Value::Int(tag)));
            if !done {
                broken = Some((i, format!("{}: unexpected effects", op.kind())));
                break 'steps;
            }
            cur += 1;
            let m = &models[i];
            self.states.insert((si, m.clone()));
            let full = i + 1 == steps.len();
            for (li, tl) in lits.iter().enumerate() {
                if !full && !tl.light {
                    continue;
                }
                let l = q.lit(s, tl);
                let want = m.matches(&l);
                let n = want.len() as i64;
                self.rep.count("tx_literals_evaluated", 1);
                self.rep.count("query_runs", 1);
                self.rep.count("map_runs", 1);
                if !l.keys.is_empty() && l.keys.len() < s.keys.len() {
                    self.rep.count("prefix_queries_some_keys_bound", 1);
                    if want.len() >= 2 {
                        self.rep.count("tx_prefix_queries_matching_2_or_more", 1);
                    }
                }
                if l.vals.iter().any(Option::is_some) {
                    self.rep.count("queries_with_bound_values", 1);
                }
                if want.len() >= 2 {
                    self.rep.count("map_visiting_2_or_more", 1);
                }
                // query kinds
                let ok = eff.get(cur).is_some_and(|e| e.name.as_str() == format!("Obs{}", s.name) && tagpt(e) == Some((tag, 2 * li as i64)));
                if !ok {
                    broken = Some((i, "query command emits unexpected effects".to_string()));
                    break 'steps;
                }
                self.compare_obs(s, &eff[cur], &want, n, h, &l, Ctx::InTx);
                cur += 1;
                // map
                let mut got: Vec<Fact> = Vec::new();
                while let Some(e) = eff.get(cur) {
                    if e.name.as_str() != format!("Visit{}", s.name) || tagpt(e) != Some((tag, 2 * li as i64 + 1)) {
                        break;
                    }
                    match field(e, "f").and_then(|v| decode_fact_struct(s, v)) {
                        Ok(f) => got.push(f),
                        Err(x) => {
                            self.fail(s, "map emits unexpected effects".to_string(), h, Some((&l, Ctx::InTx, "map")), x);
                            broken = Some((i, String::new()));
                            break 'steps;
                        }
                    }
                    cur += 1;
                }
                self.compare_map(s, &got, &want, m, h, &l, Ctx::InTx);
            }
        }
        match broken {
            Some((i, class)) if !class.is_empty() => {
                let names: Vec<String> = eff.iter().skip(cur.saturating_sub(1)).take(4).map(|e| format!("{e:?}")).collect();
                self.fail(s, class, &hist[..np + i + 1], None, format!("effect #{cur} of the action is not the expected one; effects from #{}: {}", cur.saturating_sub(1), names.join(" | ")));
            }
            Some(_) => {}
            None if cur != eff.len() => {
                self.fail(s, "multi-command action emits extra effects".to_string(), &hist, None, format!("{} effects expected, {} emitted; first extra: {:?}", cur, eff.len(), eff[cur]));
            }
            None => {
                // ---- committed: raw listing and a scan in a session
                self.rep.outcome(&format!("multi-command action of {} steps committed", steps.len()), 1);
                let m = models[steps.len() - 1].clone();
                self.check_listing(s, &g, &m, &hist, "the multi-command action");
                if let Some(tl) = lits.iter().find(|l| l.light) {
                    let l = q.lit(s, tl);
                    self.observe(s, &mut g, &m, &hist, &l, Ctx::Ephemeral);
                }
            }
        }
        self.tx_from = None;
        self.sys.drop_graph(g);
    }
}

// ---------------------------------------------------------------------------------------------

enum Case {
    Set { ui: usize, facts: Vec<Fact>, on_graph: bool },
    Cud { si: usize, hist: Vec<Op> },
    Tx { ci: usize, prior: Vec<Op>, steps: Vec<Op> },
}

/// One bound of the multi-command-action family.
struct TxCfg {
    si: usize,
    q: TxQuery,
    lits: Vec<TxLit>,
    /// steps per action: min_len..=depth
    min_len: usize,
    depth: usize,
    /// per key: 2 = never created / committed; 3 = also created and deleted again
    prior_states: usize,
    full_alphabet: bool,
}

fn subsets_up_to(n: usize, k: usize) -> Vec<Vec<usize>> {
    let mut out = vec![vec![]];
    let mut frontier: Vec<Vec<usize>> = vec![vec![]];
    for _ in 0..k {
        let mut next = Vec::new();
        for f in &frontier {
            let start = f.last().map(|&x| x + 1).unwrap_or(0);
            for i in start..n {
                let mut g = f.clone();
                g.push(i);
                next.push(g);
            }
        }
        out.extend(next.iter().cloned());
        frontier = next;
    }
    out
}

pub fn run(args: &Args) {
    let mut rep = Report::new(args, Level::ModelChecking);
    mcx::quiet_panics();
    rep.set_max_samples(10);
    let text = crate::schema::policy_text();
    if args.extra.contains_key("dump-policy") {
        println!("{text}");
    }
    let t0 = std::time::Instant::now();
    let machine = crate::sys::compile_policy(&text);
    rep.set("policy_bytes", text.len() as u64);
    rep.set("policy_compile_ms", t0.elapsed().as_millis() as u64);
    let thorough = args.tier == mcx::Tier::Thorough;
    let ss = schemas();
    // universes: (schema, alphabet, literals, max stored facts, all insertion orders?)
    struct Universe {
        si: usize,
        alpha: Alphabet,
        lits: Vec<Lit>,
        max_facts: usize,
        all_orders: bool,
        label: &'static str,
    }
    let mut unis: Vec<Universe> = Vec::new();
    for (si, s) in ss.iter().enumerate() {
        let alpha = alphabet(s, false);
        let lits = all_literals(s, &alpha);
        unis.push(Universe { si, alpha, lits, max_facts: 3, all_orders: thorough, label: "boundary" });
    }
    if thorough {
        for (si, s) in ss.iter().enumerate() {
            let alpha = alphabet(s, true);
            let lits = all_literals(s, &alpha);
            unis.push(Universe { si, alpha, lits, max_facts: 2, all_orders: true, label: "wide" });
        }
    }

    // multi-command actions: (picks, steps per action, full step alphabet?)
    let replaying = args.replay.is_some();
    // (keys, prior states per key, min steps, max steps, full step alphabet?); the bounds of one tier
    // never overlap (a sequence length is explored on the widest prior set that has it)
    let tx_bounds: Vec<(usize, usize, usize, usize, bool)> = if replaying {
        vec![(3, 3, 1, TX_STEPS, true), (4, 3, 1, TX_STEPS, true)]
    } else if thorough {
        vec![(3, 3, 1, 3, true), (4, 3, 1, 3, false), (3, 3, 4, 4, false)]
    } else {
        vec![(3, 3, 1, 2, false), (3, 2, 3, 3, false)]
    };
    let mut txcfgs: Vec<TxCfg> = Vec::new();
    for &(npicks, prior_states, min_len, depth, full_alphabet) in &tx_bounds {
        for (si, s) in ss.iter().enumerate() {
            txcfgs.push(TxCfg { si, q: tx_query(s, &unis[si].alpha, npicks), lits: tx_literals(s), min_len, depth, prior_states, full_alphabet });
        }
    }

    if let Some(r) = crate::util::load_replay(args) {
        let si = ss.iter().position(|s| Some(s.name) == r["schema"].as_str()).unwrap_or_else(|| mcx::machinery_error("C29 replay: unknown schema"));
        let hist: Vec<Op> = r["history"].as_array().map(|a| a.iter().map(op_from).collect()).unwrap_or_default();
        let mut w = Worker::new(&rep, &machine, args.seed);
        if let Some(n) = r["tx_from"].as_u64().map(|n| n as usize).filter(|n| *n < hist.len()) {
            // a multi-command action: the whole action with all its observations is re-run
            let c = txcfgs
                .iter()
                .find(|c| c.si == si && hist.iter().flat_map(op_keys).all(|k| c.q.picks.contains(k)))
                .unwrap_or_else(|| mcx::machinery_error("C29 replay: the keys of the history are not those of a multi-command bound"));
            w.tx_case(si, &ss[si], &hist[..n], &hist[n..], &c.q, &c.lits);
        } else if let Some((mut g, m)) = build(&mut w, si, &ss[si], &hist) {
            let l = &r["literal"];
            if !l.is_null() {
                let shape = Shape { bound_keys: l["shape"][0].as_u64().unwrap_or(0) as usize, val_mask: l["shape"][1].as_u64().map(|m| m as u32) };
                let lit = Lit { shape, keys: atoms_from(&l["keys"]), vals: l["vals"].as_array().map(|a| a.iter().map(|v| if v.is_null() { None } else { Some(atom_from(v)) }).collect()).unwrap_or_default() };
                let ctx = if l["context"].as_str() == Some("on-graph") { Ctx::OnGraph } else { Ctx::Ephemeral };
                w.observe(&ss[si], &mut g, &m, &hist, &lit, ctx);
            }
        }
        let Worker { rep: wr, bad, states, .. } = w;
        rep.absorb(wr);
        bad.flush(&mut rep);
        rep.set("states", states.len().max(1) as u64);
        rep.set("transitions", rep.counter("transitions").max(1));
        rep.set("traces_validated_against_impl", rep.counter("histories"));
        rep.set("exhaustive", false);
        rep.sample(r);
        rep.finish();
    }

    // ---- build the case list
    let mut cases: Vec<Case> = Vec::new();
    for (ui, u) in unis.iter().enumerate() {
        let a = &u.alpha;
        let keys = all_keys(a);
        for sub in subsets_up_to(keys.len(), u.max_facts) {
            // value variants: alternating tuples / all the same tuple
            let nvar = if sub.is_empty() || (!thorough && sub.len() > 2) { 1 } else { 2 };
            for var in 0..nvar {
                let mut facts: Vec<Fact> = sub.iter().enumerate().map(|(j, &ki)| (keys[ki].clone(), a.vals[if var == 0 { j % a.vals.len() } else { 1 }].clone())).collect();
                // insertion order: reversed (never the key order for ≥ 2 facts of the boundary alphabets)
                facts.reverse();
                if u.all_orders && facts.len() >= 2 && var == 0 {
                    let base = facts.clone();
                    mcx::enumerate::permutations(base.len(), |p| {
                        if p.iter().enumerate().any(|(i, &x)| i != x) {
                            cases.push(Case::Set { ui, facts: p.iter().map(|&i| base[i].clone()).collect(), on_graph: false });
                        }
                    });
                }
                let on_graph = var == 0 && (thorough || facts.len() <= 2);
                cases.push(Case::Set { ui, facts, on_graph });
            }
        }
    }
    let cud_depth = 3;
    let cud_keys = args.tier.pick(2, 3);
    let mut cud_alphabet_sizes = Vec::new();
    for u in unis.iter().filter(|u| u.label == "boundary") {
        let (si, s, a) = (u.si, &ss[u.si], &u.alpha);
        let ops = cud_ops(s, a, cud_keys);
        cud_alphabet_sizes.push(ops.len());
        for hist in cud_histories(&ops, cud_depth) {
            cases.push(Case::Cud { si, hist });
        }
    }
    let mut tx_case_counts = Vec::new();
    for (ci, c) in txcfgs.iter().enumerate() {
        let (s, a) = (&ss[c.si], &unis[c.si].alpha);
        let before = cases.len();
        for prior in tx_priors(a, &c.q.picks, c.prior_states) {
            let mut m0 = Model::default();
            for op in &prior {
                op.apply(&mut m0);
            }
            for steps in tx_sequences(s, a, &c.q.picks, &m0, c.min_len, c.depth, c.full_alphabet) {
                cases.push(Case::Tx { ci, prior: prior.clone(), steps });
            }
        }
        tx_case_counts.push(cases.len() - before);
    }
    // development aid: `--only set|cud|tx` runs one family (never exhaustive, triggers not required)
    let only = args.extra.get("only").cloned();
    if let Some(o) = &only {
        cases.retain(|c| matches!((c, o.as_str()), (Case::Set { .. }, "set") | (Case::Cud { .. }, "cud") | (Case::Tx { .. }, "tx")));
    }
    rep.set("cases", cases.len() as u64);

    // ---- run
    let cap_s: u64 = args.tier.pick(50, 1500);
    let deadline = mcx::Deadline::after_secs(cap_s);
    let nchunks = 256.min(cases.len().max(1));
    let chunk = cases.len().div_ceil(nchunks);
    let parts: Vec<(Report, MinCases, BTreeSet<(usize, Model)>)> = cases
        .par_chunks(chunk.max(1))
        .map(|cs| {
            mcx::quiet_panics();
            let mut w = Worker::new(&rep, &machine, args.seed);
            w.all_literals = thorough;
            for c in cs {
                if deadline.passed() {
                    w.rep.count("cases_skipped_after_wall_cap", 1);
                    continue;
                }
                match c {
                    Case::Set { ui, facts, on_graph } => {
                        let si = &unis[*ui].si;
                        let lits = &unis;
                        let lits: Vec<&Vec<Lit>> = lits.iter().map(|u| &u.lits).collect();
                        fact_set_case(&mut w, *si, &ss[*si], facts, lits[*ui], *on_graph);
                        if facts.len() == 2 && *on_graph && w.rep.counter("fact_sets") % 97 == 1 {
                            // the literal with some key bound that matches most facts of this store
                            let l = lits[*ui].iter().filter(|l| !l.keys.is_empty()).max_by_key(|l| {
                                let mut m = Model::default();
                                for (k, v) in facts {
                                    m.facts.insert(k.clone(), v.clone());
                                }
                                m.matches(l).len()
                            }).unwrap_or(&lits[*ui][0]);
                            let mut m = Model::default();
                            for (k, v) in facts {
                                m.facts.insert(k.clone(), v.clone());
                            }
                            w.rep.sample(json!({"schema": ss[*si].name, "created_in_order": facts.iter().map(|(k, v)| show_fact(k, v)).collect::<Vec<_>>(), "literal": l.show(&ss[*si]), "model_matches": m.matches(l).iter().map(|(k, v)| show_fact(k, v)).collect::<Vec<_>>()}));
                        }
                    }
                    Case::Cud { si, hist } => {
                        // end-of-history observation: full scan, every point key of the touched keys, one value-bound scan
                        let s = &ss[*si];
                        let touched: Vec<&Vec<Atom>> = hist.iter().flat_map(op_keys).collect();
                        let full: Vec<Lit> = unis[*si].lits
                            .iter()
                            .filter(|l| l.keys.is_empty() || (l.keys.len() == s.keys.len() && l.shape.val_mask == Some(0) && touched.contains(&&l.keys)))
                            .cloned()
                            .collect();
                        cud_case(&mut w, *si, s, hist, &full);
                        if hist.len() == 3 && w.rep.counter("cud_histories") % 211 == 1 {
                            w.rep.sample(json!({"schema": s.name, "history": hist.iter().map(Op::show).collect::<Vec<_>>()}));
                        }
                    }
                    Case::Tx { ci, prior, steps } => {
                        let c = &txcfgs[*ci];
                        w.tx_case(c.si, &ss[c.si], prior, steps, &c.q, &c.lits);
                        if steps.len() == 3 && !prior.is_empty() && w.rep.counter("tx_actions") % 157 == 1 {
                            w.rep.sample(json!({"schema": ss[c.si].name, "committed_by_earlier_actions": prior.iter().map(Op::show).collect::<Vec<_>>(), "one_action_publishes": steps.iter().map(Op::show).collect::<Vec<_>>(), "observed": "scan after every step; every literal shape over the keys in use after the last step; listing and session scan after the commit"}));
                        }
                    }
                }
            }
            (w.rep, w.bad, w.states)
        })
        .collect();
    let mut bad = MinCases::default();
    let mut states: BTreeSet<(usize, Model)> = BTreeSet::new();
    for (r, b, s) in parts {
        rep.absorb(r);
        bad.merge(b);
        states.extend(s);
    }
    bad.flush(&mut rep);
    rep.set("states", states.len() as u64);
    rep.set("traces_validated_against_impl", rep.counter("histories"));
    let skipped = rep.counter("cases_skipped_after_wall_cap");
    rep.set("exhaustive", skipped == 0 && only.is_none());
    if skipped > 0 {
        rep.set("cap_hit", format!("wall cap of {cap_s}s: {skipped} of {} histories were not run", cases.len()));
    }
    rep.set(
        "bounds",
        json!({
            "schemas": ss.iter().map(|s| format!("{}[{}]=>{{{}}}", s.name, s.keys.iter().map(|(n, t)| format!("{n} {}", t.policy())).collect::<Vec<_>>().join(", "), s.vals.iter().map(|(n, t)| format!("{n} {}", t.policy())).collect::<Vec<_>>().join(", "))).collect::<Vec<_>>(),
            "universes": unis.iter().map(|u| json!({"schema": ss[u.si].name, "alphabet": u.label, "key_alphabet_sizes": u.alpha.keys.iter().map(Vec::len).collect::<Vec<_>>(), "value_tuples": u.alpha.vals.len(), "max_stored_facts": u.max_facts, "all_insertion_orders": u.all_orders, "literals": u.lits.len()})).collect::<Vec<_>>(),
            "count_limits": LIMITS,
            "cud_depth": cud_depth,
            "cud_keys": cud_keys,
            "cud_operation_alphabet": cud_alphabet_sizes,
            "multi_command_actions": txcfgs.iter().zip(&tx_case_counts).map(|(c, n)| json!({
                "schema": ss[c.si].name,
                "keys": c.q.picks.iter().map(|k| k.iter().map(Atom::show).collect::<Vec<_>>().join(",")).collect::<Vec<_>>(),
                "never_stored_query_key": c.q.qkeys.iter().find(|k| !c.q.picks.contains(k)).map(|k| k.iter().map(Atom::show).collect::<Vec<_>>().join(",")),
                "query_prefixes": c.q.qprefixes.iter().flatten().map(|k| k.iter().map(Atom::show).collect::<Vec<_>>().join(",")).collect::<Vec<_>>(),
                "states_per_key_in_committed_prior": if c.prior_states == 3 { "never created | committed | created and deleted again" } else { "never created | committed" },
                "committed_priors": c.prior_states.pow(c.q.picks.len() as u32),
                "steps_per_action": [c.min_len, c.depth],
                "step_alphabet": if c.full_alphabet { "create, delete, 3-4 update forms, create;update, create;delete, delete;create, update;delete" } else { "create, delete, update(old values bound)" },
                "literals_after_last_step": c.lits.len(),
                "actions": n,
            })).collect::<Vec<_>>(),
        }),
    );
    let tx_rule = tx_bounds
        .iter()
        .map(|(k, st, lo, hi, f)| format!("{k} keys each {} × {lo}..={hi} steps × {} step alphabet", if *st == 3 { "never created/committed/created and deleted again" } else { "never created/committed" }, if *f { "full" } else { "create/delete/update" }))
        .collect::<Vec<_>>()
        .join("; ");
    rep.set(
        "rule",
        format!("state = history of fact-changing commands replayed on a fresh graph of a real ClientState/VmPolicy/MemStorageProvider; (a) every fact set of ≤3 facts over the boundary key alphabets × 2 value variants, created one command per fact in descending key order (thorough: every insertion order), then every literal of every shape (bound keys and bound values drawn from the alphabets) evaluated as query/exists/count_up_to/at_least/at_most/exactly 1..3 in a command policy and in its action and as map, in a session and (first variant) on-graph; (b) every valid sequence of ≤3 create/update/delete commands (4 update literal forms, 5 two-statement finish blocks) with the raw fact listing compared after each command; (c) multi-command actions [{tx_rule}]: on every committed prior over the keys (built one command per action) every valid sequence of create/delete/update commands published by ONE action, i.e. inside one uncommitted perspective over the committed fact index: the same action scans the schema (all query kinds + map) after every step and evaluates every literal shape bound to the keys, a never-stored key and the key prefixes in use after the last step; raw listing and a session scan after the commit; states = distinct (schema, model store) reached, transitions = fact-changing commands executed"),
    );
    rep.assume("Multi-command actions: the observations made inside the action are the effects of observation commands published by that same action between and after the fact-changing commands; they are compared with the model store as it stands after the steps published so far.");
    rep.assume("Only the statement's preconditions are explored: create on an absent key, update/delete on a present key. Merges (braids) of concurrent fact changes are other properties (C03, C12).");
    for c in [
        "histories",
        "fact_sets",
        "cud_histories",
        "query_runs",
        "map_runs",
        "runs_with_negative_int_keys",
        "prefix_queries_some_keys_bound",
        "queries_with_bound_values",
        "map_visiting_2_or_more",
        "histories_with_update",
        "histories_with_delete",
        "listings_compared",
        "tx_actions",
        "tx_actions_on_nonempty_committed_store",
        "tx_actions_with_2_or_more_fact_changing_commands",
        "tx_literals_evaluated",
        "tx_prefix_queries_matching_2_or_more",
        "tx_delete_of_committed_fact",
        "tx_delete_of_own_created_fact",
        "tx_recreate_after_delete_in_same_action",
        "tx_update_after_delete_and_recreate_in_same_action",
        "tx_update_of_committed_fact",
        "tx_update_of_own_created_fact",
        "tx_deleted_key_sorts_before_remaining_facts",
        "tx_deleted_key_sorts_between_remaining_facts",
        "tx_deleted_key_sorts_after_remaining_facts",
    ] {
        if only.is_none() {
            rep.require_nonzero(c);
        }
    }
    rep.finish()
}
