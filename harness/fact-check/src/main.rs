use aranya_policy_compiler::Compiler;
use aranya_policy_lang::lang::parse_policy_document;
use aranya_runtime::vm_policy::testing::TestFfiEnvelope;
use aranya_policy_vm::ffi::FfiModule;

fn main() {
    let path = std::env::args().nth(1).unwrap();
    let doc = std::fs::read_to_string(path).unwrap();
    let ast = match parse_policy_document(&doc) {
        Ok(a) => a,
        Err(e) => { println!("PARSE ERROR: {e}"); return; }
    };
    match Compiler::new(&ast).ffi_modules(&[TestFfiEnvelope::SCHEMA]).compile() {
        Ok(_m) => println!("compiled"),
        Err(e) => println!("COMPILE ERROR: {e}"),
    }
}
