//! fact-check: C29 (policy fact queries vs. a model fact store, through the real runtime).
mod c29;
mod schema;
mod sys;
mod util;

fn main() {
    let args = mcx::parse_args();
    match args.prop.as_str() {
        "C29" => c29::run(&args),
        p => mcx::machinery_error(&format!("fact-check does not serve {p}")),
    }
}
