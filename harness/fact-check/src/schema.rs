//! Fact schemas, typed key/value atoms with the *model's* ordering, and the policy text generator.
//!
//! Ordering rules (from the property statement / DESIGN 5/C29, never from the implementation):
//! ints numeric, bools false<true, strings bytewise, ids bytewise, enums by (value, name);
//! compound keys lexicographic field by field.

use std::fmt::Write as _;

use aranya_crypto::BaseId;
use aranya_policy_vm::{
    ast::{Identifier, Text},
    Value,
};

#[derive(Clone, Copy, Debug, PartialEq, Eq)]
pub enum Ty {
    Int,
    Str,
    Color,
    Id,
    Bool,
}

impl Ty {
    pub fn policy(self) -> &'static str {
        match self {
            Ty::Int => "int",
            Ty::Str => "string",
            Ty::Color => "enum Color",
            Ty::Id => "id",
            Ty::Bool => "bool",
        }
    }
}

pub const COLORS: [&str; 3] = ["Red", "Green", "Blue"];

/// A typed atom. The derived `Ord` is the model's order: variants are never mixed within one
/// field, `Int` is numeric, `Str`/`Id` bytewise, `Color` is (value, name).
#[derive(Clone, Debug, PartialEq, Eq, PartialOrd, Ord, Hash)]
pub enum Atom {
    Int(i64),
    Str(String),
    Color(i64, String),
    Id([u8; 32]),
    Bool(bool),
}

impl Atom {
    pub fn color(ix: usize) -> Atom {
        Atom::Color(ix as i64, COLORS[ix].to_string())
    }
    pub fn id(first: u8, last: u8) -> Atom {
        let mut b = [0u8; 32];
        b[0] = first;
        b[31] = last;
        Atom::Id(b)
    }
    pub fn to_value(&self) -> Value {
        match self {
            Atom::Int(i) => Value::Int(*i),
            Atom::Str(s) => Value::String(s.parse::<Text>().unwrap_or_else(|_| mcx::machinery_error("atom string is not a Text"))),
            Atom::Color(v, _) => Value::Enum(ident("Color"), *v),
            Atom::Id(b) => Value::Id(BaseId::from_bytes(*b)),
            Atom::Bool(b) => Value::Bool(*b),
        }
    }
    /// Reads a VM value of the expected type back into an atom (`None` = wrong type).
    pub fn from_value(ty: Ty, v: &Value) -> Option<Atom> {
        Some(match (ty, v) {
            (Ty::Int, Value::Int(i)) => Atom::Int(*i),
            (Ty::Str, Value::String(s)) => Atom::Str(s.as_str().to_string()),
            (Ty::Color, Value::Enum(name, v)) if name.as_str() == "Color" => {
                let n = usize::try_from(*v).ok().and_then(|i| COLORS.get(i))?;
                Atom::Color(*v, n.to_string())
            }
            (Ty::Id, Value::Id(id)) => Atom::Id(*id.as_array()),
            (Ty::Bool, Value::Bool(b)) => Atom::Bool(*b),
            _ => return None,
        })
    }
    pub fn show(&self) -> String {
        match self {
            Atom::Int(i) => i.to_string(),
            Atom::Str(s) => format!("{s:?}"),
            Atom::Color(_, n) => n.clone(),
            Atom::Id(b) => format!("id:{:02x}..{:02x}", b[0], b[31]),
            Atom::Bool(b) => b.to_string(),
        }
    }
    /// Compact byte form used only to order/identify cases (not an oracle).
    pub fn order_bytes(&self, out: &mut Vec<u8>) {
        match self {
            Atom::Int(i) => out.extend_from_slice(&(*i as u64 ^ (1 << 63)).to_be_bytes()),
            Atom::Str(s) => {
                out.extend_from_slice(s.as_bytes());
                out.push(0);
            }
            Atom::Color(v, _) => out.push(*v as u8),
            Atom::Id(b) => out.extend_from_slice(&[b[0], b[31]]),
            Atom::Bool(b) => out.push(*b as u8),
        }
    }
}

pub fn ident(s: &str) -> Identifier {
    s.parse::<Identifier>().unwrap_or_else(|_| mcx::machinery_error(&format!("bad identifier {s}")))
}

#[derive(Clone, Debug)]
pub struct Schema {
    pub name: &'static str,
    pub keys: Vec<(&'static str, Ty)>,
    pub vals: Vec<(&'static str, Ty)>,
}

impl Schema {
    pub fn lower(&self) -> String {
        self.name.to_lowercase()
    }
    /// Value-binding masks: bit j set = value field j bound. Plus `None` = no `=>{…}` clause.
    pub fn val_masks(&self) -> Vec<Option<u32>> {
        let mut v: Vec<Option<u32>> = (0..(1u32 << self.vals.len())).map(Some).collect();
        v.push(None);
        v
    }
}

pub fn schemas() -> Vec<Schema> {
    vec![
        Schema { name: "A", keys: vec![("k", Ty::Int)], vals: vec![("v", Ty::Int)] },
        Schema { name: "B", keys: vec![("s", Ty::Str), ("n", Ty::Int)], vals: vec![("v", Ty::Int)] },
        Schema { name: "C", keys: vec![("e", Ty::Color), ("i", Ty::Id)], vals: vec![("a", Ty::Int), ("b", Ty::Bool)] },
    ]
}

/// A query literal shape: how many leading keys are bound, which value fields are bound.
#[derive(Clone, Copy, Debug, PartialEq, Eq, PartialOrd, Ord, Hash)]
pub struct Shape {
    pub bound_keys: usize,
    /// `None` = the literal has no value clause at all
    pub val_mask: Option<u32>,
}

impl Shape {
    pub fn suffix(&self) -> String {
        match self.val_mask {
            Some(m) => format!("{}_{m}", self.bound_keys),
            None => format!("{}_n", self.bound_keys),
        }
    }
    pub fn val_bound(&self, j: usize) -> bool {
        self.val_mask.is_some_and(|m| m & (1 << j) != 0)
    }
}

pub fn shapes(s: &Schema) -> Vec<Shape> {
    let mut v = Vec::new();
    for b in 0..=s.keys.len() {
        for m in s.val_masks() {
            v.push(Shape { bound_keys: b, val_mask: m });
        }
    }
    v
}

/// The fact literal text for a shape, with `src` prefixing the variable names (`this.` or ``).
fn literal(s: &Schema, sh: &Shape, src: &str) -> String {
    let keys: Vec<String> = s.keys.iter().enumerate().map(|(j, (n, _))| if j < sh.bound_keys { format!("{n}: {src}q_{n}") } else { format!("{n}: ?") }).collect();
    let mut out = format!("{}[{}]", s.name, keys.join(", "));
    if sh.val_mask.is_some() {
        let vals: Vec<String> = s.vals.iter().enumerate().map(|(j, (n, _))| if sh.val_bound(j) { format!("{n}: {src}q_{n}") } else { format!("{n}: ?") }).collect();
        let _ = write!(out, "=>{{{}}}", vals.join(", "));
    }
    out
}

/// Parameters (name, type) a shape needs: bound keys then bound values, all prefixed `q_`.
pub fn shape_params(s: &Schema, sh: &Shape) -> Vec<(String, Ty)> {
    let mut p = Vec::new();
    for (j, (n, t)) in s.keys.iter().enumerate() {
        if j < sh.bound_keys {
            p.push((format!("q_{n}"), *t));
        }
    }
    for (j, (n, t)) in s.vals.iter().enumerate() {
        if sh.val_bound(j) {
            p.push((format!("q_{n}"), *t));
        }
    }
    p
}

pub const LIMITS: [i64; 3] = [1, 2, 3];

const SEAL_OPEN: &str = "    seal { return envelope::do_seal(payload) }\n    open { return envelope::do_open(payload, envelope) }\n";

/// The complete policy document.
pub fn policy_text() -> String {
    let mut p = String::new();
    p.push_str("---\npolicy-version: 2\n---\n\n```policy\nuse envelope\n\nenum Color { Red, Green, Blue }\n\n");
    p.push_str("command Init {\n    attributes { init: true }\n    fields { nonce int }\n");
    p.push_str(SEAL_OPEN);
    p.push_str("    policy { finish {} }\n}\naction init(nonce int) { publish Init { nonce: nonce } }\n\n");
    p.push_str("effect Done { op int, tag int }\n\n");
    for s in schemas() {
        gen_schema(&mut p, &s);
    }
    p.push_str("```\n");
    p
}

fn fields_decl(fs: &[(String, Ty)]) -> String {
    fs.iter().map(|(n, t)| format!("{n} {}", t.policy())).collect::<Vec<_>>().join(", ")
}

fn gen_schema(p: &mut String, s: &Schema) {
    let f = s.name;
    let lf = s.lower();
    let keys_decl: Vec<String> = s.keys.iter().map(|(n, t)| format!("{n} {}", t.policy())).collect();
    let vals_decl: Vec<String> = s.vals.iter().map(|(n, t)| format!("{n} {}", t.policy())).collect();
    let _ = writeln!(p, "fact {f}[{}]=>{{{}}}\n", keys_decl.join(", "), vals_decl.join(", "));

    // ---- mutation commands -------------------------------------------------------------
    // field name helpers: k1_<key>, v1_<val>, w_<val> (new values)
    let kf = |pre: &str| s.keys.iter().map(|(n, t)| (format!("{pre}_{n}"), *t)).collect::<Vec<_>>();
    let vf = |pre: &str| s.vals.iter().map(|(n, t)| (format!("{pre}_{n}"), *t)).collect::<Vec<_>>();
    let key_lit = |pre: &str| s.keys.iter().map(|(n, _)| format!("{n}: this.{pre}_{n}")).collect::<Vec<_>>().join(", ");
    let val_lit = |pre: &str| s.vals.iter().map(|(n, _)| format!("{n}: this.{pre}_{n}")).collect::<Vec<_>>().join(", ");
    let val_any = s.vals.iter().map(|(n, _)| format!("{n}: ?")).collect::<Vec<_>>().join(", ");
    let val_part = s.vals.iter().enumerate().map(|(j, (n, _))| if j == 0 { format!("{n}: this.v_{n}") } else { format!("{n}: ?") }).collect::<Vec<_>>().join(", ");

    let mut cmd = |name: &str, op: usize, fields: Vec<(String, Ty)>, finish: String| {
        let mut all = vec![("tag".to_string(), Ty::Int)];
        all.extend(fields);
        let _ = writeln!(p, "command {name}{f} {{\n    attributes {{ priority: 0 }}\n    fields {{ {} }}", fields_decl(&all));
        p.push_str(SEAL_OPEN);
        let _ = writeln!(p, "    policy {{\n        finish {{\n{finish}            emit Done {{ op: {op}, tag: this.tag }}\n        }}\n    }}\n}}");
        let args = all.iter().map(|(n, _)| format!("{n}: {n}")).collect::<Vec<_>>().join(", ");
        let _ = writeln!(p, "action {}_{lf}({}) {{ publish {name}{f} {{ {args} }} }}\n", name.to_lowercase(), fields_decl(&all));
    };
    let k = kf("k");
    let v = vf("v");
    let w = vf("w");
    let cat = |parts: &[&Vec<(String, Ty)>]| parts.iter().flat_map(|x| x.iter().cloned()).collect::<Vec<_>>();
    cmd("Mk", 1, cat(&[&k, &v]), format!("            create {f}[{}]=>{{{}}}\n", key_lit("k"), val_lit("v")));
    cmd("Del", 2, k.clone(), format!("            delete {f}[{}]\n", key_lit("k")));
    cmd("UpdAll", 3, cat(&[&k, &v, &w]), format!("            update {f}[{}]=>{{{}}} to {{{}}}\n", key_lit("k"), val_lit("v"), val_lit("w")));
    cmd("UpdAny", 4, cat(&[&k, &w]), format!("            update {f}[{}]=>{{{val_any}}} to {{{}}}\n", key_lit("k"), val_lit("w")));
    cmd("UpdNone", 5, cat(&[&k, &w]), format!("            update {f}[{}] to {{{}}}\n", key_lit("k"), val_lit("w")));
    if s.vals.len() > 1 {
        let v0 = vec![v[0].clone()];
        cmd("UpdPart", 6, cat(&[&k, &v0, &w]), format!("            update {f}[{}]=>{{{val_part}}} to {{{}}}\n", key_lit("k"), val_lit("w")));
    }
    // two statements in one finish block
    cmd("CrUp", 7, cat(&[&k, &v, &w]), format!("            create {f}[{kl}]=>{{{}}}\n            update {f}[{kl}]=>{{{}}} to {{{}}}\n", val_lit("v"), val_lit("v"), val_lit("w"), kl = key_lit("k")));
    cmd("CrDel", 8, cat(&[&k, &v]), format!("            create {f}[{kl}]=>{{{}}}\n            delete {f}[{kl}]\n", val_lit("v"), kl = key_lit("k")));
    cmd("DelCr", 9, cat(&[&k, &w]), format!("            delete {f}[{kl}]\n            create {f}[{kl}]=>{{{}}}\n", val_lit("w"), kl = key_lit("k")));
    cmd("UpDel", 10, cat(&[&k, &w]), format!("            update {f}[{kl}]=>{{{val_any}}} to {{{}}}\n            delete {f}[{kl}]\n", val_lit("w"), kl = key_lit("k")));
    let k2 = kf("l");
    cmd("Cr2", 11, cat(&[&k, &v, &k2, &w]), format!("            create {f}[{}]=>{{{}}}\n            create {f}[{}]=>{{{}}}\n", key_lit("k"), val_lit("v"), key_lit("l"), val_lit("w")));

    // ---- observation: query kinds -----------------------------------------------------
    // facts are not nameable struct types: results travel as an explicit row struct
    let row_decl: Vec<String> = s.keys.iter().chain(s.vals.iter()).map(|(n, t)| format!("{n} {}", t.policy())).collect();
    let _ = writeln!(p, "struct {f}Row {{ {} }}\n", row_decl.join(", "));
    let row_of = |var: &str| format!("{f}Row {{ {} }}", s.keys.iter().chain(s.vals.iter()).map(|(n, _)| format!("{n}: {var}.{n}")).collect::<Vec<_>>().join(", "));
    let opt_row = |var: &str| format!("match {var} {{ Some(f) => Some({}) None => None }}", row_of("f"));
    let mut obs = vec!["tag int".to_string(), "pt int".to_string(), format!("r option[struct {f}Row]"), "e bool".to_string()];
    for l in LIMITS {
        obs.push(format!("c{l} int"));
        obs.push(format!("al{l} bool"));
        obs.push(format!("am{l} bool"));
        obs.push(format!("ex{l} bool"));
    }
    obs.push(format!("ar option[struct {f}Row]"));
    obs.push("ae bool".to_string());
    obs.push("ac int".to_string());
    let _ = writeln!(p, "effect Obs{f} {{ {} }}\n", obs.join(", "));
    let _ = writeln!(p, "effect Visit{f} {{ tag int, pt int, f struct {f}Row }}\n");

    for (eph, cpre, apre) in [(true, "Q", "q"), (false, "P", "p")] {
        let ephemeral = if eph { "ephemeral " } else { "" };
        let attrs = if eph { "" } else { "    attributes { priority: 0 }\n" };
        // visit command for map
        let _ = writeln!(p, "{ephemeral}command {cpre}V{f} {{\n{attrs}    fields {{ tag int, pt int, f struct {f}Row }}");
        p.push_str(SEAL_OPEN);
        let _ = writeln!(p, "    policy {{ finish {{ emit Visit{f} {{ tag: this.tag, pt: this.pt, f: this.f }} }} }}\n}}\n");
        for sh in shapes(s) {
            let params = shape_params(s, &sh);
            let mut fields = vec![("tag".to_string(), Ty::Int)];
            fields.extend(params.iter().cloned());
            let mut cfields = vec![("tag".to_string(), Ty::Int), ("pt".to_string(), Ty::Int)];
            cfields.extend(params.iter().cloned());
            let lit_this = literal(s, &sh, "this.");
            let lit_arg = literal(s, &sh, "");
            let name = format!("{cpre}{f}_{}", sh.suffix());
            let _ = writeln!(p, "{ephemeral}command {name} {{\n{attrs}    fields {{ {}, ar option[struct {f}Row], ae bool, ac int }}", fields_decl(&cfields));
            p.push_str(SEAL_OPEN);
            let _ = writeln!(p, "    policy {{\n        let r0 = query {lit_this}\n        let r = {}\n        let e = exists {lit_this}", opt_row("r0"));
            let mut emit = vec!["tag: this.tag".to_string(), "pt: this.pt".to_string(), "r: r".to_string(), "e: e".to_string()];
            for l in LIMITS {
                let _ = writeln!(p, "        let c{l} = count_up_to {l} {lit_this}\n        let al{l} = at_least {l} {lit_this}\n        let am{l} = at_most {l} {lit_this}\n        let ex{l} = exactly {l} {lit_this}");
                for n in ["c", "al", "am", "ex"] {
                    emit.push(format!("{n}{l}: {n}{l}"));
                }
            }
            emit.push("ar: this.ar".to_string());
            emit.push("ae: this.ae".to_string());
            emit.push("ac: this.ac".to_string());
            let _ = writeln!(p, "        finish {{\n            emit Obs{f} {{ {} }}\n        }}\n    }}\n}}", emit.join(", "));
            // the action runs the same literal in action context and hands the results over
            let args = fields.iter().map(|(n, _)| format!("{n}: {n}")).collect::<Vec<_>>().join(", ");
            let _ = writeln!(
                p,
                "{ephemeral}action {apre}_{lf}_{}({}) {{\n    let ar0 = query {lit_arg}\n    let ar = {}\n    let ae = exists {lit_arg}\n    let ac = count_up_to 3 {lit_arg}\n    publish {name} {{ {args}, pt: 0, ar: ar, ae: ae, ac: ac }}\n}}",
                sh.suffix(),
                fields_decl(&fields),
                opt_row("ar0")
            );
            let _ = writeln!(p, "{ephemeral}action {apre}m_{lf}_{}({}) {{\n    map {lit_arg} as f {{\n        publish {cpre}V{f} {{ tag: tag, pt: 0, f: {} }}\n    }}\n}}\n", sh.suffix(), fields_decl(&fields), row_of("f"));
        }
    }
    gen_tx(p, s);
}

// ---------------------------------------------------------------------------------------------
// multi-command actions: several fact-changing commands and observations in ONE action, i.e. in
// one uncommitted perspective on top of the committed facts

/// Fact-changing steps one action can publish.
pub const TX_STEPS: usize = 4;
/// Full keys the in-action observation binds (point literals).
pub const TX_QKEYS: usize = 4;
/// Proper key prefixes (per prefix length) the in-action observation binds.
pub const TX_QPREFIXES: usize = 2;

/// One literal of the in-action observation. `key_slot` selects the bound keys: with all keys bound
/// it is one of the `TX_QKEYS` full keys, with some bound one of the `TX_QPREFIXES` prefixes.
/// `variant` selects which of the two value tuples (x, y) supplies the bound value fields.
#[derive(Clone, Copy, Debug)]
pub struct TxLit {
    pub shape: Shape,
    pub key_slot: usize,
    pub variant: usize,
    /// part of the short observation made after the steps that are not the last one
    pub light: bool,
}

pub fn tx_literals(s: &Schema) -> Vec<TxLit> {
    let mut out = Vec::new();
    for sh in shapes(s) {
        let slots = if sh.bound_keys == 0 {
            1
        } else if sh.bound_keys == s.keys.len() {
            TX_QKEYS
        } else {
            TX_QPREFIXES
        };
        let variants = if sh.val_mask.is_some_and(|m| m != 0) { 2 } else { 1 };
        for key_slot in 0..slots {
            for variant in 0..variants {
                out.push(TxLit { shape: sh, key_slot, variant, light: sh.bound_keys == 0 && sh.val_mask.is_none() });
            }
        }
    }
    out
}

/// Name of the action parameter that carries bound key field `j` of a literal.
fn tx_key_param(s: &Schema, l: &TxLit, j: usize) -> String {
    let n = s.keys[j].0;
    if l.shape.bound_keys == s.keys.len() {
        format!("qk{}_{n}", l.key_slot)
    } else {
        format!("qp{}x{}_{n}", l.shape.bound_keys, l.key_slot)
    }
}

/// Parameters of the observation (after `tag`): full keys, prefixes, the two value tuples.
pub fn tx_obs_params(s: &Schema) -> Vec<(String, Ty)> {
    let mut p = Vec::new();
    for slot in 0..TX_QKEYS {
        for (n, t) in &s.keys {
            p.push((format!("qk{slot}_{n}"), *t));
        }
    }
    for b in 1..s.keys.len() {
        for slot in 0..TX_QPREFIXES {
            for (n, t) in &s.keys[..b] {
                p.push((format!("qp{b}x{slot}_{n}"), *t));
            }
        }
    }
    for var in ["x", "y"] {
        for (n, t) in &s.vals {
            p.push((format!("{var}_{n}"), *t));
        }
    }
    p
}

/// Parameters of one step: tag, op code, observation mode, key, old/created values, new values.
pub fn tx_step_params(s: &Schema, i: usize) -> Vec<(String, Ty)> {
    let mut p = vec![(format!("t{i}"), Ty::Int), (format!("o{i}"), Ty::Int), (format!("b{i}"), Ty::Int)];
    for pre in ["k", "v", "w"] {
        let fs = if pre == "k" { &s.keys } else { &s.vals };
        for (n, t) in fs {
            p.push((format!("{pre}{i}_{n}"), *t));
        }
    }
    p
}

/// All parameters of `tx_<schema>` in declaration order.
pub fn tx_params(s: &Schema) -> Vec<(String, Ty)> {
    let mut p = Vec::new();
    for i in 0..TX_STEPS {
        p.extend(tx_step_params(s, i));
    }
    p.extend(tx_obs_params(s));
    p
}

fn gen_tx(p: &mut String, s: &Schema) {
    let f = s.name;
    let lf = s.lower();
    // ---- one step: publish the fact-changing command selected by `o` (0 = none)
    let mut sp = vec![("t".to_string(), Ty::Int), ("o".to_string(), Ty::Int)];
    for pre in ["k", "v", "w"] {
        let fs = if pre == "k" { &s.keys } else { &s.vals };
        for (n, t) in fs {
            sp.push((format!("{pre}_{n}"), *t));
        }
    }
    let pass = |pre: &str| -> String {
        let fs = if pre == "k" { &s.keys } else { &s.vals };
        fs.iter().map(|(n, _)| format!("{pre}_{n}: {pre}_{n}")).collect::<Vec<_>>().join(", ")
    };
    let v0 = format!("v_{n}: v_{n}", n = s.vals[0].0);
    let mut arms: Vec<(usize, String)> = vec![
        (1, format!("Mk{f} {{ tag: t, {}, {} }}", pass("k"), pass("v"))),
        (2, format!("Del{f} {{ tag: t, {} }}", pass("k"))),
        (3, format!("UpdAll{f} {{ tag: t, {}, {}, {} }}", pass("k"), pass("v"), pass("w"))),
        (4, format!("UpdAny{f} {{ tag: t, {}, {} }}", pass("k"), pass("w"))),
        (5, format!("UpdNone{f} {{ tag: t, {}, {} }}", pass("k"), pass("w"))),
    ];
    if s.vals.len() > 1 {
        arms.push((6, format!("UpdPart{f} {{ tag: t, {}, {v0}, {} }}", pass("k"), pass("w"))));
    }
    arms.push((7, format!("CrUp{f} {{ tag: t, {}, {}, {} }}", pass("k"), pass("v"), pass("w"))));
    arms.push((8, format!("CrDel{f} {{ tag: t, {}, {} }}", pass("k"), pass("v"))));
    arms.push((9, format!("DelCr{f} {{ tag: t, {}, {} }}", pass("k"), pass("w"))));
    arms.push((10, format!("UpDel{f} {{ tag: t, {}, {} }}", pass("k"), pass("w"))));
    let _ = writeln!(p, "action txstep_{lf}({}) {{", fields_decl(&sp));
    for (n, (code, cmd)) in arms.iter().enumerate() {
        let _ = writeln!(p, "    {}if o == {code} {{\n        publish {cmd}\n    }}", if n == 0 { "" } else { "else " });
    }
    p.push_str("}\n\n");

    // ---- the observation: every literal as query kinds (command + action context) and as map
    let row_of = |var: &str| format!("{f}Row {{ {} }}", s.keys.iter().chain(s.vals.iter()).map(|(n, _)| format!("{n}: {var}.{n}")).collect::<Vec<_>>().join(", "));
    let lits = tx_literals(s);
    let mut obs_params = vec![("tag".to_string(), Ty::Int)];
    obs_params.extend(tx_obs_params(s));
    for (aname, light) in [("txobsl", true), ("txobsf", false)] {
        let params = if light { vec![("tag".to_string(), Ty::Int)] } else { obs_params.clone() };
        let _ = writeln!(p, "action {aname}_{lf}({}) {{", fields_decl(&params));
        for (li, l) in lits.iter().enumerate() {
            if light && !l.light {
                continue;
            }
            let var = ["x", "y"][l.variant];
            let keys: Vec<String> = s.keys.iter().enumerate().map(|(j, (n, _))| if j < l.shape.bound_keys { format!("{n}: {}", tx_key_param(s, l, j)) } else { format!("{n}: ?") }).collect();
            let mut lit = format!("{f}[{}]", keys.join(", "));
            if l.shape.val_mask.is_some() {
                let vals: Vec<String> = s.vals.iter().enumerate().map(|(j, (n, _))| if l.shape.val_bound(j) { format!("{n}: {var}_{n}") } else { format!("{n}: ?") }).collect();
                let _ = write!(lit, "=>{{{}}}", vals.join(", "));
            }
            // the fields the observation command of this shape expects (q_<field>)
            let mut pass: Vec<String> = Vec::new();
            for (j, (n, _)) in s.keys.iter().enumerate() {
                if j < l.shape.bound_keys {
                    pass.push(format!("q_{n}: {}", tx_key_param(s, l, j)));
                }
            }
            for (j, (n, _)) in s.vals.iter().enumerate() {
                if l.shape.val_bound(j) {
                    pass.push(format!("q_{n}: {var}_{n}"));
                }
            }
            let pass = if pass.is_empty() { String::new() } else { format!("{}, ", pass.join(", ")) };
            let _ = writeln!(
                p,
                "    let r{li} = query {lit}\n    let o{li} = match r{li} {{ Some(g) => Some({}) None => None }}\n    let e{li} = exists {lit}\n    let c{li} = count_up_to 3 {lit}\n    publish P{f}_{} {{ tag: tag, pt: {}, {pass}ar: o{li}, ae: e{li}, ac: c{li} }}\n    map {lit} as f {{\n        publish PV{f} {{ tag: tag, pt: {}, f: {} }}\n    }}",
                row_of("g"),
                l.shape.suffix(),
                2 * li,
                2 * li + 1,
                row_of("f")
            );
        }
        p.push_str("}\n\n");
    }

    // ---- the multi-command action
    let _ = writeln!(p, "action tx_{lf}({}) {{", fields_decl(&tx_params(s)));
    let obs_args = tx_obs_params(s).iter().map(|(n, _)| n.clone()).collect::<Vec<_>>().join(", ");
    for i in 0..TX_STEPS {
        let mut a = vec![format!("t{i}"), format!("o{i}")];
        for pre in ["k", "v", "w"] {
            let fs = if pre == "k" { &s.keys } else { &s.vals };
            for (n, _) in fs {
                a.push(format!("{pre}{i}_{n}"));
            }
        }
        let _ = writeln!(p, "    action txstep_{lf}({})\n    if b{i} == 1 {{\n        action txobsl_{lf}(t{i})\n    }} else if b{i} == 2 {{\n        action txobsf_{lf}(t{i}, {obs_args})\n    }}", a.join(", "));
    }
    p.push_str("}\n\n");
}
