//! The system under test: real parser → real compiler → real `VmPolicy` in a real `ClientState`
//! over `MemStorageProvider`, plus decoding of what it shows us (effects, raw fact listing).

use std::borrow::Cow;

use aranya_crypto::{default::DefaultEngine, Csprng, DeviceId};
use aranya_policy_compiler::Compiler;
use aranya_policy_lang::lang::parse_policy_document;
use aranya_policy_vm::{ffi::FfiModule, FactValue, Machine, Value};
use aranya_runtime::{
    storage::{linear::testing::MemStorageProvider, Query as _, Storage as _, StorageProvider as _},
    vm_policy::testing::TestFfiEnvelope,
    ClientState, GraphId, MemSpill, PolicyError, PolicyId, PolicyStore, RuntimeBuffers, Session, Sink, VmAction, VmEffect, VmPolicy,
};

use crate::schema::{ident, Atom, Schema, Ty};

/// Deterministic counter-mode generator (splitmix64), seeded from `VERIF_SEED`.
pub struct CtrRng {
    seed: u64,
    ctr: std::sync::atomic::AtomicU64,
}
impl CtrRng {
    pub fn new(seed: u64) -> Self {
        CtrRng { seed, ctr: std::sync::atomic::AtomicU64::new(0) }
    }
}
impl Csprng for CtrRng {
    fn fill_bytes(&self, dst: &mut [u8]) {
        for chunk in dst.chunks_mut(8) {
            let c = self.ctr.fetch_add(1, std::sync::atomic::Ordering::Relaxed);
            let mut z = self.seed.wrapping_add(c.wrapping_add(1).wrapping_mul(0x9e37_79b9_7f4a_7c15));
            z = (z ^ (z >> 30)).wrapping_mul(0xbf58_476d_1ce4_e5b9);
            z = (z ^ (z >> 27)).wrapping_mul(0x94d0_49bb_1331_11eb);
            z ^= z >> 31;
            chunk.copy_from_slice(&z.to_le_bytes()[..chunk.len()]);
        }
    }
}

type Eng = DefaultEngine<CtrRng>;

pub struct Store {
    policy: VmPolicy<Eng>,
}
impl PolicyStore for Store {
    type Policy = VmPolicy<Eng>;
    type Effect = VmEffect;
    fn add_policy(&mut self, _policy: &[u8]) -> Result<PolicyId, PolicyError> {
        Ok(PolicyId::new(0))
    }
    fn get_policy(&self, _id: PolicyId) -> Result<&Self::Policy, PolicyError> {
        Ok(&self.policy)
    }
}

/// Parse + compile the generated policy once per process.
pub fn compile_policy(text: &str) -> Machine {
    let ast = parse_policy_document(text).unwrap_or_else(|e| mcx::machinery_error(&format!("generated policy does not parse: {e}")));
    let module = Compiler::new(&ast)
        .ffi_modules(&[TestFfiEnvelope::SCHEMA])
        .compile()
        .unwrap_or_else(|e| mcx::machinery_error(&format!("generated policy does not compile: {e}")));
    Machine::from_module(module).unwrap_or_else(|e| mcx::machinery_error(&format!("compiled module does not load: {e}")))
}

#[derive(Default)]
pub struct RecSink {
    pub effects: Vec<VmEffect>,
    mark: usize,
}
impl Sink<VmEffect> for RecSink {
    fn begin(&mut self) {
        self.mark = self.effects.len();
    }
    fn consume(&mut self, effect: VmEffect) {
        self.effects.push(effect);
    }
    fn rollback(&mut self) {
        self.effects.truncate(self.mark);
    }
    fn commit(&mut self) {}
}

#[derive(Default)]
struct MsgSink;
impl Sink<&[u8]> for MsgSink {
    fn begin(&mut self) {}
    fn consume(&mut self, _m: &[u8]) {}
    fn rollback(&mut self) {}
    fn commit(&mut self) {}
}

type Cs = ClientState<Store, MemStorageProvider>;
type Seg = <<MemStorageProvider as aranya_runtime::StorageProvider>::Storage as aranya_runtime::Storage>::Segment;

/// One client with many graphs (one graph per explored history).
pub struct Sys {
    cs: Cs,
    buffers: RuntimeBuffers<Seg>,
    nonce: i64,
    pub graphs_created: u64,
}

pub struct Graph {
    pub id: GraphId,
    session: Option<Session<MemStorageProvider, Store>>,
}

impl Sys {
    pub fn new(machine: &Machine, seed: u64) -> Self {
        let (eng, _) = Eng::from_entropy(CtrRng::new(seed));
        let policy = VmPolicy::new(machine.clone(), eng, vec![Box::from(TestFfiEnvelope { device: DeviceId::from_bytes([0x44; 32]) })])
            .unwrap_or_else(|e| mcx::machinery_error(&format!("VmPolicy::new: {e}")));
        Sys { cs: ClientState::new(Store { policy }, MemStorageProvider::default()), buffers: RuntimeBuffers::new(), nonce: 0, graphs_created: 0 }
    }

    pub fn new_graph(&mut self) -> Graph {
        self.nonce += 1;
        self.graphs_created += 1;
        let mut sink = RecSink::default();
        let id = self
            .cs
            .new_graph(&[0u8], VmAction { name: ident("init"), args: Cow::Owned(vec![Value::Int(self.nonce)]) }, &mut sink)
            .unwrap_or_else(|e| mcx::machinery_error(&format!("new_graph: {e}")));
        Graph { id, session: None }
    }

    pub fn drop_graph(&mut self, g: Graph) {
        let id = g.id;
        drop(g);
        let _ = self.cs.remove_graph(id);
    }

    /// Runs an on-graph (persistent) action; returns its effects or the error text.
    pub fn action(&mut self, g: &mut Graph, name: &str, args: Vec<Value>) -> Result<Vec<VmEffect>, String> {
        g.session = None; // the committed state may change
        let mut sink = RecSink::default();
        let r = mcx::catch(|| self.cs.action(g.id, &mut sink, VmAction { name: ident(name), args: Cow::Owned(args) }, &mut self.buffers, MemSpill::new));
        match r {
            Err(p) => Err(format!("panic: {p}")),
            Ok(Err(e)) => Err(format!("{e}")),
            Ok(Ok(())) => Ok(sink.effects),
        }
    }

    /// Runs an ephemeral action in a session on the committed state.
    pub fn ephemeral(&mut self, g: &mut Graph, name: &str, args: Vec<Value>) -> Result<Vec<VmEffect>, String> {
        if g.session.is_none() {
            g.session = Some(self.cs.session(g.id).map_err(|e| format!("session: {e}"))?);
        }
        let session = g.session.as_mut().unwrap();
        let mut sink = RecSink::default();
        let cs = &self.cs;
        let r = mcx::catch(|| session.action(cs, &mut sink, &mut MsgSink, VmAction { name: ident(name), args: Cow::Owned(args) }));
        match r {
            Err(p) => Err(format!("panic: {p}")),
            Ok(Err(e)) => Err(format!("{e}")),
            Ok(Ok(())) => Ok(sink.effects),
        }
    }

    /// The committed facts of one schema as the storage lists them (`query_prefix` with an empty
    /// prefix on the fact cache), decoded: in listing order.
    pub fn listing(&mut self, g: &Graph, s: &Schema) -> Result<Vec<(Vec<Atom>, Vec<Atom>)>, String> {
        let storage = self.cs.provider().get_storage(g.id).map_err(|e| format!("get_storage: {e}"))?;
        let cache = storage.fact_cache().map_err(|e| format!("fact_cache: {e}"))?;
        let it = cache.query_prefix(s.name, &[]).map_err(|e| format!("query_prefix: {e}"))?;
        let mut out = Vec::new();
        for f in it {
            let f = f.map_err(|e| format!("query_prefix item: {e}"))?;
            let keys = decode_keys(s, &f.key)?;
            let vals: Vec<FactValue> = postcard::from_bytes(&f.value).map_err(|e| format!("fact value does not decode: {e}"))?;
            let mut v = Vec::new();
            for (n, t) in &s.vals {
                let fv = vals.iter().find(|fv| fv.identifier.as_str() == *n).ok_or_else(|| format!("stored fact lacks value field {n}"))?;
                v.push(Atom::from_value(*t, &fv.value).ok_or_else(|| format!("stored value {n} has the wrong type: {:?}", fv.value))?);
            }
            if vals.len() != s.vals.len() {
                return Err(format!("stored fact has {} value fields, schema has {}", vals.len(), s.vals.len()));
            }
            out.push((keys, v));
        }
        Ok(out)
    }
}

/// Decodes stored key bytes: `len(name) u64 BE | name | tag | payload` per key field (the
/// layout written by the runtime; used for observation only — the expected order and content come
/// from the model).
fn decode_keys(s: &Schema, keys: &[Box<[u8]>]) -> Result<Vec<Atom>, String> {
    if keys.len() != s.keys.len() {
        return Err(format!("stored fact has {} key fields, schema has {}", keys.len(), s.keys.len()));
    }
    let mut out = Vec::new();
    for (k, (name, ty)) in keys.iter().zip(&s.keys) {
        if k.len() < 9 {
            return Err("stored key too short".into());
        }
        let n = u64::from_be_bytes(k[..8].try_into().unwrap()) as usize;
        if k.len() < 8 + n + 1 || &k[8..8 + n] != name.as_bytes() {
            return Err(format!("stored key field is not named {name}"));
        }
        let tag = k[8 + n];
        let p = &k[8 + n + 1..];
        let int = |p: &[u8]| -> Result<i64, String> { Ok((u64::from_be_bytes(p.try_into().map_err(|_| "bad int key length".to_string())?) ^ (1 << 63)) as i64) };
        let a = match (ty, tag) {
            (Ty::Int, 0) => Atom::Int(int(p)?),
            (Ty::Bool, 1) if p.len() == 1 => Atom::Bool(p[0] != 0),
            (Ty::Str, 2) => Atom::Str(String::from_utf8(p.to_vec()).map_err(|_| "stored string key is not UTF-8".to_string())?),
            (Ty::Id, 3) => Atom::Id(p.try_into().map_err(|_| "bad id key length".to_string())?),
            (Ty::Color, 4) if p.len() >= 8 => {
                // payload = value (8 bytes) then the name of the enum *type*
                if &p[8..] != b"Color" {
                    return Err(format!("stored enum key names enum {:?}", String::from_utf8_lossy(&p[8..])));
                }
                let v = int(&p[..8])?;
                let n = usize::try_from(v).ok().and_then(|i| crate::schema::COLORS.get(i)).ok_or_else(|| format!("stored enum key has value {v}"))?;
                Atom::Color(v, n.to_string())
            }
            _ => return Err(format!("stored key field {name} has tag {tag}, expected type {ty:?}")),
        };
        out.push(a);
    }
    Ok(out)
}

/// Reads `struct F { keys…, vals… }` (a fact handed to the policy) back into atoms.
pub fn decode_fact_struct(s: &Schema, v: &Value) -> Result<(Vec<Atom>, Vec<Atom>), String> {
    let Value::Struct(st) = v else { return Err(format!("expected struct {}, got {v:?}", s.name)) };
    if st.name.as_str() != format!("{}Row", s.name) {
        return Err(format!("expected struct {}Row, got struct {}", s.name, st.name));
    }
    let get = |n: &str, t: Ty| -> Result<Atom, String> {
        let v = st.fields.iter().find(|(k, _)| k.as_str() == n).map(|(_, v)| v).ok_or_else(|| format!("struct {} lacks field {n}", s.name))?;
        Atom::from_value(t, v).ok_or_else(|| format!("field {n} has the wrong type: {v:?}"))
    };
    let keys = s.keys.iter().map(|(n, t)| get(n, *t)).collect::<Result<Vec<_>, _>>()?;
    let vals = s.vals.iter().map(|(n, t)| get(n, *t)).collect::<Result<Vec<_>, _>>()?;
    if st.fields.len() != s.keys.len() + s.vals.len() {
        return Err(format!("struct {} has {} fields", s.name, st.fields.len()));
    }
    Ok((keys, vals))
}

pub fn field<'a>(e: &'a VmEffect, name: &str) -> Result<&'a Value, String> {
    e.fields.iter().find(|kv| kv.key().as_str() == name).map(|kv| kv.value()).ok_or_else(|| format!("effect {} lacks field {name}", e.name))
}
