//! Small helpers shared by the misc-check property modules.

use mcx::{Args, Value};

/// Loads the `replay` member of a violation file written by `Report::finish`
/// (`{"property","key","description","replay"}`), if `--replay FILE` was given.
pub fn load_replay(args: &Args) -> Option<Value> {
    let p = args.replay.as_ref()?;
    // the driver runs the checker in its workspace directory: resolve relative paths against /verif too
    let alt = args.verif_dir.join(p);
    let p = if !p.exists() && p.is_relative() && alt.exists() { &alt } else { p };
    let s = std::fs::read_to_string(p).unwrap_or_else(|e| mcx::machinery_error(&format!("cannot read replay file {}: {e}", p.display())));
    let v: Value = mcx::serde_json::from_str(&s).unwrap_or_else(|e| mcx::machinery_error(&format!("replay file {} does not parse: {e}", p.display())));
    if v.get("property").and_then(|p| p.as_str()) != Some(args.prop.as_str()) {
        mcx::machinery_error(&format!("replay file {} is not for {}", p.display(), args.prop));
    }
    Some(v.get("replay").cloned().unwrap_or(Value::Null))
}

/// Keeps, per failure group (root cause: path × broken clause), only the minimal failing input
/// (shortest, then lexicographically smallest), so the set of violation keys stays small and
/// stable. `flush` turns every group into one violation keyed `"<group> [min <label>]"`.
#[derive(Default)]
pub struct MinCases {
    groups: std::collections::BTreeMap<String, (Vec<u8>, String, String, Value, u64)>,
}

impl MinCases {
    /// `order` decides minimality (compared lexicographically: put the important dimensions first); `label` is what is shown in the key.
    pub fn offer(&mut self, group: &str, order: &[u8], label: impl FnOnce() -> String, desc: impl FnOnce() -> String, replay: impl FnOnce() -> Value) {
        match self.groups.get_mut(group) {
            Some(cur) => {
                cur.4 += 1;
                if order < cur.0.as_slice() {
                    *cur = (order.to_vec(), label(), desc(), replay(), cur.4);
                }
            }
            None => {
                self.groups.insert(group.to_string(), (order.to_vec(), label(), desc(), replay(), 1));
            }
        }
    }
    pub fn merge(&mut self, other: MinCases) {
        for (g, v) in other.groups {
            match self.groups.get_mut(&g) {
                Some(cur) => {
                    let n = cur.4 + v.4;
                    if v.0 < cur.0 {
                        *cur = v;
                    }
                    cur.4 = n;
                }
                None => {
                    self.groups.insert(g, v);
                }
            }
        }
    }
    pub fn flush(self, rep: &mut mcx::Report) {
        for (g, (_, label, desc, replay, n)) in self.groups {
            rep.count("failing_cases", n);
            rep.violation(format!("{g} [min {label}]"), format!("{desc} ({n} failing cases in this group; this is the minimal one)"), replay);
        }
    }
}
