//! Child role: run the scenarios of one model under loom and print one result line.
//!
//! Arguments (all `--key value`, collected by `mcx::parse_args` into `extra`):
//!   --child <model>        model name known to the generated crate
//!   --crate afc|arcstr     which generated crate holds the model
//!   --params a,b,c         integer parameters of the model
//!   --bound none|N         preemption bound
//!   --cap S                wall-clock budget in seconds (graceful: reported as not completed)
//!   --max-branches N       loom's per-execution branch limit
//!   --only-scenario I      run only scenario number I
//!   --ckpt-at N --ckpt-file F   store loom's execution path right before iteration N into F
//!   --trace 1              replay from `--ckpt-file` with loom's schedule log switched on
//!
//! stdout: `LOOMCHECK-RESULT {json}` when every scheduled execution finished without a panic.
//! stderr: on the first panic, `LOOMCHECK-PANIC {json}` followed by the usual panic report.

use std::{
    collections::BTreeMap,
    sync::{
        atomic::{AtomicBool, Ordering},
        Arc,
    },
    time::{Duration, Instant},
};

use mcx::{json, Args, Value};

type Body = Arc<dyn Fn() + Send + Sync + 'static>;

struct Snap {
    iterations: u64,
    scenario_iterations: u64,
    ops: u64,
    counters: BTreeMap<String, u64>,
    outcomes: BTreeMap<String, u64>,
}

struct Suite {
    scenarios: Vec<(String, Body)>,
    begin_scenario: fn(&str),
    begin_iteration: fn(),
    snapshot: fn() -> Snap,
    events: fn() -> Vec<String>,
}

fn afc_suite(model: &str, params: &[i64]) -> Option<Suite> {
    use aranya_fast_channels_loom::verif_harness as h;
    let sc = h::scenarios(model, params)?;
    fn snap() -> Snap {
        let s = aranya_fast_channels_loom::verif_harness::stats::snapshot();
        Snap {
            iterations: s.iterations,
            scenario_iterations: s.scenario_iterations,
            ops: s.ops,
            counters: s.counters,
            outcomes: s.outcomes,
        }
    }
    Some(Suite {
        scenarios: sc.into_iter().map(|s| (s.name, s.body)).collect(),
        begin_scenario: h::stats::begin_scenario,
        begin_iteration: h::stats::begin_iteration,
        snapshot: snap,
        events: h::stats::events,
    })
}

fn arcstr_suite(model: &str, params: &[i64]) -> Option<Suite> {
    let sc = arcstr_loom::models::scenarios(model, params)?;
    fn snap() -> Snap {
        let s = arcstr_loom::stats::snapshot();
        Snap {
            iterations: s.iterations,
            scenario_iterations: s.scenario_iterations,
            ops: s.ops,
            counters: s.counters,
            outcomes: s.outcomes,
        }
    }
    Some(Suite {
        scenarios: sc.into_iter().map(|s| (s.name, s.body)).collect(),
        begin_scenario: arcstr_loom::stats::begin_scenario,
        begin_iteration: arcstr_loom::stats::begin_iteration,
        snapshot: snap,
        events: arcstr_loom::stats::events,
    })
}

fn panic_message(info: &std::panic::PanicHookInfo<'_>) -> String {
    if let Some(s) = info.payload().downcast_ref::<&str>() {
        s.to_string()
    } else if let Some(s) = info.payload().downcast_ref::<String>() {
        s.clone()
    } else {
        "non-string panic".to_string()
    }
}

pub fn run(args: &Args, model: &str) -> ! {
    let get = |k: &str| args.extra.get(k).cloned();
    let params: Vec<i64> = get("params")
        .unwrap_or_default()
        .split(',')
        .filter(|s| !s.is_empty())
        .map(|s| s.parse().unwrap_or_else(|_| mcx::machinery_error("bad --params")))
        .collect();
    let bound: Option<usize> = match get("bound").as_deref() {
        None | Some("none") => None,
        Some(n) => Some(n.parse().unwrap_or_else(|_| mcx::machinery_error("bad --bound"))),
    };
    let cap = Duration::from_secs(get("cap").and_then(|s| s.parse().ok()).unwrap_or(3600));
    let max_branches: usize = get("max-branches").and_then(|s| s.parse().ok()).unwrap_or(20_000);
    let only: Option<usize> = get("only-scenario").and_then(|s| s.parse().ok());
    let ckpt_at: Option<usize> = get("ckpt-at").and_then(|s| s.parse().ok());
    let ckpt_file = get("ckpt-file");
    let trace = get("trace").is_some();

    let suite = match get("crate").as_deref() {
        Some("afc") => afc_suite(model, &params),
        Some("arcstr") => arcstr_suite(model, &params),
        _ => mcx::machinery_error("--crate afc|arcstr required"),
    }
    .unwrap_or_else(|| mcx::machinery_error(&format!("unknown model {model}")));

    // First panic: say where we are (scenario, iteration), then the normal report.
    let current: Arc<std::sync::Mutex<(usize, String)>> = Arc::new(std::sync::Mutex::new((0, String::new())));
    let snapshot = suite.snapshot;
    let events = suite.events;
    {
        let current = current.clone();
        let first = AtomicBool::new(true);
        let default_hook = std::panic::take_hook();
        std::panic::set_hook(Box::new(move |info| {
            if first.swap(false, Ordering::SeqCst) {
                let (idx, name) = current.lock().unwrap_or_else(|e| e.into_inner()).clone();
                let s = snapshot();
                let loc = info.location().map(|l| format!("{}:{}", l.file(), l.line())).unwrap_or_default();
                eprintln!(
                    "LOOMCHECK-PANIC {}",
                    json!({"scenario_index": idx, "scenario": name, "iter": s.scenario_iterations,
                           "message": panic_message(info), "location": loc, "events": events()})
                );
            }
            // real-shm mode: do not leave the object behind
            let _ = std::fs::remove_file(format!("/dev/shm/loomck-{}", std::process::id()));
            default_hook(info);
        }));
    }

    let start = Instant::now();
    let total = suite.scenarios.len();
    let mut done = 0usize;
    let mut completed = true;
    let mut names: Vec<Value> = Vec::new();
    let mut per_scenario_max: u64 = 0;
    for (idx, (name, body)) in suite.scenarios.iter().enumerate() {
        if only.is_some_and(|o| o != idx) {
            continue;
        }
        let remaining = cap.saturating_sub(start.elapsed());
        if remaining.is_zero() {
            completed = false;
            break;
        }
        *current.lock().unwrap() = (idx, name.clone());
        (suite.begin_scenario)(name);
        let body = body.clone();
        let begin_iteration = suite.begin_iteration;
        let f = move || {
            begin_iteration();
            if trace && snapshot().scenario_iterations > 1 {
                println!("LOOMCHECK-TRACE the recorded execution completed without a failure");
                std::process::exit(3);
            }
            body();
        };
        if trace {
            // configuration comes from the LOOM_* environment set by the parent; `loom::model`
            // installs the log subscriber
            loom::model(f);
        } else {
            let mut b = loom::model::Builder::new();
            b.max_threads = loom::MAX_THREADS;
            b.preemption_bound = bound;
            b.max_branches = max_branches;
            b.max_duration = Some(remaining);
            b.checkpoint_interval = ckpt_at.unwrap_or(200);
            b.checkpoint_file = ckpt_file.clone().map(Into::into);
            b.max_permutations = None;
            b.log = false;
            b.location = false;
            let interval = b.checkpoint_interval as u64;
            let t0 = Instant::now();
            b.check(f);
            let it = snapshot().scenario_iterations;
            per_scenario_max = per_scenario_max.max(it);
            // `check` returns silently when max_duration passes (tested every `interval`
            // iterations, before running iteration i): tell that apart from completion.
            if ckpt_at.is_none() && t0.elapsed() >= remaining && (it + 1) % interval == 0 {
                completed = false;
                break;
            }
        }
        done += 1;
        if names.len() < 4 {
            names.push(json!(name));
        }
    }
    let s = snapshot();
    println!(
        "LOOMCHECK-RESULT {}",
        json!({
            "model": model, "params": params, "bound": bound, "completed": completed,
            "scenarios_total": if only.is_some() { 1 } else { total }, "scenarios_done": done,
            "iterations": s.iterations, "ops": s.ops, "max_iterations_one_scenario": per_scenario_max,
            "counters": s.counters, "outcomes": s.outcomes, "scenario_names": names,
            "wall_s": start.elapsed().as_secs_f64(),
        })
    );
    std::process::exit(0)
}
