//! loom-check: C33, C40–C44 — loom (exhaustive DPOR exploration of thread interleavings with a
//! preemption bound) over check-time copies of the repository's code (DESIGN.md 4.6).
//!
//! One binary, two roles:
//! * parent (`--prop Cxx --tier T`): plans the loom models of the property, runs each in a child
//!   process (a failing loom execution may abort the process), folds the results into one
//!   `mcx::Report`;
//! * child (`--child <model> …`): runs the scenarios of one model under `loom::model::Builder`.
mod child;
mod props;
mod runner;
mod shmemu;
mod stackpool;

fn main() {
    let args = mcx::parse_args();
    if let Some(model) = args.extra.get("child") {
        if std::env::var_os("LOOMCHECK_REAL_SHM").is_none() {
            shmemu::enable();
        }
        child::run(&args, &model.clone());
    }
    if args.replay.is_some() {
        runner::replay(&args);
    }
    match args.prop.as_str() {
        "C40" => props::c40(&args),
        "C41" => props::c41(&args),
        "C42" => props::c42(&args),
        "C43" => props::c43(&args),
        "C44" => props::c44(&args),
        "C33" => props::c33(&args),
        p => mcx::machinery_error(&format!("loom-check does not serve {p}")),
    }
}
