//! Per-property plans: which loom models, parameters and preemption bounds make up a check.

use mcx::{Args, Level, Report, Tier};

use crate::runner::{fold, run_jobs, Job};

const PARALLEL: usize = 6;

fn bounds(list: &[usize], unbounded: bool) -> Vec<Option<usize>> {
    let mut v: Vec<Option<usize>> = list.iter().map(|b| Some(*b)).collect();
    if unbounded {
        v.push(None);
    }
    v
}

/// Vacuity guards. A failing child reports no counters, so the guards only apply to a run
/// without violations (a violation is a verdict already).
fn guards(rep: &mut Report, counters: &[&str]) {
    if rep.violations().is_empty() {
        for c in counters {
            rep.require_nonzero(c);
        }
    }
}

pub fn c43(args: &Args) -> ! {
    let mut rep = Report::new(args, Level::ModelChecking);
    let quick = args.tier == Tier::Quick;
    let mut jobs = Vec::new();
    // (lockers, rounds, spurious waker, bounds, unbounded?, cap)
    let plan: Vec<(i64, i64, i64, Vec<usize>, bool, u64)> = if quick {
        vec![
            (2, 1, 0, vec![0, 1, 2, 3], true, 30),
            (2, 1, 1, vec![0, 1, 2, 3], true, 30),
            (2, 2, 0, vec![0, 1, 2, 3], false, 30),
            (2, 2, 1, vec![0, 1, 2, 3, 4], false, 30),
            (2, 3, 0, vec![0, 1, 2, 3], false, 30),
            (3, 1, 0, vec![0, 1, 2, 3], false, 30),
            (3, 1, 1, vec![0, 1, 2], false, 30),
            (3, 2, 0, vec![0, 1, 2], false, 30),
            (4, 1, 0, vec![0, 1, 2], false, 30),
        ]
    } else {
        vec![
            (2, 1, 0, vec![0, 1, 2, 3], true, 60),
            (2, 1, 1, vec![0, 1, 2, 3], true, 60),
            (2, 2, 0, vec![0, 1, 2, 3, 4], true, 700),
            (2, 2, 1, vec![0, 1, 2, 3, 4, 5, 6], false, 700),
            (2, 3, 0, vec![0, 1, 2, 3, 4, 5], false, 700),
            (3, 1, 0, vec![0, 1, 2, 3, 4, 5, 6], false, 700),
            (3, 1, 1, vec![0, 1, 2, 3, 4], false, 700),
            (3, 2, 0, vec![0, 1, 2, 3], false, 700),
            (4, 1, 0, vec![0, 1, 2, 3], false, 700),
        ]
    };
    for (t, r, s, bs, unb, cap) in plan {
        for b in bounds(&bs, unb) {
            let shape = format!("futex mutex: {t} lockers x {r} rounds{}", if s != 0 { " + unsolicited FUTEX_WAKE thread" } else { "" });
            jobs.push(Job::new("afc", "c43", &[t, r, s], b, cap, &shape));
        }
    }
    let results = run_jobs(&args.prop, &jobs, PARALLEL);
    fold(&mut rep, &args.prop, results);
    // vacuity guards: the slow path (sleep + wake) and the lost-wake-up window must be exercised
    guards(&mut rep, &["futex_wait_blocked", "futex_wait_woken", "futex_wait_eagain", "futex_wake_woke_sleeper", "futex_wake_nobody_waiting", "unsolicited_wake_hit_a_sleeper"]);
    rep.assume("futex(2) model: FUTEX_WAIT compares and enqueues atomically w.r.t. FUTEX_WAKE on the same word; FUTEX_WAKE wakes at most n currently enqueued waiters and is otherwise lost; spurious returns are modelled by one unsolicited FUTEX_WAKE issued at an arbitrary point");
    rep.assume("loom explores the C11 memory model with bounded atomic history; sched_yield is a scheduling hint (loom yield)");
    rep.assume("fairness: an execution in which a thread spins forever while another could run is cut by loom's yield handling, not reported");
    rep.finish()
}

pub fn c40(args: &Args) -> ! {
    let mut rep = Report::new(args, Level::ModelChecking);
    let quick = args.tier == Tier::Quick;
    let mut jobs = Vec::new();
    let bname = |b: i64| if b == 0 { "shm" } else { "memory" };
    // (backend, family, max length, bounds, unbounded, shards, cap)
    let plan: Vec<(i64, i64, i64, Vec<usize>, bool, i64, u64)> = if quick {
        vec![
            (0, 0, 5, vec![], true, 2, 30),
            (1, 0, 5, vec![], true, 2, 30),
            (0, 1, 2, vec![0, 1, 2, 3, 4], false, 1, 30),
            (1, 1, 2, vec![], true, 1, 30),
            (1, 2, 2, vec![], true, 1, 30),
        ]
    } else {
        vec![
            (0, 0, 6, vec![], true, 4, 700),
            (1, 0, 6, vec![], true, 4, 700),
            (0, 1, 2, vec![0, 1, 2, 3, 4, 5], false, 1, 700),
            (0, 1, 2, vec![6], false, 6, 700),
            (0, 1, 3, vec![0, 1, 2, 3, 4], false, 4, 700),
            (1, 1, 3, vec![], true, 1, 700),
            (1, 2, 3, vec![], true, 1, 700),
        ]
    };
    for (backend, family, len, bs, unb, shards, cap) in plan {
        for b in bounds(&bs, unb) {
            for sh in 0..shards {
                let shape = match family {
                    0 => format!("{} state, sequential: one seal context, every sequence of length <= {len} (with at least one seal) over {{seal, seal whose closure fails, writer adds another channel, writer removes another channel, remove_all + re-add}}; shard {sh}/{shards}", bname(backend)),
                    1 => format!("{} state: sealer thread runs seal,seal,seal | seal,failing seal,seal while the writer runs every sequence of length <= {len} over {{add other, remove other}}; shard {sh}/{shards}", bname(backend)),
                    _ => format!("memory state: two threads race setup_seal_ctx for one channel, 1..={len} seals each through the context they get"),
                };
                jobs.push(Job::new("afc", "c40", &[backend, family, len, sh, shards], b, cap, &shape));
            }
        }
    }
    let results = run_jobs(&args.prop, &jobs, PARALLEL);
    fold(&mut rep, &args.prop, results);
    guards(
        &mut rep,
        &["seal_ok", "failing_seal_reported", "seal_refused_on_dead_context", "writer_add_other", "writer_remove_other", "writer_clear_and_re_add", "setup_granted", "setup_refused_second_context", "futex_wait_blocked"],
    );
    rep.assume("a failing seal is a seal whose closure returns an error without using the key (driven through AfcState::seal); failures inside the AEAD itself are outside the explored space");
    rep.assume("POSIX shm object emulated in-process; futex(2) model keyed by the word's identity (as for C41/C43)");
    rep.assume("the shm state hands out one independent context per setup_seal_ctx call by design; 'no second live context' is only claimed (and checked) for the in-memory state");
    rep.finish()
}

pub fn c41(args: &Args) -> ! {
    let mut rep = Report::new(args, Level::ModelChecking);
    let quick = args.tier == Tier::Quick;
    let mut jobs = Vec::new();
    let bname = |b: i64| if b == 0 { "shm" } else { "memory" };
    // strict sequential family (24 scenarios per state; scenario i is a seal scenario iff i % 8 < 4).
    // The shm seal scenarios each run in a child of their own, so that the known error-kind
    // finding they all report cannot hide another scenario; the others are grouped.
    for i in (0..24).filter(|i| i % 8 < 4) {
        let shape = format!("shm state, sequential: removal, then two operations on the removed channel and one on the other; seal scenario {i}/24");
        jobs.push(Job::new("afc", "c41", &[0, 0, 0, i, 24], None, 30, &shape));
    }
    for sh in 4..8 {
        let shape = format!("shm state, sequential: removal, then two operations on the removed channel and one on the other; open scenarios, group {sh}/8");
        jobs.push(Job::new("afc", "c41", &[0, 0, 0, sh, 8], None, 30, &shape));
    }
    jobs.push(Job::new("afc", "c41", &[1, 0, 0, 0, 1], None, 30, "memory state, sequential: removal, then two operations on the removed channel and one on the other; all 24 scenarios"));
    // (backend, family, max program length, bounds, unbounded, shards, cap)
    let plan: Vec<(i64, i64, i64, Vec<usize>, bool, i64, u64)> = if quick {
        vec![
            (0, 1, 2, vec![0, 1, 2, 3], true, 1, 30),
            (0, 2, 1, vec![0, 1, 2, 3], false, 2, 30),
            (0, 3, 3, vec![2, 3], false, 4, 30),
            (1, 1, 2, vec![0, 1, 2, 3], true, 1, 30),
            (1, 2, 1, vec![0, 1, 2, 3], false, 2, 30),
            (1, 3, 3, vec![2, 3], false, 4, 30),
            (0, 4, 5, vec![], true, 1, 30),
            (1, 4, 5, vec![], true, 1, 30),
            (0, 5, 3, vec![2], false, 6, 30),
            (1, 5, 3, vec![1], false, 2, 30),
        ]
    } else {
        vec![
            (0, 1, 3, vec![0, 1, 2, 3], true, 4, 700),
            (0, 2, 1, vec![0, 1, 2, 3, 4], false, 6, 700),
            (0, 3, 3, vec![2, 3, 4], false, 8, 700),
            (1, 1, 3, vec![0, 1, 2, 3], true, 2, 700),
            (1, 2, 1, vec![0, 1, 2, 3, 4], false, 4, 700),
            (1, 3, 3, vec![2, 3, 4], true, 8, 700),
            (0, 14, 5, vec![], true, 4, 700),
            (1, 14, 5, vec![], true, 4, 700),
            (0, 4, 6, vec![], true, 4, 700),
            (1, 4, 6, vec![], true, 4, 700),
            (0, 5, 3, vec![2, 3], false, 8, 700),
            (1, 5, 3, vec![2, 3], false, 8, 700),
            (0, 15, 3, vec![2], false, 8, 700),
            (1, 15, 3, vec![2], false, 8, 700),
        ]
    };
    for (backend, family, len, bs, unb, shards, cap) in plan {
        for b in bounds(&bs, unb) {
            for sh in 0..shards {
                let shape = format!(
                    "{} state: writer runs remove(x) | remove_all | remove_if(id==x) while {} with cached contexts for x and y; channel orders x,y and y,x; seal and open channels; shard {sh}/{shards}",
                    bname(backend),
                    match family {
                        1 => format!("one reader runs every program over {{op(x), op(y)}} of length <= {len}"),
                        2 => "two readers run one or two operations".to_string(),
                        4 | 14 => format!("[script family, sequential] every script of length <= {len} over {{remove(never-added id), remove_if(nothing), remove(x), remove(y){}, reader op(x), reader op(y)}} that contains a removal of nothing or of an already-removed channel, a real removal and a later reader operation", if family == 14 { ", remove_if(id==x), remove_all" } else { "" }),
                        5 | 15 => format!("[script family] every writer script of length <= {len} over {{remove(never-added id), remove_if(nothing), remove(x), remove(y){}}} with a real removal and a removal of nothing / of an already-removed channel, against one reader running every program of length <= 3 that operates on one channel at least twice", if family == 15 { ", remove_if(id==x)" } else { "" }),
                        _ => format!("(followed by remove(y)) one reader runs every program of length <= {len} that operates on y at least twice"),
                    }
                );
                jobs.push(Job::new("afc", "c41", &[backend, family, len, sh, shards], b, cap, &shape));
            }
        }
    }
    let results = run_jobs(&args.prop, &jobs, PARALLEL);
    fold(&mut rep, &args.prop, results);
    guards(
        &mut rep,
        &[
            "removed_channel_op_not_found_judged",
            "removed_channel_op_not_found_unjudged",
            "removed_channel_op_ok_before_removal_visible",
            "kept_channel_op_ok",
            "futex_wait_blocked",
            "script_real_removal",
            "script_removal_of_nothing",
            "script_removal_of_already_removed_channel",
        ],
    );
    rep.assume("'starts after the removal has returned' is observed through a SeqCst flag written by the writer after the call returns and read by the reader immediately before its operation");
    rep.assume("the POSIX shm object is emulated in-process (one zero-initialised buffer aliased by all mappings; LOOMCHECK_REAL_SHM=1 runs on real objects with identical results, only slower); futex(2) model as for C43, keyed by the word's identity rather than its virtual address (shared futex)");
    rep.assume("one writer, at most two readers, two channels; removal predicates are deterministic");
    rep.finish()
}

pub fn c42(args: &Args) -> ! {
    let mut rep = Report::new(args, Level::ModelChecking);
    let quick = args.tier == Tier::Quick;
    let mut jobs = Vec::new();
    // (family, capacity, max writer sequence length, bounds, unbounded, shards, cap)
    let plan: Vec<(i64, i64, i64, Vec<usize>, bool, i64, u64)> = if quick {
        vec![
            (0, 2, 4, vec![], true, 1, 30),
            (0, 3, 4, vec![], true, 1, 30),
            (1, 3, 2, vec![0, 1, 2, 3], false, 1, 30),
            (1, 2, 2, vec![0, 1, 2, 3], false, 1, 30),
            (2, 3, 2, vec![0, 1, 2], false, 1, 30),
            (2, 3, 2, vec![3], false, 4, 30),
        ]
    } else {
        vec![
            (0, 2, 6, vec![], true, 8, 700),
            (0, 3, 6, vec![], true, 8, 700),
            (1, 3, 3, vec![0, 1, 2, 3, 4], false, 4, 700),
            (1, 2, 3, vec![0, 1, 2, 3, 4], false, 4, 700),
            (2, 3, 2, vec![0, 1, 2, 3], false, 4, 700),
            (2, 3, 2, vec![4], false, 12, 700),
        ]
    };
    for (family, cap_chans, len, bs, unb, shards, cap) in plan {
        for b in bounds(&bs, unb) {
            for sh in 0..shards {
                let shape = match family {
                    0 => format!("shm table of capacity {cap_chans}, sequential: every writer sequence of length <= {len} over {{add seal, add open, remove oldest, remove newest, remove missing, remove_if(even id), remove_if(nothing), remove_if(everything), remove_all}}, both copies and the offsets compared after every operation; shard {sh}/{shards}"),
                    1 => format!("shm table of capacity {cap_chans} holding 2 channels: every writer sequence of length <= {len} over {{add, remove oldest, remove_if(even id), remove_if(nothing), remove_all}} against one reader (consult twice | exists+consult | consult+exists); shard {sh}/{shards}"),
                    _ => format!("shm table of capacity {cap_chans} holding 2 channels: every writer sequence of length <= {len} over {{add, remove oldest, remove_if(even id), remove_if(nothing), remove_all}} against two readers (consult | exists); shard {sh}/{shards}"),
                };
                jobs.push(Job::new("afc", "c42", &[family, cap_chans, len, sh, shards], b, cap, &shape));
            }
        }
    }
    let results = run_jobs(&args.prop, &jobs, PARALLEL);
    fold(&mut rep, &args.prop, results);
    guards(
        &mut rep,
        &[
            "add_ok",
            "add_out_of_space",
            "remove_done",
            "remove_if_done",
            "remove_if_on_empty_table",
            "remove_if_matching_none_on_non_empty_table",
            "remove_if_matching_some",
            "remove_if_matching_all",
            "remove_all_done",
            "quiescent_points_checked",
            "tables_consulted",
            "exists_calls",
            "futex_wait_blocked",
        ],
    );
    rep.assume("a reader 'consults a table' by locking the list at read_off, exactly as seal/open/exists do; the harness reads the locked list through a child module of `shm`");
    rep.assume("POSIX shm object emulated in-process; futex(2) model keyed by the word's identity (as for C41/C43)");
    rep.assume("single writer; removal predicates are deterministic; channel-id counter overflow (2^64 adds) is outside the explored space");
    rep.finish()
}

pub fn c44(args: &Args) -> ! {
    let mut rep = Report::new(args, Level::ModelChecking);
    let quick = args.tier == Tier::Quick;
    let mut jobs = Vec::new();
    // (max lender program length, max holder program length, shards, cap)
    let plan: Vec<(i64, i64, i64, u64)> =
        if quick { vec![(3, 1, 1, 30), (3, 2, 4, 30)] } else { vec![(3, 2, 2, 700), (4, 2, 4, 700), (3, 3, 12, 700)] };
    for (ll, hl, shards, cap) in plan {
        for sh in 0..shards {
            let shape = format!(
                "lender/loan: lender programs over {{lend, read-shared}} of length <= {ll} (<= 2 lends) then drop; holder programs over {{get_mut, get_ref, judged get_ref}} of length <= {hl} then drop; shard {sh}/{shards}"
            );
            jobs.push(Job::new("afc", "c44", &[ll, hl, sh, shards], None, cap, &shape));
        }
    }
    let results = run_jobs(&args.prop, &jobs, PARALLEL);
    fold(&mut rep, &args.prop, results);
    guards(
        &mut rep,
        &["lend_granted", "lend_refused", "access_granted", "access_refused", "access_judged_after_lender_drop_returned", "executions_ending_with_payload_freed_once"],
    );
    rep.set("preemption_bound", "unbounded");
    rep.assume("BiArc allocates through Box: freeing is observed through the payload's Drop (exactly once, only after every handle announced its end of life) and loom's leak tracker, not through an instrumented allocator");
    rep.assume("'after the lender's drop has returned' is observed through a release/acquire flag, as any caller would have to");
    rep.finish()
}

pub fn c33(args: &Args) -> ! {
    let mut rep = Report::new(args, Level::ModelChecking);
    let quick = args.tier == Tier::Quick;
    let mut jobs = Vec::new();
    // (participants, max program length, send op allowed, bound, shards, cap)
    let plan: Vec<(i64, i64, i64, Option<usize>, i64, u64)> = if quick {
        vec![(2, 2, 0, None, 1, 30), (2, 3, 0, None, 4, 30), (2, 1, 1, None, 1, 30), (3, 1, 0, None, 2, 30)]
    } else {
        vec![
            (2, 3, 0, None, 2, 700),
            (3, 1, 0, None, 1, 700),
            (2, 2, 1, None, 12, 700),
            (2, 3, 1, Some(3), 12, 700),
            (3, 2, 0, Some(3), 12, 700),
        ]
    };
    for (parts, len, send, bound, shards, cap) in plan {
        for sh in 0..shards {
            let shape = format!(
                "ArcStr: {parts} participants, every valid program over {{clone, read, drop{}}} of length <= {len}; shard {sh}/{shards}",
                if send != 0 { ", send-clone-to-new-thread" } else { "" }
            );
            jobs.push(Job::new("arcstr", "c33", &[parts, len, send, sh, shards], bound, cap, &shape));
        }
    }
    let results = run_jobs(&args.prop, &jobs, PARALLEL);
    fold(&mut rep, &args.prop, results);
    guards(&mut rep, &["alloc", "dealloc", "executions_ending_with_storage_freed"]);
    rep.assume("the tracked read is inserted at the top of ArcStr::as_ref and the tracked write in the dealloc shim: the text bytes themselves are ordinary memory");
    rep.assume("reference-count overflow (more than isize::MAX clones) is outside the explored space");
    rep.finish()
}
