//! Per-property plans: which loom models, parameters and preemption bounds make up a check.

use mcx::{Args, Level, Report, Tier};

use crate::runner::{fold, run_jobs, Job};

const PARALLEL: usize = 6;

fn bounds(list: &[usize], unbounded: bool) -> Vec<Option<usize>> {
    let mut v: Vec<Option<usize>> = list.iter().map(|b| Some(*b)).collect();
    if unbounded {
        v.push(None);
    }
    v
}

/// Vacuity guards. A failing child reports no counters, so the guards only apply to a run
/// without violations (a violation is a verdict already).
fn guards(rep: &mut Report, counters: &[&str]) {
    if rep.violations().is_empty() {
        for c in counters {
            rep.require_nonzero(c);
        }
    }
}

pub fn c43(args: &Args) -> ! {
    let mut rep = Report::new(args, Level::ModelChecking);
    let quick = args.tier == Tier::Quick;
    let mut jobs = Vec::new();
    // (lockers, rounds, spurious waker, bounds, unbounded?, cap)
    let plan: Vec<(i64, i64, i64, Vec<usize>, bool, u64)> = if quick {
        vec![
            (2, 1, 0, vec![0, 1, 2, 3], true, 30),
            (2, 1, 1, vec![0, 1, 2, 3], true, 30),
            (2, 2, 0, vec![0, 1, 2, 3], false, 30),
            (3, 1, 0, vec![0, 1, 2, 3], false, 35),
            (3, 1, 1, vec![0, 1, 2], false, 35),
        ]
    } else {
        vec![
            (2, 1, 0, vec![0, 1, 2, 3], true, 60),
            (2, 1, 1, vec![0, 1, 2, 3], true, 60),
            (2, 2, 0, vec![0, 1, 2, 3, 4], true, 840),
            (2, 2, 1, vec![0, 1, 2, 3], false, 600),
            (3, 1, 0, vec![0, 1, 2, 3, 4], false, 840),
            (3, 1, 1, vec![0, 1, 2, 3], false, 600),
            (3, 2, 0, vec![0, 1, 2], false, 600),
        ]
    };
    for (t, r, s, bs, unb, cap) in plan {
        for b in bounds(&bs, unb) {
            let shape = format!("futex mutex: {t} lockers x {r} rounds{}", if s != 0 { " + unsolicited FUTEX_WAKE thread" } else { "" });
            jobs.push(Job::new("afc", "c43", &[t, r, s], b, cap, &shape));
        }
    }
    let results = run_jobs(&args.prop, &jobs, PARALLEL);
    fold(&mut rep, &args.prop, results);
    // vacuity guards: the slow path (sleep + wake) and the lost-wake-up window must be exercised
    guards(&mut rep, &["futex_wait_blocked", "futex_wait_woken", "futex_wait_eagain", "futex_wake_woke_sleeper", "futex_wake_nobody_waiting", "unsolicited_wake_hit_a_sleeper"]);
    rep.assume("futex(2) model: FUTEX_WAIT compares and enqueues atomically w.r.t. FUTEX_WAKE on the same word; FUTEX_WAKE wakes at most n currently enqueued waiters and is otherwise lost; spurious returns are modelled by one unsolicited FUTEX_WAKE issued at an arbitrary point");
    rep.assume("loom explores the C11 memory model with bounded atomic history; sched_yield is a scheduling hint (loom yield)");
    rep.assume("fairness: an execution in which a thread spins forever while another could run is cut by loom's yield handling, not reported");
    rep.finish()
}

pub fn c44(args: &Args) -> ! {
    let _ = args;
    mcx::machinery_error("C44 not wired yet")
}

pub fn c33(args: &Args) -> ! {
    let _ = args;
    mcx::machinery_error("C33 not wired yet")
}
