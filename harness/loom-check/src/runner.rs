//! Parent role: run loom models in child processes and fold the results into a `mcx::Report`.

use std::{collections::BTreeMap, time::Duration};

use mcx::{
    child::ChildOutcome,
    json,
    Args, Report, Value,
};

/// One child run: one model × parameters × preemption bound.
#[derive(Clone, Debug)]
pub struct Job {
    pub krate: &'static str,
    pub model: &'static str,
    pub params: Vec<i64>,
    /// `None` = unbounded
    pub bound: Option<usize>,
    /// graceful wall cap handed to the child (seconds)
    pub cap_s: u64,
    pub max_branches: usize,
    /// human description of the shape (without the bound)
    pub shape: String,
}

impl Job {
    pub fn new(krate: &'static str, model: &'static str, params: &[i64], bound: Option<usize>, cap_s: u64, shape: &str) -> Self {
        Job { krate, model, params: params.to_vec(), bound, cap_s, max_branches: 20_000, shape: shape.to_string() }
    }
    fn bound_str(&self) -> String {
        self.bound.map(|b| b.to_string()).unwrap_or_else(|| "none".into())
    }
    fn base_args(&self, prop: &str) -> Vec<String> {
        let p: Vec<String> = self.params.iter().map(|x| x.to_string()).collect();
        vec![
            "--prop".into(), prop.into(),
            "--child".into(), self.model.into(),
            "--crate".into(), self.krate.into(),
            "--params".into(), p.join(","),
            "--bound".into(), self.bound_str(),
            "--max-branches".into(), self.max_branches.to_string(),
        ]
    }
}

#[derive(Clone, Debug)]
pub struct Failure {
    pub scenario_index: u64,
    pub scenario: String,
    pub iter: u64,
    pub message: String,
    pub location: String,
    pub stderr_excerpt: String,
    pub signal: Option<i32>,
    /// the failing execution in the model's own terms (harness-level steps, in order)
    pub events: Vec<String>,
}

#[derive(Debug)]
pub struct JobResult {
    pub job: Job,
    pub completed: bool,
    pub timed_out_hard: bool,
    pub iterations: u64,
    pub ops: u64,
    pub scenarios_total: u64,
    pub scenarios_done: u64,
    pub max_iterations_one_scenario: u64,
    pub counters: BTreeMap<String, u64>,
    pub outcomes: BTreeMap<String, u64>,
    pub scenario_names: Vec<String>,
    pub wall_s: f64,
    pub failure: Option<Failure>,
}

fn tail(s: &str, lines: usize) -> String {
    let v: Vec<&str> = s.lines().collect();
    v[v.len().saturating_sub(lines)..].join("\n")
}

fn head(s: &str, lines: usize) -> String {
    s.lines().take(lines).collect::<Vec<_>>().join("\n")
}

fn find_tagged(text: &str, tag: &str) -> Option<Value> {
    text.lines()
        .find_map(|l| l.strip_prefix(tag))
        .and_then(|j| mcx::serde_json::from_str::<Value>(j.trim()).ok())
}

fn parse_failure(out: &ChildOutcome) -> Failure {
    let v = find_tagged(&out.stderr, "LOOMCHECK-PANIC ");
    let g = |k: &str| v.as_ref().and_then(|v| v.get(k)).cloned().unwrap_or(Value::Null);
    let message = g("message").as_str().map(|s| s.to_string()).unwrap_or_else(|| {
        // no panic record: the process died some other way (signal from the allocator, …)
        format!("child died without a panic record (exit code {:?}, signal {:?})", out.code, out.signal)
    });
    Failure {
        scenario_index: g("scenario_index").as_u64().unwrap_or(0),
        scenario: g("scenario").as_str().unwrap_or("").to_string(),
        iter: g("iter").as_u64().unwrap_or(0),
        message,
        location: g("location").as_str().unwrap_or("").to_string(),
        stderr_excerpt: head(
            &out.stderr.lines().filter(|l| !l.starts_with("LOOMCHECK-PANIC ")).collect::<Vec<_>>().join("\n"),
            40,
        ),
        signal: out.signal,
        events: g("events")
            .as_array()
            .map(|a| a.iter().filter_map(|x| x.as_str().map(|s| s.to_string())).collect())
            .unwrap_or_default(),
    }
}

fn quiet_env() -> Vec<(String, String)> {
    vec![("RUST_BACKTRACE".into(), "0".into())]
}

fn u64map(v: Option<&Value>) -> BTreeMap<String, u64> {
    v.and_then(|m| m.as_object())
        .map(|m| m.iter().map(|(k, v)| (k.clone(), v.as_u64().unwrap_or(0))).collect())
        .unwrap_or_default()
}

pub fn run_job(prop: &str, job: &Job) -> JobResult {
    let mut a = job.base_args(prop);
    a.extend(["--cap".into(), job.cap_s.to_string()]);
    // hard limit: the graceful cap is tested every 200 executions only
    let out = mcx::child::run_self(&a, &quiet_env(), Duration::from_secs(job.cap_s + 20));
    let mut r = JobResult {
        job: job.clone(),
        completed: false,
        timed_out_hard: out.timed_out,
        iterations: 0,
        ops: 0,
        scenarios_total: 0,
        scenarios_done: 0,
        max_iterations_one_scenario: 0,
        counters: BTreeMap::new(),
        outcomes: BTreeMap::new(),
        scenario_names: Vec::new(),
        wall_s: out.wall.as_secs_f64(),
        failure: None,
    };
    if out.timed_out {
        return r;
    }
    if out.code == Some(2) {
        mcx::machinery_error(&format!("child for {} failed: {}", job.shape, tail(&out.stderr, 10)));
    }
    if !out.clean() {
        r.failure = Some(parse_failure(&out));
        return r;
    }
    let Some(v) = find_tagged(&out.stdout, "LOOMCHECK-RESULT ") else {
        mcx::machinery_error(&format!("child for {} exited 0 without a result line", job.shape));
    };
    r.completed = v["completed"].as_bool().unwrap_or(false);
    r.iterations = v["iterations"].as_u64().unwrap_or(0);
    r.ops = v["ops"].as_u64().unwrap_or(0);
    r.scenarios_total = v["scenarios_total"].as_u64().unwrap_or(0);
    r.scenarios_done = v["scenarios_done"].as_u64().unwrap_or(0);
    r.max_iterations_one_scenario = v["max_iterations_one_scenario"].as_u64().unwrap_or(0);
    r.counters = u64map(v.get("counters"));
    r.outcomes = u64map(v.get("outcomes"));
    r.scenario_names = v["scenario_names"]
        .as_array()
        .map(|a| a.iter().filter_map(|x| x.as_str().map(|s| s.to_string())).collect())
        .unwrap_or_default();
    r
}

/// Run the jobs on a bounded pool (every child is single-threaded; other checkers share the
/// machine, so the pool stays well below the core count). Jobs are started in order of
/// decreasing preemption bound (the expensive ones first); results keep the plan's order.
pub fn run_jobs(prop: &str, jobs: &[Job], parallel: usize) -> Vec<JobResult> {
    let mut order: Vec<usize> = (0..jobs.len()).collect();
    order.sort_by_key(|i| std::cmp::Reverse(jobs[*i].bound.unwrap_or(usize::MAX)));
    let next = std::sync::atomic::AtomicUsize::new(0);
    let slots: Vec<std::sync::Mutex<Option<JobResult>>> = jobs.iter().map(|_| std::sync::Mutex::new(None)).collect();
    std::thread::scope(|s| {
        for _ in 0..parallel.max(1).min(jobs.len().max(1)) {
            s.spawn(|| loop {
                let k = next.fetch_add(1, std::sync::atomic::Ordering::SeqCst);
                let Some(&i) = order.get(k) else { break };
                let r = run_job(prop, &jobs[i]);
                *slots[i].lock().unwrap() = Some(r);
            });
        }
    });
    slots.into_iter().map(|m| m.into_inner().unwrap().expect("job result")).collect()
}

/// Addresses and other long numbers vary from process to process: `0x…` and digit runs of six
/// or more become `#`.
fn normalize(s: &str) -> String {
    let b: Vec<char> = s.chars().collect();
    let mut out = String::new();
    let mut i = 0;
    while i < b.len() {
        if b[i] == '0' && b.get(i + 1) == Some(&'x') {
            i += 2;
            while i < b.len() && b[i].is_ascii_hexdigit() {
                i += 1;
            }
            out.push('#');
        } else if b[i].is_ascii_digit() {
            let j = (i..b.len()).find(|k| !b[*k].is_ascii_digit()).unwrap_or(b.len());
            if j - i >= 6 {
                out.push('#');
            } else {
                out.extend(&b[i..j]);
            }
            i = j;
        } else {
            out.push(b[i]);
            i += 1;
        }
    }
    out
}

/// Stable key of a failure: shape of the model + first line of the message, with the parts that
/// vary with the schedule (thread lists, addresses) cut off.
pub fn failure_key(job: &Job, f: &Failure) -> String {
    // an oracle may name its own key (a finding that shows in many scenarios alike)
    if let Some(i) = f.message.find("[key: ") {
        if let Some(j) = f.message[i..].find(']') {
            return f.message[i + 6..i + j].to_string();
        }
    }
    let mut first = f.message.lines().next().unwrap_or("").trim().to_string();
    if let Some(rest) = first.strip_prefix("ORACLE: ") {
        first = rest.to_string();
    }
    if first.starts_with("deadlock") {
        first = "loom: deadlock (a thread blocks forever)".into();
    }
    first = normalize(&first);
    let scen = if f.scenario.is_empty() { job.shape.clone() } else { f.scenario.clone() };
    format!("{scen}: {}", first.trim())
}

/// Re-run a failing job twice more: (1) up to the failing iteration, storing loom's execution
/// path right before it — the failure must reproduce identically; (2) from that path with
/// loom's schedule log on. Returns the replay record.
fn investigate(prop: &str, job: &Job, f: &Failure) -> Value {
    let scratch = mcx::Scratch::new("loomck");
    let ck = scratch.path().join("checkpoint.json");
    let mut rec = json!({
        "crate": job.krate, "model": job.model, "params": job.params, "bound": job.bound,
        "max_branches": job.max_branches, "scenario_index": f.scenario_index, "scenario": f.scenario,
        "failing_iteration": f.iter, "message": f.message, "panic_location": f.location,
        "stderr_excerpt": f.stderr_excerpt, "signal": f.signal,
        "failing_schedule": f.events,
    });
    if f.iter == 0 {
        rec["note"] = json!("no panic record: schedule not recovered");
        return rec;
    }
    let mut a = job.base_args(prop);
    a.extend([
        "--only-scenario".into(), f.scenario_index.to_string(),
        "--ckpt-at".into(), f.iter.to_string(),
        "--ckpt-file".into(), ck.display().to_string(),
    ]);
    let again = mcx::child::run_self(&a, &quiet_env(), Duration::from_secs(job.cap_s + 120));
    if again.clean() || again.timed_out {
        mcx::machinery_error(&format!(
            "failure of {} did not reproduce on re-run (nondeterminism in the harness): {}",
            job.shape, f.message
        ));
    }
    let f2 = parse_failure(&again);
    if normalize(&f2.message) != normalize(&f.message) || f2.iter != f.iter {
        mcx::machinery_error(&format!(
            "failure of {} reproduced differently (iter {} vs {}, '{}' vs '{}')",
            job.shape, f.iter, f2.iter, f.message, f2.message
        ));
    }
    rec["reproduced_identically"] = json!(true);
    let Ok(ckpt) = std::fs::read_to_string(&ck) else {
        rec["note"] = json!("checkpoint file was not written");
        return rec;
    };
    rec["loom_checkpoint"] = mcx::serde_json::from_str::<Value>(&ckpt).unwrap_or(Value::Null);
    let (trace, _) = trace_from_checkpoint(prop, job, f.scenario_index, &ck);
    rec["schedule_trace_tail"] = json!(trace);
    rec
}

/// Run the child from a stored execution path with loom's log on; returns (trace tail, outcome).
fn trace_from_checkpoint(prop: &str, job: &Job, scenario_index: u64, ck: &std::path::Path) -> (Vec<String>, ChildOutcome) {
    let mut a = job.base_args(prop);
    a.extend([
        "--only-scenario".into(), scenario_index.to_string(),
        "--trace".into(), "1".into(),
    ]);
    let mut env: Vec<(String, String)> = vec![
        ("LOOM_CHECKPOINT_FILE".into(), ck.display().to_string()),
        ("LOOM_CHECKPOINT_INTERVAL".into(), "1000000000".into()),
        ("LOOM_LOG".into(), "loom=trace".into()),
        ("LOOM_LOCATION".into(), "1".into()),
        ("LOOM_MAX_BRANCHES".into(), job.max_branches.to_string()),
        ("NO_COLOR".into(), "1".into()),
        ("RUST_BACKTRACE".into(), "0".into()),
    ];
    if let Some(b) = job.bound {
        env.push(("LOOM_MAX_PREEMPTIONS".into(), b.to_string()));
    }
    let out = mcx::child::run_self(&a, &env, Duration::from_secs(120));
    let lines: Vec<String> = out
        .stdout
        .lines()
        .map(strip_ansi)
        .filter(|l| !l.trim().is_empty())
        .collect();
    let keep = 160;
    let t = lines[lines.len().saturating_sub(keep)..].to_vec();
    (t, out)
}

fn strip_ansi(s: &str) -> String {
    let mut out = String::new();
    let mut it = s.chars().peekable();
    while let Some(c) = it.next() {
        if c == '\u{1b}' {
            for d in it.by_ref() {
                if d.is_ascii_alphabetic() {
                    break;
                }
            }
        } else {
            out.push(c);
        }
    }
    out
}

/// Fold job results into the report. Per shape, only the failure at the smallest bound becomes
/// the violation (the minimal schedule).
pub fn fold(rep: &mut Report, prop: &str, results: Vec<JobResult>) {
    let mut runs = Vec::new();
    let mut exhaustive = true;
    let mut caps = Vec::new();
    let mut states = 0u64;
    let mut transitions = 0u64;
    let mut max_unbounded: Vec<String> = Vec::new();
    let mut failing: BTreeMap<String, (&JobResult, &Failure)> = BTreeMap::new();
    for r in &results {
        states += r.iterations;
        transitions += r.ops;
        for (k, v) in &r.counters {
            rep.count(k, *v);
        }
        for (k, v) in &r.outcomes {
            rep.outcome(k, *v);
        }
        if !r.completed && r.failure.is_none() {
            exhaustive = false;
            caps.push(json!({"shape": r.job.shape, "bound": r.job.bound, "cap_s": r.job.cap_s,
                             "hard_timeout": r.timed_out_hard, "iterations_before_cap": r.iterations}));
        }
        if r.completed && r.job.bound.is_none() {
            max_unbounded.push(r.job.shape.clone());
        }
        if let Some(f) = &r.failure {
            let k = failure_key(&r.job, f);
            let better = match failing.get(&k) {
                None => true,
                Some((old, _)) => r.job.bound.unwrap_or(usize::MAX) < old.job.bound.unwrap_or(usize::MAX),
            };
            if better {
                failing.insert(k, (r, f));
            }
        }
        runs.push(json!({
            "shape": r.job.shape, "model": r.job.model, "params": r.job.params,
            "preemption_bound": r.job.bound.map(|b| json!(b)).unwrap_or(json!("unbounded")),
            "scenarios": r.scenarios_done, "scenarios_total": r.scenarios_total,
            "iterations": r.iterations, "ops": r.ops, "completed": r.completed,
            "failed": r.failure.is_some(), "wall_s": (r.wall_s * 100.0).round() / 100.0,
        }));
        for n in r.scenario_names.iter().take(1) {
            rep.sample(json!({"scenario": n, "preemption_bound": r.job.bound, "iterations_of_run": r.iterations}));
        }
    }
    rep.count("loom_iterations", states);
    rep.set("states", states);
    rep.set("transitions", transitions);
    rep.set("traces_validated_against_impl", states);
    rep.set("exhaustive", exhaustive);
    rep.set("runs", Value::Array(runs));
    rep.set("shapes_completed_unbounded", json!(max_unbounded));
    if !caps.is_empty() {
        rep.set("cap_hit", Value::Array(caps));
    }
    if let Ok(s) = std::fs::read_to_string(concat!(env!("CARGO_MANIFEST_DIR"), "/gen/meta/rewrite-summary.json")) {
        if let Ok(v) = mcx::serde_json::from_str::<Value>(&s) {
            rep.set("source_root", v["source_root"].clone());
            rep.set("rewrite_rules_applied", v["rules"].as_array().map(|a| a.len()).unwrap_or(0) as u64);
        }
    }
    // a few outcomes as samples, so a reader sees what an execution's result looks like
    for r in results.iter().take(3) {
        if let Some((o, n)) = r.outcomes.iter().next() {
            rep.sample(json!({"shape": r.job.shape, "outcome": o, "executions_with_it": n}));
        }
    }
    let fails: Vec<(String, Job, Failure)> =
        failing.into_iter().map(|(k, (r, f))| (k, r.job.clone(), f.clone())).collect();
    for (key, job, f) in fails.into_iter().take(4) {
        let replay = investigate(prop, &job, &f);
        let desc = format!(
            "loom model '{}' at preemption bound {} fails in execution {} of scenario '{}':\n{}\n(at {})\nfailing schedule (harness-level steps):\n  {}",
            job.shape,
            job.bound_str(),
            f.iter,
            f.scenario,
            head(&f.message, 12),
            f.location,
            f.events.join("\n  ")
        );
        rep.violation(key, desc, replay);
    }
}

/// `--replay FILE`: re-execute the recorded schedule (no exploration) with loom's log on.
pub fn replay(args: &Args) -> ! {
    let mut path = args.replay.clone().unwrap();
    // the driver runs us in the workspace directory: a relative path is meant relative to /verif
    if path.is_relative() && !path.exists() {
        path = args.verif_dir.join(&path);
    }
    let text = std::fs::read_to_string(&path)
        .unwrap_or_else(|e| mcx::machinery_error(&format!("cannot read {}: {e}", path.display())));
    let v: Value = mcx::serde_json::from_str(&text)
        .unwrap_or_else(|e| mcx::machinery_error(&format!("replay file does not parse: {e}")));
    let r = &v["replay"];
    let krate: &'static str = match r["crate"].as_str() {
        Some("afc") => "afc",
        Some("arcstr") => "arcstr",
        _ => mcx::machinery_error("replay file: crate missing"),
    };
    let model: &'static str = Box::leak(r["model"].as_str().unwrap_or("").to_string().into_boxed_str());
    let params: Vec<i64> = r["params"].as_array().map(|a| a.iter().filter_map(|x| x.as_i64()).collect()).unwrap_or_default();
    let mut job = Job::new(krate, model, &params, r["bound"].as_u64().map(|b| b as usize), 120, "replay");
    job.max_branches = r["max_branches"].as_u64().unwrap_or(20_000) as usize;
    if r["loom_checkpoint"].is_null() {
        mcx::machinery_error("replay file holds no loom checkpoint");
    }
    let scratch = mcx::Scratch::new("loomrp");
    let ck = scratch.path().join("checkpoint.json");
    std::fs::write(&ck, r["loom_checkpoint"].to_string()).unwrap_or_else(|e| mcx::machinery_error(&format!("{e}")));
    let (trace, out) = trace_from_checkpoint(&args.prop, &job, r["scenario_index"].as_u64().unwrap_or(0), &ck);
    for l in &trace {
        println!("{l}");
    }
    drop(scratch);
    if out.clean() || out.code == Some(3) {
        println!("replay of {}: the recorded execution no longer fails", path.display());
        std::process::exit(0);
    }
    let f = parse_failure(&out);
    println!("{}", f.stderr_excerpt);
    println!("failing schedule (harness-level steps):");
    for e in &f.events {
        println!("  {e}");
    }
    println!("VIOLATION property={} replay={}", args.prop, path.display());
    println!("  key: {}", v["key"].as_str().unwrap_or(""));
    println!("  {}", f.message.lines().next().unwrap_or(""));
    std::process::exit(1)
}
