//! In-process emulation of POSIX shared-memory objects for the shm models (C40–C42).
//!
//! The subject (`shm/posix.rs`, unchanged) creates its state with `shm_open` + `ftruncate` +
//! `mmap(MAP_SHARED)` and every execution of a loom model needs a fresh object. In this sandbox
//! one `munmap` costs about a millisecond, i.e. several milliseconds per explored execution.
//! This module interposes the libc entry points the subject uses and backs every object by one
//! zero-initialised buffer that all mappings of the object alias — which is what MAP_SHARED
//! means. Everything that is not one of our objects is passed to the kernel unchanged.
//! `LOOMCHECK_REAL_SHM=1` switches the emulation off (the models then run on real objects).
//!
//! Only the child role (single OS thread) ever reaches the emulated paths.

use std::sync::{
    atomic::{AtomicBool, Ordering},
    Mutex,
};

use libc::{c_char, c_int, c_void, off_t, size_t};

static ENABLED: AtomicBool = AtomicBool::new(false);

pub fn enable() {
    ENABLED.store(true, Ordering::SeqCst);
}

pub fn enabled() -> bool {
    ENABLED.load(Ordering::SeqCst)
}

const CAPACITY: usize = 1 << 20;
const MAX_OBJECTS: usize = 4;
const MAX_FDS: usize = 32;

#[derive(Clone, Copy)]
struct Object {
    name: [u8; 64],
    name_len: usize,
    buf: usize,
    size: usize,
    linked: bool,
}

#[derive(Clone, Copy)]
struct FdEntry {
    fd: c_int,
    obj: usize,
}

struct Table {
    objects: [Option<Object>; MAX_OBJECTS],
    fds: [Option<FdEntry>; MAX_FDS],
}

static TABLE: Mutex<Table> = Mutex::new(Table { objects: [None; MAX_OBJECTS], fds: [None; MAX_FDS] });

fn set_errno(e: c_int) {
    // SAFETY: errno slot of the calling thread.
    unsafe { *libc::__errno_location() = e };
}

unsafe fn name_bytes(name: *const c_char) -> ([u8; 64], usize) {
    let mut out = [0u8; 64];
    let mut n = 0;
    while n < 63 {
        let c = *name.add(n) as u8;
        if c == 0 {
            break;
        }
        out[n] = c;
        n += 1;
    }
    (out, n)
}

impl Table {
    fn find(&self, name: &[u8; 64], len: usize) -> Option<usize> {
        self.objects.iter().position(|o| o.is_some_and(|o| o.linked && o.name_len == len && o.name == *name))
    }
    fn obj_of_fd(&self, fd: c_int) -> Option<usize> {
        self.fds.iter().flatten().find(|e| e.fd == fd).map(|e| e.obj)
    }
}

/// # Safety
/// Same contract as shm_open(3).
#[no_mangle]
pub unsafe extern "C" fn shm_open(name: *const c_char, oflag: c_int, mode: libc::mode_t) -> c_int {
    if !enabled() {
        // what glibc does: open the file under /dev/shm
        let (nb, n) = name_bytes(name);
        let mut path = [0u8; 80];
        let prefix = b"/dev/shm";
        path[..prefix.len()].copy_from_slice(prefix);
        path[prefix.len()..prefix.len() + n].copy_from_slice(&nb[..n]);
        return libc::syscall(
            libc::SYS_openat,
            libc::AT_FDCWD,
            path.as_ptr(),
            oflag | libc::O_CLOEXEC | libc::O_NOFOLLOW,
            mode as c_int,
        ) as c_int;
    }
    let (nb, n) = name_bytes(name);
    let mut t = TABLE.lock().unwrap_or_else(|e| e.into_inner());
    let existing = t.find(&nb, n);
    let create = oflag & libc::O_CREAT != 0;
    let excl = oflag & libc::O_EXCL != 0;
    let idx = match (existing, create) {
        (Some(_), true) if excl => {
            set_errno(libc::EEXIST);
            return -1;
        }
        (Some(i), _) => i,
        (None, false) => {
            set_errno(libc::ENOENT);
            return -1;
        }
        (None, true) => {
            // reuse the buffer of an unlinked object (no live mapping outlives an execution)
            let slot = t.objects.iter().position(|o| o.is_none_or(|o| !o.linked));
            let Some(slot) = slot else {
                set_errno(libc::ENOSPC);
                return -1;
            };
            let buf = match t.objects[slot] {
                Some(o) => o.buf,
                None => {
                    let p = libc::syscall(
                        libc::SYS_mmap,
                        core::ptr::null_mut::<c_void>(),
                        CAPACITY,
                        libc::PROT_READ | libc::PROT_WRITE,
                        libc::MAP_PRIVATE | libc::MAP_ANON,
                        -1,
                        0,
                    );
                    if p == -1 {
                        return -1;
                    }
                    p as usize
                }
            };
            t.objects[slot] = Some(Object { name: nb, name_len: n, buf, size: 0, linked: true });
            slot
        }
    };
    // a real descriptor number, so that it cannot collide with anything else
    let fd = libc::syscall(libc::SYS_openat, libc::AT_FDCWD, c"/dev/null".as_ptr(), libc::O_RDWR | libc::O_CLOEXEC) as c_int;
    if fd < 0 {
        return -1;
    }
    let Some(e) = t.fds.iter_mut().find(|e| e.is_none()) else {
        libc::syscall(libc::SYS_close, fd);
        set_errno(libc::EMFILE);
        return -1;
    };
    *e = Some(FdEntry { fd, obj: idx });
    fd
}

/// # Safety
/// Same contract as shm_unlink(3).
#[no_mangle]
pub unsafe extern "C" fn shm_unlink(name: *const c_char) -> c_int {
    let (nb, n) = name_bytes(name);
    if !enabled() {
        let mut path = [0u8; 80];
        let prefix = b"/dev/shm";
        path[..prefix.len()].copy_from_slice(prefix);
        path[prefix.len()..prefix.len() + n].copy_from_slice(&nb[..n]);
        return libc::syscall(libc::SYS_unlinkat, libc::AT_FDCWD, path.as_ptr(), 0) as c_int;
    }
    let mut t = TABLE.lock().unwrap_or_else(|e| e.into_inner());
    match t.find(&nb, n) {
        Some(i) => {
            if let Some(o) = t.objects[i].as_mut() {
                o.linked = false;
            }
            0
        }
        None => {
            set_errno(libc::ENOENT);
            -1
        }
    }
}

/// # Safety
/// Same contract as ftruncate(2).
#[no_mangle]
pub unsafe extern "C" fn ftruncate(fd: c_int, len: off_t) -> c_int {
    if enabled() {
        let mut t = TABLE.lock().unwrap_or_else(|e| e.into_inner());
        if let Some(i) = t.obj_of_fd(fd) {
            let len = len as usize;
            if len > CAPACITY {
                set_errno(libc::EFBIG);
                return -1;
            }
            if let Some(o) = t.objects[i].as_mut() {
                // a new object reads as zeros; so does the part a growing truncate adds
                let from = if o.size == 0 { 0 } else { o.size.min(len) };
                let upto = len.max(o.size);
                core::ptr::write_bytes((o.buf + from) as *mut u8, 0, upto - from);
                o.size = len;
            }
            return 0;
        }
    }
    libc::syscall(libc::SYS_ftruncate, fd, len) as c_int
}

/// # Safety
/// Same contract as close(2).
#[no_mangle]
pub unsafe extern "C" fn close(fd: c_int) -> c_int {
    if enabled() {
        let mut t = TABLE.lock().unwrap_or_else(|e| e.into_inner());
        if let Some(e) = t.fds.iter_mut().find(|e| e.is_some_and(|e| e.fd == fd)) {
            *e = None;
        }
    }
    libc::syscall(libc::SYS_close, fd) as c_int
}

/// Called by the `mmap` interposer: the buffer of the object behind `fd`, if it is one of ours.
pub(crate) fn map_object(fd: c_int, len: size_t, flags: c_int, off: off_t) -> Option<*mut c_void> {
    if !enabled() || fd < 0 {
        return None;
    }
    let t = TABLE.lock().unwrap_or_else(|e| e.into_inner());
    let i = t.obj_of_fd(fd)?;
    let o = t.objects[i]?;
    if flags & libc::MAP_SHARED == 0 || off != 0 || len > CAPACITY {
        set_errno(libc::EINVAL);
        return Some(libc::MAP_FAILED);
    }
    Some(o.buf as *mut c_void)
}

/// Called by the `munmap` interposer: is this one of our objects' buffers?
pub(crate) fn is_object_buffer(addr: *mut c_void) -> bool {
    if !enabled() {
        return false;
    }
    let t = TABLE.lock().unwrap_or_else(|e| e.into_inner());
    t.objects.iter().flatten().any(|o| o.buf == addr as usize)
}
