//! Coroutine-stack pool. loom 0.7.2 runs every modelled thread on a `generator` coroutine and
//! maps a fresh stack for each thread of each execution (`mmap` … `munmap`). In this sandbox an
//! `munmap` costs milliseconds, which dominates exploration time. This module interposes the two
//! libc symbols for exactly the call shape `generator` uses (`mmap(NULL, n, RW,
//! MAP_PRIVATE|MAP_ANON|MAP_STACK, -1, 0)` and the matching `munmap`) and recycles those
//! mappings; every other call is passed to the kernel unchanged (the shm code under test maps
//! with `MAP_SHARED` and a file descriptor). A stack carries no state between executions: the
//! coroutine library initialises it on every use.

use std::sync::Mutex;

use libc::{c_int, c_void, off_t, size_t};

const SLOTS: usize = 64;

#[derive(Clone, Copy)]
struct Slot {
    addr: usize,
    len: usize,
    /// handed out to the coroutine library right now
    in_use: bool,
}

static POOL: Mutex<[Slot; SLOTS]> = Mutex::new([Slot { addr: 0, len: 0, in_use: false }; SLOTS]);

const STACK_FLAGS: c_int = libc::MAP_PRIVATE | libc::MAP_ANON | libc::MAP_STACK;

/// # Safety
/// Same contract as mmap(2).
#[no_mangle]
pub unsafe extern "C" fn mmap(addr: *mut c_void, len: size_t, prot: c_int, flags: c_int, fd: c_int, off: off_t) -> *mut c_void {
    let stack_shaped = addr.is_null()
        && flags == STACK_FLAGS
        && fd == -1
        && off == 0
        && prot == (libc::PROT_READ | libc::PROT_WRITE)
        && len <= (8 << 20);
    if stack_shaped {
        let mut pool = POOL.lock().unwrap_or_else(|e| e.into_inner());
        if let Some(s) = pool.iter_mut().find(|s| s.addr != 0 && !s.in_use && s.len == len) {
            s.in_use = true;
            return s.addr as *mut c_void;
        }
        let p = libc::syscall(libc::SYS_mmap, addr, len, prot, flags, fd, off) as *mut c_void;
        if p != libc::MAP_FAILED {
            if let Some(s) = pool.iter_mut().find(|s| s.addr == 0) {
                *s = Slot { addr: p as usize, len, in_use: true };
            }
        }
        return p;
    }
    if let Some(p) = crate::shmemu::map_object(fd, len, flags, off) {
        return p;
    }
    libc::syscall(libc::SYS_mmap, addr, len, prot, flags, fd, off) as *mut c_void
}

/// # Safety
/// Same contract as munmap(2).
#[no_mangle]
pub unsafe extern "C" fn munmap(addr: *mut c_void, len: size_t) -> c_int {
    {
        let mut pool = POOL.lock().unwrap_or_else(|e| e.into_inner());
        if let Some(s) = pool.iter_mut().find(|s| s.addr == addr as usize && s.len == len && s.in_use) {
            s.in_use = false;
            return 0;
        }
    }
    if crate::shmemu::is_object_buffer(addr) {
        return 0;
    }
    libc::syscall(libc::SYS_munmap, addr, len) as c_int
}
