//! C44 — channel loans (`memory::lender::{Lender, Loan}` over `BiArc`) are exclusive and freed
//! exactly once.
//!
//! Subject: `crate::memory::lender` — the repository's bytes, atomics imported from loom. (This
//! file is a child module of `memory` because `lender` is private to it.)
//!
//! A scenario is a lender program plus one program per loan holder:
//! * lender (main thread): a sequence over `L` (call `lend()`; if it yields a loan, hand it to a
//!   newly spawned holder thread) and `S` (read the shared part through `Lender::shared`), then
//!   drop the lender, publish "the lender's drop has returned" (a loom atomic flag), join.
//! * holder: a sequence over `M` (`get_mut` + write the exclusive part), `R` (`get_ref` + read
//!   both parts), `J` (read the flag, then `get_ref`: if the flag was seen the access must be
//!   refused), then drop the loan.
//!
//! All programs up to the length bounds are enumerated; loom explores every interleaving of each
//! scenario without a preemption bound.
//!
//! Oracles:
//! * the exclusive part and the shared part are loom cells: an access by a second loan that is
//!   not ordered after the first loan's last access, or a payload drop that is not ordered after
//!   every access, is a loom causality violation;
//! * `lend()` yields a loan only if no other loan is live (a holder announces the end of its
//!   loan's life right before dropping it);
//! * the payload is dropped exactly once, and only after the lender and every loan announced
//!   their end of life; at the end of the execution it has been dropped (loom additionally
//!   tracks a `loom::alloc::Track` member for leaks);
//! * an access that starts after the lender's drop has returned yields `None`.

use std::sync::{
    Arc,
    atomic::{AtomicBool as StdBool, AtomicUsize as StdUsize, Ordering as StdOrd},
};

use loom::{
    cell::UnsafeCell,
    sync::atomic::{AtomicBool, Ordering},
    thread,
};

use super::lender::{Lender, Loan};
use crate::{
    oracle_fail,
    verif_harness::{Scenario, cell::Guarded, stats},
};

/// Ground truth kept by the harness with `std` atomics (invisible to loom: no scheduling points,
/// no happens-before edges). Every update is made by the thread that owns the handle, before the
/// handle's drop starts.
#[derive(Default)]
struct Book {
    lender_released: StdBool,
    loans_live: StdUsize,
    payload_drops: StdUsize,
}

/// The shared part `S`: readable by both sides; its drop is the "free" of the statement.
struct SharedPart {
    book: Arc<Book>,
    cell: UnsafeCell<u32>,
    _leak_tracker: loom::alloc::Track<()>,
}

// SAFETY: accesses go through loom's tracked `with` / `with_mut`.
unsafe impl Send for SharedPart {}
// SAFETY: see above.
unsafe impl Sync for SharedPart {}

impl SharedPart {
    fn read(&self) -> u32 {
        // SAFETY: loom has verified that no write is concurrent.
        self.cell.with(|p| unsafe { *p })
    }
}

impl Drop for SharedPart {
    fn drop(&mut self) {
        stats::event("payload dropped (freed)");
        if self.book.payload_drops.fetch_add(1, StdOrd::SeqCst) != 0 {
            oracle_fail!("payload dropped twice");
        }
        if !self.book.lender_released.load(StdOrd::SeqCst) || self.book.loans_live.load(StdOrd::SeqCst) != 0 {
            oracle_fail!("payload freed while a handle is still live");
        }
        // the free must be ordered after every access
        self.cell.with_mut(|_| ());
    }
}

type TLender = Lender<SharedPart, Guarded>;
type TLoan = Loan<SharedPart, Guarded>;

#[derive(Clone, Copy, Debug, PartialEq, Eq)]
enum LOp {
    Lend,
    Shared,
}

#[derive(Clone, Copy, Debug, PartialEq, Eq)]
enum HOp {
    Mut,
    Ref,
    Judged,
}

fn lender_programs(max_len: usize) -> Vec<Vec<LOp>> {
    let mut out = Vec::new();
    fn rec(cur: &mut Vec<LOp>, max_len: usize, out: &mut Vec<Vec<LOp>>) {
        let lends = cur.iter().filter(|o| **o == LOp::Lend).count();
        if lends >= 1 {
            out.push(cur.clone());
        }
        if cur.len() == max_len {
            return;
        }
        for op in [LOp::Lend, LOp::Shared] {
            if op == LOp::Lend && lends == 2 {
                continue;
            }
            cur.push(op);
            rec(cur, max_len, out);
            cur.pop();
        }
    }
    rec(&mut Vec::new(), max_len, &mut out);
    out
}

fn holder_programs(max_len: usize) -> Vec<Vec<HOp>> {
    let mut out = Vec::new();
    fn rec(cur: &mut Vec<HOp>, max_len: usize, out: &mut Vec<Vec<HOp>>) {
        out.push(cur.clone());
        if cur.len() == max_len {
            return;
        }
        for op in [HOp::Mut, HOp::Ref, HOp::Judged] {
            cur.push(op);
            rec(cur, max_len, out);
            cur.pop();
        }
    }
    rec(&mut Vec::new(), max_len, &mut out);
    out
}

fn show_l(p: &[LOp]) -> String {
    p.iter().map(|o| match o { LOp::Lend => 'L', LOp::Shared => 'S' }).collect::<String>() + "D"
}

fn show_h(p: &[HOp]) -> String {
    p.iter().map(|o| match o { HOp::Mut => 'M', HOp::Ref => 'R', HOp::Judged => 'J' }).collect::<String>() + "D"
}

fn holder(mut loan: TLoan, who: u8, prog: &[HOp], book: &Book, revoked: &AtomicBool) -> String {
    let mut log = String::new();
    for op in prog {
        stats::op();
        match op {
            HOp::Mut => match loan.get_mut() {
                Some((s, x)) => {
                    stats::event("loan.get_mut() -> Some: writes exclusive part");
                    stats::count("access_granted");
                    let _ = s.read();
                    x.enter(who);
                    log.push('m');
                }
                None => {
                    stats::event("loan.get_mut() -> None");
                    stats::count("access_refused");
                    log.push('-');
                }
            },
            HOp::Ref => match loan.get_ref() {
                Some((s, x)) => {
                    stats::event("loan.get_ref() -> Some: reads both parts");
                    stats::count("access_granted");
                    let _ = s.read();
                    let _ = x.peek();
                    log.push('r');
                }
                None => {
                    stats::event("loan.get_ref() -> None");
                    stats::count("access_refused");
                    log.push('-');
                }
            },
            HOp::Judged => {
                let after_revocation = revoked.load(Ordering::Acquire);
                let got = loan.get_ref().is_some();
                stats::event(format!("sees lender-drop-returned={after_revocation}; loan.get_ref() -> {}", if got { "Some" } else { "None" }));
                if after_revocation {
                    stats::count("access_judged_after_lender_drop_returned");
                    if got {
                        oracle_fail!("loan still grants access after the lender's drop has returned");
                    }
                }
                log.push(if got { 'r' } else { '-' });
            }
        }
    }
    // end of this loan's life: announce, then drop
    stats::op();
    book.loans_live.fetch_sub(1, StdOrd::SeqCst);
    stats::event("drops its loan");
    drop(loan);
    log
}

fn body(lprog: &[LOp], hprogs: &[Vec<HOp>]) {
    let book = Arc::new(Book::default());
    let revoked = Arc::new(AtomicBool::new(false));
    let lender: TLender = Lender::new(
        SharedPart { book: Arc::clone(&book), cell: UnsafeCell::new(7), _leak_tracker: loom::alloc::Track::new(()) },
        Guarded::new(),
    );
    let mut joins = Vec::new();
    let mut lends = String::new();
    let mut next_holder = 0usize;
    for op in lprog {
        stats::op();
        match op {
            LOp::Lend => match lender.lend() {
                Some(loan) => {
                    stats::event("lender.lend() -> Some");
                    stats::count("lend_granted");
                    if book.loans_live.fetch_add(1, StdOrd::SeqCst) != 0 {
                        oracle_fail!("lend() handed out a second loan while another loan is live");
                    }
                    lends.push('S');
                    let prog = hprogs[next_holder].clone();
                    let who = (next_holder + 1) as u8;
                    next_holder += 1;
                    let book = Arc::clone(&book);
                    let revoked = Arc::clone(&revoked);
                    joins.push(thread::spawn(move || holder(loan, who, &prog, &book, &revoked)));
                }
                None => {
                    stats::event("lender.lend() -> None");
                    stats::count("lend_refused");
                    lends.push('N');
                }
            },
            LOp::Shared => {
                stats::event("lender.shared() read");
                if lender.shared().read() != 7 {
                    oracle_fail!("shared part corrupted");
                }
            }
        }
    }
    stats::op();
    book.lender_released.store(true, StdOrd::SeqCst);
    stats::event("drops the lender");
    drop(lender);
    stats::event("lender drop returned");
    revoked.store(true, Ordering::Release);
    let mut logs = Vec::new();
    for j in joins {
        logs.push(j.join().expect("thread panicked"));
    }
    let drops = book.payload_drops.load(StdOrd::SeqCst);
    if drops != 1 {
        oracle_fail!("payload dropped {drops} times after the lender and every loan are gone (expected 1)");
    }
    stats::count("executions_ending_with_payload_freed_once");
    stats::outcome(format!("lend results {lends}; holder accesses {logs:?}"));
}

/// params: [max lender program length, max holder program length, shard, shards]
pub fn scenarios(params: &[i64]) -> Vec<Scenario> {
    let llen = params.first().copied().unwrap_or(2) as usize;
    let hlen = params.get(1).copied().unwrap_or(1) as usize;
    let shard = params.get(2).copied().unwrap_or(0) as usize;
    let shards = params.get(3).copied().unwrap_or(1).max(1) as usize;
    let hp = holder_programs(hlen);
    let mut all: Vec<(Vec<LOp>, Vec<Vec<HOp>>)> = Vec::new();
    for lp in lender_programs(llen) {
        let lends = lp.iter().filter(|o| **o == LOp::Lend).count();
        if lends == 1 {
            for h1 in &hp {
                all.push((lp.clone(), vec![h1.clone()]));
            }
        } else {
            for h1 in &hp {
                for h2 in &hp {
                    all.push((lp.clone(), vec![h1.clone(), h2.clone()]));
                }
            }
        }
    }
    all.into_iter()
        .enumerate()
        .filter(|(i, _)| i % shards == shard)
        .map(|(_, (lp, hps))| {
            let name = format!(
                "c44 lender={} holders=[{}]",
                show_l(&lp),
                hps.iter().map(|h| show_h(h)).collect::<Vec<_>>().join(",")
            );
            Scenario::new(name, move || body(&lp, &hps))
        })
        .collect()
}
