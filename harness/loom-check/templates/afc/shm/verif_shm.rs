//! Read-only views of the shared-memory channel lists for the C42 model (a child module of `shm`
//! because `State`, `ChanListData` and `ReadState::inner` are private to it). Not part of the
//! repository; copied in by `loom-check/prebuild`.

use aranya_crypto::CipherSuite;
use loom::sync::atomic::Ordering;

use super::{ReadState, shared::ChanListData};
use crate::mutex::Mutex;

/// What one locked channel list holds.
#[derive(Clone, Debug, PartialEq, Eq)]
pub struct ListView {
    pub generation: u32,
    pub len: u64,
    pub cap: u64,
    /// channel ids in list order
    pub ids: Vec<u64>,
}

fn view<CS: CipherSuite>(m: &Mutex<ChanListData<CS>>) -> ListView {
    let list = m.lock().expect("lock is infallible");
    let ids = list
        .try_iter()
        .expect("list is not corrupted")
        .map(|c| c.id().expect("channel is not corrupted").to_u64())
        .collect();
    ListView {
        generation: list.generation.load(Ordering::Relaxed),
        len: list.len.into(),
        cap: list.cap.into(),
        ids,
    }
}

/// The list a reader consults right now: the list at `read_off`, locked like `seal`/`open`/
/// `exists` lock it.
pub fn consult<CS: CipherSuite>(r: &ReadState<CS>) -> ListView {
    view(r.inner.load_read_list().expect("read offset is valid"))
}

/// Both copies (read copy, write copy). Only meaningful while no writer operation is in progress.
/// The third component says whether `read_off` and `write_off` name the same copy.
pub fn both_copies<CS: CipherSuite>(r: &ReadState<CS>) -> (ListView, ListView, bool) {
    let rd = r.inner.load_read_list().expect("read offset is valid");
    let wr = r.inner.load_write_list().expect("write offset is valid");
    (view(rd), view(wr), core::ptr::eq(rd, wr))
}
