//! C40 — AFC sequence numbers never repeat within a seal context.
//!
//! Subjects: `shm::{WriteState, ReadState}` and `memory::State`, through the real `Client::seal`
//! (the sequence number is read back from the header the client writes).
//!
//! * family 0 (sequential): one seal context for channel `t`; every sequence up to a length over
//!   `S` seal, `F` a seal whose closure fails (through `AfcState::seal`), `A` the writer adds
//!   another channel, `R` the writer removes the newest other channel, `C` the writer runs
//!   `remove_all` and adds `t`'s key again (a new channel: the old context is dead from then on,
//!   a fresh context for the new channel starts at 0).
//! * family 1 (loom): a sealer thread runs three operations (`SSS` or `SFS`) on its context while
//!   the writer (main thread) runs every sequence of length <= 2 over `{A, R}` on other channels
//!   (each of which invalidates the reader's cached key on the shm state).
//! * family 2 (loom, in-memory state only): two threads race `setup_seal_ctx` for the same
//!   channel, seal once or twice through the context they get, and drop it.
//!
//! Oracle: the successful seals of one context carry 0, 1, 2, … (a failed seal consumes
//! nothing); operations on a context whose channel was removed fail; the in-memory state never
//! has two live seal contexts for one channel, and the sequence numbers produced with one
//! channel key are pairwise different.

use std::sync::{
    Arc, Mutex as StdMutex,
    atomic::{AtomicUsize as StdUsize, Ordering as StdOrd},
};

use loom::thread;

use super::{
    Scenario, stats,
    world::{Backend, CS, ChanSpec, DetRng, Dir, Mem, OpResult, Shm, seal_once},
};
use crate::{AfcState, AranyaState, Client, Error, LocalChannelId, oracle_fail};

#[derive(Clone, Copy, Debug, PartialEq, Eq)]
pub enum Op {
    Seal,
    FailingSeal,
    AddOther,
    RemoveOther,
    ClearAndReAdd,
}

impl Op {
    fn letter(self) -> char {
        match self {
            Op::Seal => 'S',
            Op::FailingSeal => 'F',
            Op::AddOther => 'A',
            Op::RemoveOther => 'R',
            Op::ClearAndReAdd => 'C',
        }
    }
}

/// One seal context and what the statement expects of it.
struct Sealer<S: AfcState<CipherSuite = CS>> {
    client: Client<S>,
    id: LocalChannelId,
    ctx: S::SealCtx,
    next: u64,
}

impl<S: AfcState<CipherSuite = CS>> Sealer<S> {
    fn new(client: Client<S>, id: LocalChannelId) -> Self {
        let ctx = client.setup_seal_ctx(id).expect("set up seal context");
        Self { client, id, ctx, next: 0 }
    }

    /// `alive`: the context's channel has not been removed.
    fn seal(&mut self, alive: bool) -> String {
        stats::op();
        let r = seal_once(&self.client, &mut self.ctx, self.id);
        stats::event(format!("seal -> {}", r.short()));
        match (&r, alive) {
            (OpResult::Ok(seq), true) => {
                if *seq != self.next {
                    oracle_fail!("seal returned sequence {seq}, expected {} (successive successful seals of one context)", self.next);
                }
                self.next += 1;
                stats::count("seal_ok");
            }
            (OpResult::Ok(_), false) => oracle_fail!("seal succeeded through the context of a removed channel"),
            (_, true) => oracle_fail!("seal failed although the channel exists: {}", r.short()),
            (_, false) => stats::count("seal_refused_on_dead_context"),
        }
        r.short()
    }

    fn failing_seal(&mut self, alive: bool) -> String {
        stats::op();
        let r = self.client.state().seal(&mut self.ctx, |_key, _label| -> Result<(), Error> { Err(Error::Authentication) });
        let s = match &r {
            Ok(Err(Error::Authentication)) => "closure-failed",
            Ok(Ok(())) => "ok?!",
            Ok(Err(_)) => "other-inner-error",
            Err(_) => "refused",
        };
        stats::event(format!("seal with a failing closure -> {s}"));
        match (s, alive) {
            ("closure-failed", true) => stats::count("failing_seal_reported"),
            ("refused", false) => stats::count("seal_refused_on_dead_context"),
            _ => oracle_fail!("a seal whose closure fails returned '{s}' (channel alive: {alive})"),
        }
        s.to_string()
    }
}

struct WriterSide<B: Backend> {
    w: B::Writer,
    rng: DetRng,
    others: Vec<LocalChannelId>,
}

impl<B: Backend> WriterSide<B> {
    fn add_other(&mut self) {
        stats::op();
        let spec = ChanSpec::new(&self.rng, Dir::Seal);
        match B::add(&self.w, &spec) {
            Ok(id) => {
                stats::event(format!("writer: added channel {id}"));
                stats::count("writer_add_other");
                self.others.push(id);
            }
            Err(e) if B::is_out_of_space(&e) => {
                stats::event("writer: add -> out of space");
                stats::count("writer_add_out_of_space");
            }
            Err(e) => oracle_fail!("add failed: {e}"),
        }
    }

    fn remove_other(&mut self) {
        stats::op();
        if let Some(id) = self.others.pop() {
            if let Err(e) = self.w.remove(id) {
                oracle_fail!("remove failed: {e}");
            }
            stats::event(format!("writer: removed channel {id}"));
            stats::count("writer_remove_other");
        } else {
            stats::count("writer_remove_skipped_no_other");
        }
    }
}

fn sequential<B: Backend>(prog: &[Op]) {
    let rng = DetRng::new(3);
    let spec_t = ChanSpec::new(&rng, Dir::Seal);
    let (w, mut readers) = B::create(4, 2);
    let t = B::add(&w, &spec_t).expect("add t");
    let fresh_client = readers.pop().expect("second handle");
    let mut sealer = Sealer::new(readers.pop().expect("first handle"), t);
    let mut ws = WriterSide::<B> { w, rng, others: Vec::new() };
    let mut alive = true;
    let mut log = Vec::new();
    for op in prog {
        match op {
            Op::Seal => log.push(sealer.seal(alive)),
            Op::FailingSeal => log.push(sealer.failing_seal(alive)),
            Op::AddOther => ws.add_other(),
            Op::RemoveOther => ws.remove_other(),
            Op::ClearAndReAdd => {
                stats::op();
                if let Err(e) = ws.w.remove_all() {
                    oracle_fail!("remove_all failed: {e}");
                }
                ws.others.clear();
                alive = false;
                let t2 = B::add(&ws.w, &spec_t).expect("re-add t's key");
                stats::event(format!("writer: remove_all, then added the key again as channel {t2}"));
                stats::count("writer_clear_and_re_add");
                if t2 == t {
                    oracle_fail!("a channel id was handed out twice");
                }
                // a fresh context for the new channel counts from 0
                let mut fresh = Sealer::new(Client::new(clone_state::<B>(&fresh_client)), t2);
                fresh.seal(true);
                fresh.seal(true);
            }
        }
    }
    drop(sealer);
    drop(fresh_client);
    drop(ws);
    B::destroy();
    stats::outcome(log.join(","));
}

/// A second handle onto the same state (a new mapping for shm, a clone for the in-memory state).
fn clone_state<B: Backend>(_c: &Client<B::Reader>) -> B::Reader {
    B::reopen()
}

fn concurrent<B: Backend>(sealer_prog: &[Op], writer_prog: &[Op]) {
    let rng = DetRng::new(3);
    let spec_t = ChanSpec::new(&rng, Dir::Seal);
    let (w, mut readers) = B::create(4, 1);
    let mut ws = WriterSide::<B> { w, rng, others: Vec::new() };
    // table: [other, t]: removing `other` moves `t` (stale index hint in the reader's cache)
    ws.add_other();
    let t = B::add(&ws.w, &spec_t).expect("add t");
    let mut sealer = Sealer::new(readers.pop().expect("handle"), t);
    let sp = sealer_prog.to_vec();
    let j = thread::spawn(move || {
        let mut log = Vec::new();
        for op in sp {
            match op {
                Op::Seal => log.push(sealer.seal(true)),
                Op::FailingSeal => log.push(sealer.failing_seal(true)),
                _ => unreachable!(),
            }
        }
        log.join(",")
    });
    for op in writer_prog {
        match op {
            Op::AddOther => ws.add_other(),
            Op::RemoveOther => ws.remove_other(),
            _ => unreachable!(),
        }
    }
    let log = j.join().expect("sealer panicked");
    drop(ws);
    B::destroy();
    stats::outcome(log);
}

/// In-memory state: two threads race for the single seal context of one channel.
fn setup_race(seals_each: usize) {
    let rng = DetRng::new(3);
    let spec_t = ChanSpec::new(&rng, Dir::Seal);
    let (w, readers) = Mem::create(4, 2);
    let t = Mem::add(&w, &spec_t).expect("add t");
    let live = Arc::new(StdUsize::new(0));
    let seqs = Arc::new(StdMutex::new(Vec::<u64>::new()));
    let mut joins = Vec::new();
    for c in readers {
        let live = Arc::clone(&live);
        let seqs = Arc::clone(&seqs);
        joins.push(thread::spawn(move || {
            stats::op();
            match c.setup_seal_ctx(t) {
                Ok(mut ctx) => {
                    stats::event("setup_seal_ctx -> context");
                    if live.fetch_add(1, StdOrd::SeqCst) != 0 {
                        oracle_fail!("two live seal contexts for one channel");
                    }
                    stats::count("setup_granted");
                    let mut mine = Vec::new();
                    for _ in 0..seals_each {
                        stats::op();
                        match seal_once(&c, &mut ctx, t) {
                            OpResult::Ok(s) => {
                                stats::event(format!("seal -> ok(seq {s})"));
                                mine.push(s);
                            }
                            other => oracle_fail!("seal through a live context failed: {}", other.short()),
                        }
                    }
                    if mine.windows(2).any(|p| p[1] != p[0] + 1) {
                        oracle_fail!("the successful seals of one context are not consecutive: {mine:?}");
                    }
                    seqs.lock().unwrap().extend(mine);
                    // end of this context's life: announce, then drop
                    live.fetch_sub(1, StdOrd::SeqCst);
                    stats::event("drops its context");
                    drop(ctx);
                    "granted"
                }
                Err(Error::NotFound(_)) => {
                    stats::event("setup_seal_ctx -> refused");
                    stats::count("setup_refused_second_context");
                    "refused"
                }
                Err(e) => oracle_fail!("setup_seal_ctx failed with {e}"),
            }
        }));
    }
    let mut res = Vec::new();
    for j in joins {
        res.push(j.join().expect("thread panicked"));
    }
    let mut all = seqs.lock().unwrap().clone();
    let n = all.len();
    all.sort_unstable();
    all.dedup();
    if all.len() != n {
        oracle_fail!("a sequence number was used twice with one channel key");
    }
    if !res.contains(&"granted") {
        oracle_fail!("nobody got the seal context");
    }
    drop(w);
    Mem::destroy();
    stats::outcome(format!("{res:?} seqs {all:?}"));
}

fn sequences(alphabet: &[Op], max_len: usize) -> Vec<Vec<Op>> {
    let mut out = Vec::new();
    fn rec(cur: &mut Vec<Op>, alphabet: &[Op], max_len: usize, out: &mut Vec<Vec<Op>>) {
        if !cur.is_empty() {
            out.push(cur.clone());
        }
        if cur.len() == max_len {
            return;
        }
        for op in alphabet {
            cur.push(*op);
            rec(cur, alphabet, max_len, out);
            cur.pop();
        }
    }
    rec(&mut Vec::new(), alphabet, max_len, &mut out);
    out
}

fn show(p: &[Op]) -> String {
    p.iter().map(|o| o.letter()).collect()
}

/// params: [backend (0 shm | 1 memory), family (0 sequential | 1 sealer vs writer | 2 setup race),
///          max length, shard, shards]
pub fn scenarios(params: &[i64]) -> Vec<Scenario> {
    let backend = params.first().copied().unwrap_or(0);
    let family = params.get(1).copied().unwrap_or(0);
    let max_len = params.get(2).copied().unwrap_or(4) as usize;
    let shard = params.get(3).copied().unwrap_or(0) as usize;
    let shards = params.get(4).copied().unwrap_or(1).max(1) as usize;
    let bname = if backend == 0 { "shm" } else { "memory" };
    let mut out: Vec<Scenario> = Vec::new();
    match family {
        0 => {
            let alphabet = [Op::Seal, Op::FailingSeal, Op::AddOther, Op::RemoveOther, Op::ClearAndReAdd];
            for p in sequences(&alphabet, max_len) {
                if !p.contains(&Op::Seal) {
                    continue;
                }
                let name = format!("c40 {bname} sequential {}", show(&p));
                out.push(if backend == 0 { Scenario::new(name, move || sequential::<Shm>(&p)) } else { Scenario::new(name, move || sequential::<Mem>(&p)) });
            }
        }
        1 => {
            for sp in [vec![Op::Seal, Op::Seal, Op::Seal], vec![Op::Seal, Op::FailingSeal, Op::Seal]] {
                for wp in sequences(&[Op::AddOther, Op::RemoveOther], max_len) {
                    let name = format!("c40 {bname} sealer={} writer={}", show(&sp), show(&wp));
                    let sp = sp.clone();
                    out.push(if backend == 0 {
                        Scenario::new(name, move || concurrent::<Shm>(&sp, &wp))
                    } else {
                        Scenario::new(name, move || concurrent::<Mem>(&sp, &wp))
                    });
                }
            }
        }
        _ => {
            for n in 1..=max_len.max(1) {
                out.push(Scenario::new(format!("c40 memory two threads race setup_seal_ctx, {n} seal(s) each"), move || setup_race(n)));
            }
        }
    }
    out.into_iter().enumerate().filter(|(i, _)| i % shards == shard).map(|(_, s)| s).collect()
}
