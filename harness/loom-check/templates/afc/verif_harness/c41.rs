//! C41 — AFC channel removal takes effect for later operations.
//!
//! Subjects: `shm::{WriteState, ReadState}` (real mapping, real futex mutex, loom atomics) and
//! `memory::State` (loom `Arc`/`Mutex`), both through the real `Client`.
//!
//! Set-up (sequential): channels `x` and `y` of one direction are added (in either order); every
//! reader opens its state handle and sets up its contexts, so that it holds *cached* keys.
//! Concurrent phase: the writer (main thread) performs one removal — `remove(x)`, `remove_all()`
//! or `remove_if(id == x)` — and then publishes "the removal has returned" through a SeqCst
//! flag; each reader thread runs a program over `X` / `Y` (seal or open through its context for
//! `x` / `y`), reading the flag immediately before each operation.
//!
//! Oracle, per operation:
//! * on a removed channel: if the flag was seen before the operation started it must fail with
//!   not-found (so a removed channel never reappears to an operation that starts after the
//!   removal returned); a success that follows a not-found of the same context while the
//!   removal is still in progress is only counted (`transient_notfound_then_success`);
//! * on a channel that was not removed: it must succeed (seals count 0,1,2,… per context, opens
//!   return the peer's plaintext);
//! A fourth family lets the writer remove `x` and then `y` (two flags each: "started" and
//! "returned"): an operation that ended before the channel's removal started must succeed.
//! Script families (4 sequential, 5 against one reader thread) mix real removals with removals
//! that remove nothing — `remove` of a never-added or already-removed channel, `remove_if` with
//! a predicate selecting nothing — before and between the real ones, with reader operations in
//! between so that cached keys are refreshed.
//! * at the end: a fresh context for a removed channel cannot be set up, `exists` agrees.
//! In the sequential `strict` scenarios every failure on a removed channel must be exactly
//! not-found (the concurrent scenarios accept `KeyExpired` from a context that has already
//! reported not-found, and count it).

use std::sync::Arc;

use loom::{
    sync::atomic::{AtomicBool, Ordering},
    thread,
};

use super::{
    Scenario, stats,
    world::{Backend, ChanSpec, DetRng, Dir, Mem, OpResult, Shm, open_once, seal_once},
};
use crate::{AfcState, AranyaState, Client, LocalChannelId, oracle_fail};

#[derive(Clone, Copy, Debug, PartialEq, Eq)]
pub enum Removal {
    One,
    All,
    If,
}

#[derive(Clone, Copy, Debug, PartialEq, Eq)]
pub enum ROp {
    X,
    Y,
}

#[derive(Clone, Debug)]
pub struct Shape {
    pub removal: Removal,
    pub dir: Dir,
    pub x_first: bool,
    /// one program per reader
    pub programs: Vec<Vec<ROp>>,
    /// sequential: the readers run after the removal has returned, and every failure on a
    /// removed channel must be exactly not-found
    pub strict: bool,
    /// the writer then also removes `y` with `remove(y)` (two removals, two flags)
    pub then_remove_y: bool,
}

impl Shape {
    fn name(&self, backend: &str) -> String {
        let progs: Vec<String> = self
            .programs
            .iter()
            .map(|p| p.iter().map(|o| if *o == ROp::X { 'x' } else { 'y' }).collect())
            .collect();
        format!(
            "c41 {backend} {}{} {} order={} readers=[{}]{}",
            match self.removal {
                Removal::One => "remove(x)",
                Removal::All => "remove_all()",
                Removal::If => "remove_if(id==x)",
            },
            if self.then_remove_y { ";remove(y)" } else { "" },
            if self.dir == Dir::Seal { "seal" } else { "open" },
            if self.x_first { "x,y" } else { "y,x" },
            progs.join(" | "),
            if self.strict { " strict-sequential" } else { "" }
        )
    }
}

enum Ctx<S: AfcState> {
    Seal(S::SealCtx),
    Open(S::OpenCtx),
}

/// "the removal of this channel has started / has returned", written by the writer (SeqCst)
#[derive(Clone)]
struct Flags {
    started: Arc<AtomicBool>,
    returned: Arc<AtomicBool>,
}

impl Flags {
    fn new() -> Self {
        Self { started: Arc::new(AtomicBool::new(false)), returned: Arc::new(AtomicBool::new(false)) }
    }
}

struct Handle<S: AfcState> {
    id: LocalChannelId,
    ctx: Ctx<S>,
    /// `None`: the channel is never removed
    removal: Option<Flags>,
    /// this context has reported not-found
    dead: bool,
    successes: u64,
}

fn setup<S: AfcState<CipherSuite = super::world::CS>>(c: &Client<S>, id: LocalChannelId, dir: Dir, removal: Option<Flags>) -> Handle<S> {
    let ctx = match dir {
        Dir::Seal => Ctx::Seal(c.setup_seal_ctx(id).expect("set up seal context")),
        Dir::Open => Ctx::Open(c.setup_open_ctx(id).expect("set up open context")),
    };
    Handle { id, ctx, removal, dead: false, successes: 0 }
}

fn run_op<S: AfcState<CipherSuite = super::world::CS>>(
    c: &Client<S>,
    h: &mut Handle<S>,
    spec: &ChanSpec,
    which: char,
    strict: bool,
) -> String {
    stats::op();
    // read immediately before the operation starts
    let after = h.removal.as_ref().is_some_and(|f| f.returned.load(Ordering::SeqCst));
    let r = match &mut h.ctx {
        Ctx::Seal(ctx) => seal_once(c, ctx, h.id),
        Ctx::Open(ctx) => open_once(c, ctx, h.id, spec),
    };
    // read immediately after it ended: if the removal has not even started, the channel was
    // present during the whole operation
    let untouched = h.removal.as_ref().is_none_or(|f| !f.started.load(Ordering::SeqCst));
    let kind = if matches!(h.ctx, Ctx::Seal(_)) { "seal" } else { "open" };
    stats::event(format!(
        "{kind}({which}) -> {} [removal of {which}: returned-before-op={after}, not-started-after-op={untouched}]",
        r.short()
    ));
    if untouched {
        match &r {
            OpResult::Ok(seq) => {
                let want = if kind == "seal" { h.successes } else { 0 };
                if *seq != want {
                    oracle_fail!("{kind} on a channel that was not removed returned sequence {seq}, expected {want}");
                }
                h.successes += 1;
                stats::count("kept_channel_op_ok");
            }
            other => oracle_fail!("{kind} on a channel that was not removed failed: {}", other.short()),
        }
    } else {
        match &r {
            OpResult::Ok(seq) => {
                if after {
                    oracle_fail!("{kind} on a removed channel succeeded after the removal had returned");
                }
                if h.dead {
                    // Both observations precede the removal's return (the `after` case is a
                    // violation above): the statement only speaks about operations that start
                    // after the removal has returned, so this is informational.
                    stats::count("transient_notfound_then_success");
                }
                let want = if kind == "seal" { h.successes } else { 0 };
                if *seq != want {
                    oracle_fail!("{kind} returned sequence {seq}, expected {want}");
                }
                stats::count("removed_channel_op_ok_before_removal_visible");
                h.successes += 1;
            }
            OpResult::NotFound => {
                h.dead = true;
                stats::count(if after { "removed_channel_op_not_found_judged" } else { "removed_channel_op_not_found_unjudged" });
            }
            OpResult::Other(e) => {
                if !strict && h.dead && e.contains("expired") {
                    stats::count("removed_channel_op_key_expired_on_dead_context");
                } else if h.dead && e.contains("expired") {
                    oracle_fail!(
                        "{kind} on a removed channel failed with '{e}' instead of not-found [key: {kind} through a context that has already reported not-found fails with KeyExpired instead of not-found]"
                    );
                } else {
                    oracle_fail!("{kind} on a removed channel failed with '{e}' instead of not-found");
                }
            }
        }
    }
    format!("{which}{}:{}", if after { "+" } else { "" }, match r { OpResult::Ok(_) => "ok", OpResult::NotFound => "nf", OpResult::Other(_) => "err" })
}

fn body<B: Backend>(shape: &Shape) {
    let rng = DetRng::new(1);
    let spec_x = Arc::new(ChanSpec::new(&rng, shape.dir));
    let spec_y = Arc::new(ChanSpec::new(&rng, shape.dir));
    let n = shape.programs.len();
    let (w, mut readers) = B::create(3, n + 1);
    let (x, y) = if shape.x_first {
        let x = B::add(&w, &spec_x).expect("add x");
        (x, B::add(&w, &spec_y).expect("add y"))
    } else {
        let y = B::add(&w, &spec_y).expect("add y");
        (B::add(&w, &spec_x).expect("add x"), y)
    };
    let y_removed = shape.removal == Removal::All || shape.then_remove_y;
    let fx = Flags::new();
    let fy = match (shape.removal, shape.then_remove_y) {
        (Removal::All, _) => Some(fx.clone()),
        (_, true) => Some(Flags::new()),
        _ => None,
    };
    let checker = readers.pop().expect("one extra handle for the final check");

    // contexts are set up before the removal starts (cached keys)
    let shared_contexts = B::NAME == "shm";
    let mut jobs = Vec::new();
    for (i, (c, prog)) in readers.into_iter().zip(shape.programs.iter().cloned()).enumerate() {
        // the in-memory state lends at most one context per channel: reader 0 owns x, reader 1
        // owns y when there are two readers
        let wants_x = prog.contains(&ROp::X);
        let wants_y = prog.contains(&ROp::Y);
        if !shared_contexts && n > 1 && ((i == 0 && wants_y) || (i == 1 && wants_x)) {
            panic!("harness: program not valid for the in-memory state");
        }
        let hx = wants_x.then(|| setup(&c, x, shape.dir, Some(fx.clone())));
        let hy = wants_y.then(|| setup(&c, y, shape.dir, fy.clone()));
        jobs.push((c, prog, hx, hy));
    }

    let do_removals = |w: &B::Writer| {
        stats::op();
        fx.started.store(true, Ordering::SeqCst);
        stats::event("writer: removal starts");
        let r = match shape.removal {
            Removal::One => w.remove(x),
            Removal::All => w.remove_all(),
            Removal::If => w.remove_if(|p| p.local_channel_id == x),
        };
        if let Err(e) = r {
            oracle_fail!("removal failed: {e}");
        }
        stats::event("writer: removal returned");
        fx.returned.store(true, Ordering::SeqCst);
        if shape.then_remove_y {
            let fy = fy.as_ref().expect("flags for y");
            stats::op();
            fy.started.store(true, Ordering::SeqCst);
            stats::event("writer: remove(y) starts");
            if let Err(e) = w.remove(y) {
                oracle_fail!("removal failed: {e}");
            }
            stats::event("writer: remove(y) returned");
            fy.returned.store(true, Ordering::SeqCst);
        }
    };

    let mut outcomes = Vec::new();
    if shape.strict {
        do_removals(&w);
    }
    let strict = shape.strict;
    let mut joins = Vec::new();
    for (c, prog, mut hx, mut hy) in jobs {
        let (sx, sy) = (Arc::clone(&spec_x), Arc::clone(&spec_y));
        let run = move || {
            let mut log = Vec::new();
            for op in prog {
                let s = match op {
                    ROp::X => run_op(&c, hx.as_mut().expect("context for x"), &sx, 'x', strict),
                    ROp::Y => run_op(&c, hy.as_mut().expect("context for y"), &sy, 'y', strict),
                };
                log.push(s);
            }
            log.join(",")
        };
        if strict {
            outcomes.push(run());
        } else {
            joins.push(thread::spawn(run));
        }
    }
    if !strict {
        do_removals(&w);
        for j in joins {
            outcomes.push(j.join().expect("reader panicked"));
        }
    }

    // quiescent end state
    let gone = |id: LocalChannelId, what: &str| {
        if checker.state().exists(id).expect("exists") || w.exists(id).expect("exists") {
            oracle_fail!("{what} still exists after its removal returned");
        }
        let fresh_ok = match shape.dir {
            Dir::Seal => checker.setup_seal_ctx(id).is_ok(),
            Dir::Open => checker.setup_open_ctx(id).is_ok(),
        };
        if fresh_ok {
            oracle_fail!("a fresh context for {what} could be set up after its removal returned");
        }
    };
    gone(x, "x");
    if y_removed {
        gone(y, "y");
    } else if !checker.state().exists(y).expect("exists") {
        oracle_fail!("y disappeared although it was not removed");
    }
    drop(w);
    drop(checker);
    B::destroy();
    stats::outcome(format!("{}", outcomes.join(" | ")));
}

fn programs(max_len: usize) -> Vec<Vec<ROp>> {
    let mut out = Vec::new();
    fn rec(cur: &mut Vec<ROp>, max_len: usize, out: &mut Vec<Vec<ROp>>) {
        if !cur.is_empty() {
            out.push(cur.clone());
        }
        if cur.len() == max_len {
            return;
        }
        for op in [ROp::X, ROp::Y] {
            cur.push(op);
            rec(cur, max_len, out);
            cur.pop();
        }
    }
    rec(&mut Vec::new(), max_len, &mut out);
    out
}

/// All shapes of one family. `family`: 0 = strict sequential, 1 = one reader, 2 = two readers,
/// 3 = one reader against two successive removals (x, then y).
fn shapes(backend: &str, family: i64, max_len: usize) -> Vec<Shape> {
    let mut out = Vec::new();
    for removal in [Removal::One, Removal::All, Removal::If] {
        if family == 3 && removal == Removal::All {
            continue;
        }
        for dir in [Dir::Seal, Dir::Open] {
            for x_first in [true, false] {
                let progs: Vec<Vec<Vec<ROp>>> = match family {
                    0 => vec![vec![vec![ROp::X, ROp::X, ROp::Y]], vec![vec![ROp::Y, ROp::X, ROp::X]]],
                    1 => programs(max_len).into_iter().map(|p| vec![p]).collect(),
                    // two removals: only programs that touch y at least twice can tell a stale
                    // cache from a fresh one
                    3 => programs(max_len)
                        .into_iter()
                        .filter(|p| p.iter().filter(|o| **o == ROp::Y).count() >= 2)
                        .map(|p| vec![p])
                        .collect(),
                    _ => {
                        if backend == "shm" {
                            // both readers hold contexts for both channels
                            vec![
                                vec![vec![ROp::X], vec![ROp::X]],
                                vec![vec![ROp::X], vec![ROp::Y]],
                                vec![vec![ROp::Y], vec![ROp::Y]],
                            ]
                        } else {
                            vec![vec![vec![ROp::X], vec![ROp::Y]], vec![vec![ROp::X, ROp::X], vec![ROp::Y]]]
                        }
                    }
                };
                for programs in progs {
                    out.push(Shape { removal, dir, x_first, programs, strict: family == 0, then_remove_y: family == 3 });
                }
            }
        }
    }
    out
}


// ------------------------------------------------------------------------------------------
// Script families: writer scripts that mix real removals with removals that remove nothing
// ------------------------------------------------------------------------------------------

/// One step of a script. Writer steps: `N` remove(an id that was never added), `I`
/// remove_if(a predicate that selects nothing), `X` remove(x), `J` remove_if(id == x),
/// `Y` remove(y), `C` remove_all; a repeated `X` / `J` / `Y` removes an already-removed channel.
/// Reader steps (sequential family only): `x` / `y` operate through the cached context.
#[derive(Clone, Copy, Debug, PartialEq, Eq)]
pub enum Step {
    RemoveMissing,
    RemoveIfNone,
    RemoveX,
    RemoveIfX,
    RemoveY,
    RemoveAll,
    ReadX,
    ReadY,
}

impl Step {
    fn letter(self) -> char {
        match self {
            Step::RemoveMissing => 'N',
            Step::RemoveIfNone => 'I',
            Step::RemoveX => 'X',
            Step::RemoveIfX => 'J',
            Step::RemoveY => 'Y',
            Step::RemoveAll => 'C',
            Step::ReadX => 'x',
            Step::ReadY => 'y',
        }
    }
    fn removes_x(self) -> bool {
        matches!(self, Step::RemoveX | Step::RemoveIfX | Step::RemoveAll)
    }
    fn removes_y(self) -> bool {
        matches!(self, Step::RemoveY | Step::RemoveAll)
    }
    fn is_reader(self) -> bool {
        matches!(self, Step::ReadX | Step::ReadY)
    }
}

fn show_steps(p: &[Step]) -> String {
    p.iter().map(|s| s.letter()).collect()
}

/// The main thread executes `script` in order. With `reader_prog == None` the reader steps of
/// the script run in the main thread too (sequential);
/// otherwise the script's writer steps race a reader thread running `reader_prog`.
fn script_body<B: Backend>(dir: Dir, x_first: bool, script: &[Step], reader_prog: Option<&[ROp]>) {
    let rng = DetRng::new(1);
    let spec_x = Arc::new(ChanSpec::new(&rng, dir));
    let spec_y = Arc::new(ChanSpec::new(&rng, dir));
    let (w, mut readers) = B::create(3, 2);
    let (x, y) = if x_first {
        let x = B::add(&w, &spec_x).expect("add x");
        (x, B::add(&w, &spec_y).expect("add y"))
    } else {
        let y = B::add(&w, &spec_y).expect("add y");
        (B::add(&w, &spec_x).expect("add x"), y)
    };
    let checker = readers.pop().expect("checker handle");
    let reader = readers.pop().expect("reader handle");
    let fx = script.iter().any(|s| s.removes_x()).then(Flags::new);
    let fy = script.iter().any(|s| s.removes_y()).then(Flags::new);
    let hx = setup(&reader, x, dir, fx.clone());
    let hy = setup(&reader, y, dir, fy.clone());
    let mut side = Some((reader, hx, hy));

    let join = reader_prog.map(|prog| {
        let prog = prog.to_vec();
        let (reader, mut hx, mut hy) = side.take().expect("reader side");
        let (sx, sy) = (Arc::clone(&spec_x), Arc::clone(&spec_y));
        thread::spawn(move || {
            let mut log = Vec::new();
            for op in prog {
                log.push(match op {
                    ROp::X => run_op(&reader, &mut hx, &sx, 'x', false),
                    ROp::Y => run_op(&reader, &mut hy, &sy, 'y', false),
                });
            }
            log.join(",")
        })
    });

    let mut x_gone = false;
    let mut y_gone = false;
    let mut log = Vec::new();
    for step in script {
        if step.is_reader() {
            if let Some((reader, hx, hy)) = side.as_mut() {
                log.push(match step {
                    // the error *kind* after a first not-found is judged by family 0 only (a
                    // known finding there must not stop this sweep)
                    Step::ReadX => run_op(reader, hx, &spec_x, 'x', false),
                    _ => run_op(reader, hy, &spec_y, 'y', false),
                });
            }
            continue;
        }
        stats::op();
        let first_x = step.removes_x() && !x_gone;
        let first_y = step.removes_y() && !y_gone;
        if first_x {
            fx.as_ref().expect("flags").started.store(true, Ordering::SeqCst);
        }
        if first_y {
            fy.as_ref().expect("flags").started.store(true, Ordering::SeqCst);
        }
        stats::event(format!("writer: {} starts", step.letter()));
        let r = match step {
            Step::RemoveMissing => w.remove(LocalChannelId::new(1_000_000)),
            Step::RemoveIfNone => w.remove_if(|_| false),
            Step::RemoveX => w.remove(x),
            Step::RemoveIfX => w.remove_if(|p| p.local_channel_id == x),
            Step::RemoveY => w.remove(y),
            Step::RemoveAll => w.remove_all(),
            Step::ReadX | Step::ReadY => unreachable!(),
        };
        if let Err(e) = r {
            oracle_fail!("removal failed: {e}");
        }
        stats::event(format!("writer: {} returned", step.letter()));
        if first_x || first_y {
            stats::count("script_real_removal");
        } else if matches!(step, Step::RemoveMissing | Step::RemoveIfNone) {
            stats::count("script_removal_of_nothing");
        } else {
            stats::count("script_removal_of_already_removed_channel");
        }
        if first_x {
            x_gone = true;
            fx.as_ref().expect("flags").returned.store(true, Ordering::SeqCst);
        }
        if first_y {
            y_gone = true;
            fy.as_ref().expect("flags").returned.store(true, Ordering::SeqCst);
        }
    }
    if let Some(j) = join {
        log.push(j.join().expect("reader panicked"));
    }
    for (id, gone, what) in [(x, x_gone, "x"), (y, y_gone, "y")] {
        let exists = checker.state().exists(id).expect("exists");
        if exists != w.exists(id).expect("exists") {
            oracle_fail!("reader and writer disagree on exists({what})");
        }
        if gone && exists {
            oracle_fail!("{what} still exists after its removal returned");
        }
        if !gone && !exists {
            oracle_fail!("{what} disappeared although it was not removed");
        }
    }
    drop(side);
    drop(w);
    drop(checker);
    B::destroy();
    stats::outcome(log.join(" | "));
}

fn step_sequences(alphabet: &[Step], max_len: usize) -> Vec<Vec<Step>> {
    let mut out = Vec::new();
    fn rec(cur: &mut Vec<Step>, alphabet: &[Step], max_len: usize, out: &mut Vec<Vec<Step>>) {
        if !cur.is_empty() {
            out.push(cur.clone());
        }
        if cur.len() == max_len {
            return;
        }
        for s in alphabet {
            cur.push(*s);
            rec(cur, alphabet, max_len, out);
            cur.pop();
        }
    }
    rec(&mut Vec::new(), alphabet, max_len, &mut out);
    out
}

/// family 4: sequential scripts of length <= `max_len` over the whole alphabet (reader steps
/// included) that contain a removal that removes nothing (or removes an already-removed
/// channel), a real removal, and a reader step after the first writer step.
/// family 5: writer scripts of length <= `max_len` over {N, I, X, Y} (thorough: + J) with at
/// least one real removal and one removal of nothing, against one reader thread running a
/// program of length <= 3 that operates on some channel at least twice.
fn script_scenarios(backend: i64, family: i64, max_len: usize, wide: bool) -> Vec<Scenario> {
    let bname = if backend == 0 { "shm" } else { "memory" };
    let mut out = Vec::new();
    let has_noop = |p: &[Step]| {
        let mut xg = false;
        let mut yg = false;
        let mut noop = false;
        for s in p {
            match s {
                Step::RemoveMissing | Step::RemoveIfNone => noop = true,
                Step::RemoveX | Step::RemoveIfX => {
                    noop |= xg;
                    xg = true;
                }
                Step::RemoveY => {
                    noop |= yg;
                    yg = true;
                }
                Step::RemoveAll => {
                    noop |= xg && yg;
                    xg = true;
                    yg = true;
                }
                _ => {}
            }
        }
        noop
    };
    let has_real = |p: &[Step]| p.iter().any(|s| s.removes_x() || s.removes_y());
    for dir in [Dir::Seal, Dir::Open] {
        for x_first in [true, false] {
            if !wide && !x_first {
                continue;
            }
            if family == 4 {
                let mut alphabet = vec![Step::RemoveMissing, Step::RemoveIfNone, Step::RemoveX, Step::RemoveY, Step::ReadX, Step::ReadY];
                if wide {
                    alphabet.extend([Step::RemoveIfX, Step::RemoveAll]);
                }
                for p in step_sequences(&alphabet, max_len) {
                    let first_w = p.iter().position(|s| !s.is_reader());
                    let reader_after = first_w.is_some_and(|i| p[i..].iter().any(|s| s.is_reader()));
                    if !(has_noop(&p) && has_real(&p) && reader_after) {
                        continue;
                    }
                    let name = format!("c41 {bname} script {} {} order={}", show_steps(&p), if dir == Dir::Seal { "seal" } else { "open" }, if x_first { "x,y" } else { "y,x" });
                    out.push(if backend == 0 {
                        Scenario::new(name, move || script_body::<Shm>(dir, x_first, &p, None))
                    } else {
                        Scenario::new(name, move || script_body::<Mem>(dir, x_first, &p, None))
                    });
                }
            } else {
                let mut alphabet = vec![Step::RemoveMissing, Step::RemoveIfNone, Step::RemoveX, Step::RemoveY];
                if wide {
                    alphabet.push(Step::RemoveIfX);
                }
                let rprogs: Vec<Vec<ROp>> = programs(3)
                    .into_iter()
                    .filter(|p| {
                        let xs = p.iter().filter(|o| **o == ROp::X).count();
                        xs >= 2 || p.len() - xs >= 2
                    })
                    .collect();
                for p in step_sequences(&alphabet, max_len) {
                    if !(has_noop(&p) && has_real(&p)) {
                        continue;
                    }
                    for rp in &rprogs {
                        let name = format!(
                            "c41 {bname} writer script {} vs reader [{}] {} order={}",
                            show_steps(&p),
                            rp.iter().map(|o| if *o == ROp::X { 'x' } else { 'y' }).collect::<String>(),
                            if dir == Dir::Seal { "seal" } else { "open" },
                            if x_first { "x,y" } else { "y,x" }
                        );
                        let (p, rp) = (p.clone(), rp.clone());
                        out.push(if backend == 0 {
                            Scenario::new(name, move || script_body::<Shm>(dir, x_first, &p, Some(&rp)))
                        } else {
                            Scenario::new(name, move || script_body::<Mem>(dir, x_first, &p, Some(&rp)))
                        });
                    }
                }
            }
        }
    }
    out
}

/// params: [backend (0 shm, 1 memory), family (0 strict sequential | 1 one reader | 2 two readers | 3 two removals),
///          max program length (family 1), shard, shards]
pub fn scenarios(params: &[i64]) -> Vec<Scenario> {
    let backend = params.first().copied().unwrap_or(0);
    let family = params.get(1).copied().unwrap_or(1);
    let max_len = params.get(2).copied().unwrap_or(1) as usize;
    let shard = params.get(3).copied().unwrap_or(0) as usize;
    let shards = params.get(4).copied().unwrap_or(1).max(1) as usize;
    let bname = if backend == 0 { "shm" } else { "memory" };
    if family >= 4 {
        // families 4/5: `family` 4 | 5 narrow alphabet, 14 | 15 wide alphabet and both orders
        return script_scenarios(backend, family % 10, max_len, family >= 10)
            .into_iter()
            .enumerate()
            .filter(|(i, _)| i % shards == shard)
            .map(|(_, s)| s)
            .collect();
    }
    shapes(bname, family, max_len)
        .into_iter()
        .enumerate()
        .filter(|(i, _)| i % shards == shard)
        .map(|(_, s)| {
            let name = s.name(bname);
            if backend == 0 {
                Scenario::new(name, move || body::<Shm>(&s))
            } else {
                Scenario::new(name, move || body::<Mem>(&s))
            }
        })
        .collect()
}
