//! C42 — the shared-memory channel tables stay consistent.
//!
//! Subject: `shm::{WriteState, ReadState}` (real futex mutex, loom atomics in the mapping).
//!
//! The single writer (main thread) runs a sequence of operations over
//! `A` add a seal channel, `B` add an open channel, `R` remove the oldest live channel,
//! `L` remove the newest live channel, `N` remove an id that does not exist,
//! `I` `remove_if(id is even)` (matches some, all or none of the channels depending on the table),
//! `M` `remove_if(nothing)`, `T` `remove_if(everything)`, `C` `remove_all`
//! on a table of capacity 2 or 3. A reference list (a `Vec` with the same append / swap-remove
//! discipline) says which sets the writer produces.
//!
//! * family 0 (sequential, no readers): every operation sequence up to a length; after every
//!   operation both copies are locked and compared.
//! * family 1 (loom): writer sequences of length <= 2 or 3 over `{A, R, I, M, C}` from a table that
//!   already holds two channels, against one or two reader threads that consult the table
//!   (lock the list at `read_off` like `seal`/`open`/`exists` do) and call `exists`.
//!
//! Oracle:
//! * every list a reader locks holds exactly one of the sets the writer produced (and
//!   `len <= cap`); `exists(id)` is true for an id in every produced set and false for an id in
//!   none of them;
//! * after each writer operation has returned, both copies hold the same channels in the same
//!   order with equal generations, they are the reference list, and `read_off` and `write_off`
//!   name different copies;
//! * successful `add`s return strictly increasing ids; `add` fails with out-of-space exactly when
//!   the reference list is full; `AranyaState::exists` agrees with the reference list.

use std::{collections::BTreeSet, sync::Arc};

use loom::thread;

use super::{
    Scenario, stats,
    world::{Backend, ChanSpec, DetRng, Dir, Shm},
};
use crate::{AfcState, AranyaState, LocalChannelId, oracle_fail, shm::verif_shm};

#[derive(Clone, Copy, Debug, PartialEq, Eq)]
pub enum WOp {
    AddSeal,
    AddOpen,
    RemoveOldest,
    RemoveNewest,
    RemoveMissing,
    RemoveIfEven,
    /// `remove_if` with a predicate that matches no channel
    RemoveIfNone,
    /// `remove_if` with a predicate that matches every channel
    RemoveIfEvery,
    RemoveAll,
}

impl WOp {
    fn letter(self) -> char {
        match self {
            WOp::AddSeal => 'A',
            WOp::AddOpen => 'B',
            WOp::RemoveOldest => 'R',
            WOp::RemoveNewest => 'L',
            WOp::RemoveMissing => 'N',
            WOp::RemoveIfEven => 'I',
            WOp::RemoveIfNone => 'M',
            WOp::RemoveIfEvery => 'T',
            WOp::RemoveAll => 'C',
        }
    }
}

#[derive(Clone, Copy, Debug, PartialEq, Eq)]
pub enum ROp {
    Consult,
    ExistsFirst,
}

/// The reference: what the table should hold.
struct Reference {
    cap: usize,
    list: Vec<u64>,
    last_id: Option<u64>,
}

impl Reference {
    fn remove(&mut self, id: u64) {
        if let Some(i) = self.list.iter().position(|x| *x == id) {
            self.list.swap_remove(i);
        }
    }
    fn remove_if(&mut self, f: impl Fn(u64) -> bool) {
        let mut i = 0;
        while i < self.list.len() {
            if f(self.list[i]) {
                self.list.swap_remove(i);
            } else {
                i += 1;
            }
        }
    }
    fn set(&self) -> BTreeSet<u64> {
        self.list.iter().copied().collect()
    }
}

/// Run one writer operation against the real state and the reference; check its result.
fn writer_op(w: &<Shm as Backend>::Writer, r: &mut Reference, op: WOp, rng: &DetRng) {
    stats::op();
    stats::event(format!("writer: {} starts", op.letter()));
    match op {
        WOp::AddSeal | WOp::AddOpen => {
            let spec = ChanSpec::new(rng, if op == WOp::AddSeal { Dir::Seal } else { Dir::Open });
            let full = r.list.len() >= r.cap;
            match Shm::add(w, &spec) {
                Ok(id) => {
                    let id = id.to_u64();
                    if full {
                        oracle_fail!("add succeeded although the table is full");
                    }
                    if r.last_id.is_some_and(|l| id <= l) {
                        oracle_fail!("add returned id {id}, not larger than an id handed out before");
                    }
                    r.last_id = Some(id);
                    r.list.push(id);
                    stats::count("add_ok");
                }
                Err(e) => {
                    if !Shm::is_out_of_space(&e) {
                        oracle_fail!("add failed with {e}");
                    }
                    if !full {
                        oracle_fail!("add reported out-of-space although the table has room");
                    }
                    stats::count("add_out_of_space");
                }
            }
        }
        WOp::RemoveOldest | WOp::RemoveNewest | WOp::RemoveMissing => {
            let id = match op {
                WOp::RemoveOldest => r.list.iter().min().copied(),
                WOp::RemoveNewest => r.list.iter().max().copied(),
                _ => Some(1_000_000),
            };
            if let Some(id) = id {
                if let Err(e) = w.remove(LocalChannelId::new(id)) {
                    oracle_fail!("remove failed with {e}");
                }
                r.remove(id);
                stats::count("remove_done");
            } else {
                stats::count("remove_skipped_empty_table");
            }
        }
        WOp::RemoveIfEven | WOp::RemoveIfNone | WOp::RemoveIfEvery => {
            let pred = move |id: u64| match op {
                WOp::RemoveIfEven => id % 2 == 0,
                WOp::RemoveIfNone => false,
                _ => true,
            };
            let matching = r.list.iter().filter(|id| pred(**id)).count();
            if let Err(e) = w.remove_if(|p| pred(p.local_channel_id.to_u64())) {
                oracle_fail!("remove_if failed with {e}");
            }
            stats::count("remove_if_done");
            stats::count(if r.list.is_empty() {
                "remove_if_on_empty_table"
            } else if matching == 0 {
                "remove_if_matching_none_on_non_empty_table"
            } else if matching == r.list.len() {
                "remove_if_matching_all"
            } else {
                "remove_if_matching_some"
            });
            r.remove_if(pred);
        }
        WOp::RemoveAll => {
            if let Err(e) = w.remove_all() {
                oracle_fail!("remove_all failed with {e}");
            }
            r.list.clear();
            stats::count("remove_all_done");
        }
    }
    stats::event(format!("writer: {} returned; table should hold {:?}", op.letter(), r.list));
}

/// No writer operation is in progress: both copies must be the reference list.
fn check_quiescent(checker: &crate::Client<<Shm as Backend>::Reader>, w: &<Shm as Backend>::Writer, r: &Reference, ever: &BTreeSet<u64>) {
    let (rd, wr, same_copy) = verif_shm::both_copies(checker.state());
    if same_copy {
        oracle_fail!("read_off and write_off name the same copy while no writer operation is in progress");
    }
    if rd.ids != wr.ids {
        oracle_fail!("the two copies differ while no writer operation is in progress: read copy {:?}, write copy {:?}", rd.ids, wr.ids);
    }
    if rd.generation != wr.generation {
        oracle_fail!(
            "the two copies have different generations ({} and {}) while no writer operation is in progress",
            rd.generation,
            wr.generation
        );
    }
    if rd.ids != r.list {
        oracle_fail!("the table holds {:?}, the writer's operations produce {:?}", rd.ids, r.list);
    }
    if rd.len as usize != rd.ids.len() || rd.len > rd.cap || rd.cap as usize != r.cap {
        oracle_fail!("len/cap fields are off: len {} cap {} ids {:?}", rd.len, rd.cap, rd.ids);
    }
    for id in ever {
        let want = r.list.contains(id);
        if w.exists(LocalChannelId::new(*id)).expect("exists") != want
            || checker.state().exists(LocalChannelId::new(*id)).expect("exists") != want
        {
            oracle_fail!("exists({id}) disagrees with the table ({want})");
        }
    }
    stats::count("quiescent_points_checked");
}

fn body(cap: usize, preload: usize, wprog: &[WOp], rprogs: &[Vec<ROp>]) {
    let rng = DetRng::new(2);
    let (w, mut readers) = Shm::create(cap, rprogs.len() + 1);
    let checker = readers.pop().expect("checker handle");
    let mut reference = Reference { cap, list: Vec::new(), last_id: None };
    let mut ever: BTreeSet<u64> = BTreeSet::new();
    for _ in 0..preload {
        writer_op(&w, &mut reference, WOp::AddSeal, &rng);
    }
    ever.extend(reference.list.iter().copied());
    check_quiescent(&checker, &w, &reference, &ever);

    // The sets the writer will produce, in order (the reference run is deterministic).
    let mut produced: Vec<BTreeSet<u64>> = vec![reference.set()];
    {
        let mut sim = Reference { cap, list: reference.list.clone(), last_id: reference.last_id };
        let mut next_id = reference.last_id.map_or(0, |l| l + 1);
        for op in wprog {
            match op {
                WOp::AddSeal | WOp::AddOpen => {
                    // an add consumes an id even when it fails with out-of-space
                    if sim.list.len() < sim.cap {
                        sim.list.push(next_id);
                    }
                    next_id += 1;
                }
                WOp::RemoveOldest => {
                    if let Some(id) = sim.list.iter().min().copied() {
                        sim.remove(id);
                    }
                }
                WOp::RemoveNewest => {
                    if let Some(id) = sim.list.iter().max().copied() {
                        sim.remove(id);
                    }
                }
                WOp::RemoveMissing => {}
                WOp::RemoveIfEven => sim.remove_if(|id| id % 2 == 0),
                WOp::RemoveIfNone => {}
                WOp::RemoveIfEvery => sim.list.clear(),
                WOp::RemoveAll => sim.list.clear(),
            }
            produced.push(sim.set());
        }
    }
    let produced = Arc::new(produced);
    let first_id = reference.list.first().copied();

    let mut joins = Vec::new();
    for (c, prog) in readers.into_iter().zip(rprogs.iter().cloned()) {
        let produced = Arc::clone(&produced);
        joins.push(thread::spawn(move || {
            let mut seen = Vec::new();
            for op in prog {
                stats::op();
                match op {
                    ROp::Consult => {
                        let v = verif_shm::consult(c.state());
                        let set: BTreeSet<u64> = v.ids.iter().copied().collect();
                        stats::event(format!("reader: consults the table, sees {:?} (generation {})", v.ids, v.generation));
                        if set.len() != v.ids.len() {
                            oracle_fail!("a consulted table lists a channel twice: {:?}", v.ids);
                        }
                        if v.len as usize != v.ids.len() || v.len > v.cap {
                            oracle_fail!("a consulted table has len {} cap {} but lists {:?}", v.len, v.cap, v.ids);
                        }
                        match produced.iter().position(|p| *p == set) {
                            Some(i) => seen.push(format!("S{i}")),
                            None => oracle_fail!("a consulted table holds {:?}, which is none of the sets the writer produced ({:?})", v.ids, produced),
                        }
                        stats::count("tables_consulted");
                    }
                    ROp::ExistsFirst => {
                        let Some(id) = first_id else { continue };
                        let got = c.state().exists(LocalChannelId::new(id)).expect("exists");
                        stats::event(format!("reader: exists({id}) -> {got}"));
                        let in_all = produced.iter().all(|p| p.contains(&id));
                        let in_none = produced.iter().all(|p| !p.contains(&id));
                        if (in_all && !got) || (in_none && got) {
                            oracle_fail!("exists({id}) returned {got}, which no produced set explains");
                        }
                        seen.push(format!("e{}", u8::from(got)));
                        stats::count("exists_calls");
                    }
                }
            }
            seen.join(",")
        }));
    }

    for op in wprog {
        writer_op(&w, &mut reference, *op, &rng);
        ever.extend(reference.list.iter().copied());
        if joins.is_empty() {
            // sequential family: quiescent after every operation
            check_quiescent(&checker, &w, &reference, &ever);
        }
    }
    let mut outcomes = Vec::new();
    for j in joins {
        outcomes.push(j.join().expect("reader panicked"));
    }
    check_quiescent(&checker, &w, &reference, &ever);
    drop(w);
    drop(checker);
    Shm::destroy();
    stats::outcome(format!("final table {:?}; readers saw [{}]", reference.list, outcomes.join(" | ")));
}

fn sequences(alphabet: &[WOp], max_len: usize, min_len: usize) -> Vec<Vec<WOp>> {
    let mut out = Vec::new();
    fn rec(cur: &mut Vec<WOp>, alphabet: &[WOp], max_len: usize, min_len: usize, out: &mut Vec<Vec<WOp>>) {
        if cur.len() >= min_len {
            out.push(cur.clone());
        }
        if cur.len() == max_len {
            return;
        }
        for op in alphabet {
            cur.push(*op);
            rec(cur, alphabet, max_len, min_len, out);
            cur.pop();
        }
    }
    rec(&mut Vec::new(), alphabet, max_len, min_len, &mut out);
    out
}

/// params: [family (0 sequential | 1 one reader | 2 two readers), capacity, max writer sequence length, shard, shards]
pub fn scenarios(params: &[i64]) -> Vec<Scenario> {
    let family = params.first().copied().unwrap_or(0);
    let cap = params.get(1).copied().unwrap_or(2) as usize;
    let max_len = params.get(2).copied().unwrap_or(3) as usize;
    let shard = params.get(3).copied().unwrap_or(0) as usize;
    let shards = params.get(4).copied().unwrap_or(1).max(1) as usize;
    let mut all: Vec<(usize, Vec<WOp>, Vec<Vec<ROp>>)> = Vec::new();
    if family == 0 {
        let alphabet = [
            WOp::AddSeal,
            WOp::AddOpen,
            WOp::RemoveOldest,
            WOp::RemoveNewest,
            WOp::RemoveMissing,
            WOp::RemoveIfEven,
            WOp::RemoveIfNone,
            WOp::RemoveIfEvery,
            WOp::RemoveAll,
        ];
        for s in sequences(&alphabet, max_len, 1) {
            all.push((0, s, Vec::new()));
        }
    } else {
        let alphabet = [WOp::AddSeal, WOp::RemoveOldest, WOp::RemoveIfEven, WOp::RemoveIfNone, WOp::RemoveAll];
        let rprogs: Vec<Vec<Vec<ROp>>> = if family == 1 {
            vec![vec![vec![ROp::Consult, ROp::Consult]], vec![vec![ROp::ExistsFirst, ROp::Consult]], vec![vec![ROp::Consult, ROp::ExistsFirst]]]
        } else {
            vec![vec![vec![ROp::Consult], vec![ROp::Consult]], vec![vec![ROp::Consult], vec![ROp::ExistsFirst]]]
        };
        for s in sequences(&alphabet, max_len, 1) {
            for rp in &rprogs {
                all.push((2, s.clone(), rp.clone()));
            }
        }
    }
    all.into_iter()
        .enumerate()
        .filter(|(i, _)| i % shards == shard)
        .map(|(_, (preload, wp, rps))| {
            let name = format!(
                "c42 cap={cap} preloaded={preload} writer={} readers=[{}]",
                wp.iter().map(|o| o.letter()).collect::<String>(),
                rps.iter()
                    .map(|p| p.iter().map(|o| if *o == ROp::Consult { 'c' } else { 'e' }).collect::<String>())
                    .collect::<Vec<_>>()
                    .join(" | ")
            );
            Scenario::new(name, move || body(cap, preload, &wp, &rps))
        })
        .collect()
}
