//! C43 — the shared-memory futex mutex is exclusive and loses no wake-ups.
//!
//! Subject: `crate::mutex::Mutex` (the repository's bytes; atomics from loom, the futex system
//! call replaced by `futex_model`). `threads` lockers each run `rounds` lock / critical section /
//! unlock rounds; optionally one more thread issues a single unsolicited `FUTEX_WAKE` at an
//! arbitrary point (spurious wake-up).
//!
//! Oracles:
//! * the data behind the mutex is a loom cell: two holders at once ⇒ loom causality violation;
//! * every execution terminates: a sleeper that is never woken ⇒ loom reports a deadlock;
//! * `sys_unlock` never reports a bug;
//! * at the end the critical section was entered exactly `threads × rounds` times.

use std::sync::Arc;

use libc::FUTEX_WAKE;
use loom::{sync::atomic::AtomicU32, thread};

use super::{Scenario, cell::Guarded, futex_model, stats};
use crate::{mutex::Mutex, oracle_fail};

/// params: [threads, rounds, spurious_waker(0|1)]
pub fn scenarios(params: &[i64]) -> Vec<Scenario> {
    let threads = params.first().copied().unwrap_or(2) as usize;
    let rounds = params.get(1).copied().unwrap_or(1) as usize;
    let spurious = params.get(2).copied().unwrap_or(0) != 0;
    vec![Scenario::new(
        format!("c43 lockers={threads} rounds={rounds} spurious_waker={}", u8::from(spurious)),
        move || body(threads, rounds, spurious),
    )]
}

fn locker(m: &Mutex<Guarded>, who: u8, rounds: usize) {
    for _ in 0..rounds {
        stats::op();
        stats::event("lock() called");
        let guard = m.lock().expect("lock is infallible");
        stats::event("lock() returned: in critical section");
        guard.enter(who);
        // Release through `sys_unlock` directly (what `MutexGuard::drop` calls) so that its
        // result is visible; the guard is only a reference to the mutex.
        core::mem::forget(guard);
        stats::op();
        stats::event("sys_unlock() called");
        if let Err(bug) = m.sys_unlock() {
            oracle_fail!("sys_unlock reported a bug: {bug}");
        }
        stats::event("sys_unlock() returned");
    }
}

fn body(threads: usize, rounds: usize, spurious: bool) {
    let m = Arc::new(Mutex::new(Guarded::new()));

    // `Mutex` is `repr(C)` with the futex word first; check that before relying on it for the
    // unsolicited wake (single-threaded here, so this adds no interleavings).
    let word: *const AtomicU32 = Arc::as_ptr(&m).cast::<AtomicU32>();
    if spurious {
        // SAFETY: `word` points at the live mutex's first field (verified right here).
        let load = || unsafe { (*word).load(loom::sync::atomic::Ordering::SeqCst) };
        if load() != 0 {
            panic!("harness: futex word not found at offset 0 (unlocked != 0)");
        }
        let g = m.lock().expect("lock is infallible");
        if load() != 1 {
            panic!("harness: futex word not found at offset 0 (locked != 1)");
        }
        drop(g);
    }

    let mut handles = Vec::new();
    for t in 1..threads {
        let m = Arc::clone(&m);
        handles.push(thread::spawn(move || locker(&m, t as u8, rounds)));
    }
    if spurious {
        let m = Arc::clone(&m);
        handles.push(thread::spawn(move || {
            let word: *const AtomicU32 = Arc::as_ptr(&m).cast::<AtomicU32>();
            stats::count("unsolicited_wake_issued");
            stats::event("unsolicited wake:");
            let woke = futex_model(word, FUTEX_WAKE, 1);
            if woke > 0 {
                stats::count("unsolicited_wake_hit_a_sleeper");
            }
        }));
    }
    locker(&m, 0, rounds);
    for h in handles {
        h.join().expect("thread panicked");
    }

    let data = m.lock().expect("lock is infallible");
    let entered = data.peek();
    let order = data.order();
    drop(data);
    if entered as usize != threads * rounds {
        oracle_fail!("critical section entered {entered} times, expected {}", threads * rounds);
    }
    stats::outcome(format!("acquisition order {order:?}"));
}
