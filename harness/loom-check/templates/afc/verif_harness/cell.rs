//! Exclusive payloads handed out by the subject are loom cells: overlapping access (two lock
//! holders, two loans) is reported by loom's causality checker itself, not inferred.

use loom::cell::UnsafeCell;

/// Data that the subject promises to hand out exclusively.
pub struct Guarded {
    cell: UnsafeCell<Inner>,
}

#[derive(Default)]
struct Inner {
    entries: u32,
    order: Vec<u8>,
}

// SAFETY: this is the point — the subject's synchronisation is what is supposed to make the
// accesses exclusive; loom checks every access against the happens-before relation.
unsafe impl Send for Guarded {}
// SAFETY: see above.
unsafe impl Sync for Guarded {}

impl Guarded {
    pub fn new() -> Self {
        Self { cell: UnsafeCell::new(Inner::default()) }
    }

    /// Exclusive (write) access by `who`.
    pub fn enter(&self, who: u8) {
        self.cell.with_mut(|p| {
            // SAFETY: loom has just verified that no other access is concurrent.
            let inner = unsafe { &mut *p };
            inner.entries += 1;
            inner.order.push(who);
        });
    }

    /// Shared (read) access.
    pub fn peek(&self) -> u32 {
        // SAFETY: loom has just verified that no write is concurrent.
        self.cell.with(|p| unsafe { (*p).entries })
    }

    pub fn order(&self) -> Vec<u8> {
        // SAFETY: loom has just verified that no write is concurrent.
        self.cell.with(|p| unsafe { (*p).order.clone() })
    }
}

impl Default for Guarded {
    fn default() -> Self {
        Self::new()
    }
}

impl core::fmt::Debug for Guarded {
    fn fmt(&self, f: &mut core::fmt::Formatter<'_>) -> core::fmt::Result {
        f.write_str("Guarded")
    }
}
