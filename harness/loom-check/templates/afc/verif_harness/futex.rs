//! Model of the Linux futex system call, substituted for the raw `syscall(SYS_futex, …)`
//! expression in `mutex::linux::futex()`.
//!
//! Semantics modelled (futex(2)):
//! * `FUTEX_WAIT(addr, val)`: atomically with respect to other futex operations on `addr`, load
//!   `*addr`; if it differs from `val` fail with `EAGAIN`; otherwise enqueue the caller and block
//!   until a wake-up is granted to it.
//! * `FUTEX_WAKE(addr, n)`: wake at most `n` of the callers currently enqueued on `addr`; returns
//!   the number woken. A wake-up that finds nobody enqueued is lost (it is NOT remembered).
//!
//! Spurious returns from `FUTEX_WAIT` are modelled by an extra thread issuing an unsolicited
//! `FUTEX_WAKE` (see `c43`). The wait queue is guarded by a loom mutex; blocking is a loom condvar
//! wait, so a sleeper that nobody will ever wake is reported by loom as a deadlock.

use std::collections::BTreeMap;

use libc::{EAGAIN, FUTEX_WAIT, FUTEX_WAKE, c_int, c_long};
use loom::sync::{
    Condvar, Mutex,
    atomic::{AtomicU32, Ordering},
};

use super::stats;

#[derive(Default)]
struct Queue {
    /// enqueued callers that have not been granted a wake-up yet
    sleepers: usize,
    /// wake-ups granted but not yet consumed
    tokens: usize,
}

struct Futexes {
    queues: Mutex<BTreeMap<usize, Queue>>,
    cond: Condvar,
}

loom::lazy_static! {
    static ref FUTEXES: Futexes = Futexes { queues: Mutex::new(BTreeMap::new()), cond: Condvar::new() };
}

fn set_errno(e: c_int) {
    // SAFETY: `__errno_location` returns the calling thread's errno slot.
    unsafe { *libc::__errno_location() = e };
}

/// See the module documentation.
pub fn futex_model(uaddr: *const AtomicU32, futex_op: c_int, val: u32) -> c_long {
    // A shared (non-PRIVATE) futex is keyed by the memory object behind the address, not by the
    // virtual address: the writer's and a reader's mapping of the same shm object must meet in
    // one queue. The identity of the word is the loom object it denotes; a loom atomic is one
    // word holding the index of its state in the execution's object store, and both mappings
    // show the same bytes.
    const _: () = assert!(core::mem::size_of::<AtomicU32>() == core::mem::size_of::<usize>());
    // SAFETY: `uaddr` points at a live loom atomic (see above for its layout).
    let addr = unsafe { core::ptr::read(uaddr.cast::<usize>()) };
    stats::op();
    match futex_op {
        FUTEX_WAIT => {
            stats::count("futex_wait_calls");
            let mut q = FUTEXES.queues.lock().unwrap();
            // SAFETY: the caller passes a reference to a live atomic.
            let cur = unsafe { (*uaddr).load(Ordering::SeqCst) };
            if cur != val {
                stats::count("futex_wait_eagain");
                stats::event(format!("FUTEX_WAIT(expect {val}) -> EAGAIN (word is {cur})"));
                drop(q);
                set_errno(EAGAIN);
                return -1;
            }
            q.entry(addr).or_default().sleepers += 1;
            stats::count("futex_wait_blocked");
            stats::event(format!("FUTEX_WAIT(expect {val}) -> word matches, enqueued, sleeping"));
            loop {
                q = FUTEXES.cond.wait(q).unwrap();
                let e = q.entry(addr).or_default();
                if e.tokens > 0 {
                    e.tokens -= 1;
                    break;
                }
            }
            drop(q);
            stats::count("futex_wait_woken");
            stats::event("FUTEX_WAIT returns (woken)");
            0
        }
        FUTEX_WAKE => {
            stats::count("futex_wake_calls");
            let mut q = FUTEXES.queues.lock().unwrap();
            let e = q.entry(addr).or_default();
            let k = core::cmp::min(val as usize, e.sleepers);
            e.sleepers -= k;
            e.tokens += k;
            drop(q);
            stats::event(format!("FUTEX_WAKE({val}) -> woke {k} sleeper(s)"));
            if k > 0 {
                stats::count("futex_wake_woke_sleeper");
                FUTEXES.cond.notify_all();
            } else {
                stats::count("futex_wake_nobody_waiting");
            }
            k as c_long
        }
        op => panic!("futex model: unsupported futex_op {op}"),
    }
}
