//! Model bodies for the loom checks of aranya-fast-channels (C40–C44).
//!
//! This module is NOT part of the repository: `loom-check/prebuild` copies it into the check-time
//! copy of the crate (DESIGN.md 4.6) so that the bodies can reach crate-private items
//! (`mutex::Mutex`, `memory::lender`, `shm::shared`). The subject code around it is the
//! repository's, with only its synchronisation primitives redirected to loom.

#![allow(dead_code, unreachable_pub, clippy::unwrap_used, clippy::expect_used, clippy::panic)]

use std::sync::Arc;

pub mod cell;
pub mod futex;
pub mod stats;

pub mod c40;
pub mod c41;
pub mod c42;
pub mod c43;
pub mod world;

pub use futex::futex_model;

/// One loom model: `body` is executed once per explored interleaving.
pub struct Scenario {
    pub name: String,
    pub body: Arc<dyn Fn() + Send + Sync + 'static>,
}

impl Scenario {
    pub fn new(name: impl Into<String>, body: impl Fn() + Send + Sync + 'static) -> Self {
        Self { name: name.into(), body: Arc::new(body) }
    }
}

/// The scenarios of a named model for the given parameters (`None`: unknown model).
pub fn scenarios(model: &str, params: &[i64]) -> Option<Vec<Scenario>> {
    match model {
        "c40" => Some(c40::scenarios(params)),
        "c41" => Some(c41::scenarios(params)),
        "c42" => Some(c42::scenarios(params)),
        "c43" => Some(c43::scenarios(params)),
        "c44" => Some(crate::memory::verif_c44::scenarios(params)),
        _ => None,
    }
}

/// An oracle failure: reported through a panic so that loom stops at the offending execution
/// (the parent process parses the message; the text after `ORACLE:` is the stable key).
#[macro_export]
macro_rules! oracle_fail {
    ($($t:tt)*) => {
        panic!("ORACLE: {}", format!($($t)*))
    };
}
