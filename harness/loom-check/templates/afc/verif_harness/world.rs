//! Shared set-up for the channel-state models (C40, C41, C42): deterministic key material, the
//! two state implementations behind one trait, and seal/open helpers that go through the real
//! `Client`.
//!
//! * shm: the repository's `WriteState` / `ReadState` on a real `shm_open` mapping (unlinked and
//!   re-created for every execution under a per-process name), with the real futex mutex
//!   (rewritten only per DESIGN.md 4.6) and loom atomics inside the mapping.
//! * memory: the repository's `memory::State` with `Arc` / `Mutex` taken from loom.

use core::cell::Cell;

use aranya_crypto::{
    Csprng, DeviceId, Random as _,
    afc::{AuthData, OpenKey, RawOpenKey, RawSealKey, SealKey, Seq},
    default::DefaultCipherSuite,
    policy::LabelId,
};

use crate::{
    AfcState, AranyaState, Client, Directed, Error, LocalChannelId, Version,
    header::DataHeader,
    memory,
    shm::{self, Flag, Mode, Path, ReadState, WriteState},
};

pub type CS = DefaultCipherSuite;

/// Counter-mode generator (splitmix64): the same bytes in every execution and every process.
pub struct DetRng(Cell<u64>);

impl DetRng {
    pub fn new(seed: u64) -> Self {
        Self(Cell::new(seed ^ 0x9e37_79b9_7f4a_7c15))
    }
    fn next(&self) -> u64 {
        let mut z = self.0.get().wrapping_add(0x9e37_79b9_7f4a_7c15);
        self.0.set(z);
        z = (z ^ (z >> 30)).wrapping_mul(0xbf58_476d_1ce4_e5b9);
        z = (z ^ (z >> 27)).wrapping_mul(0x94d0_49bb_1331_11eb);
        z ^ (z >> 31)
    }
}

impl Csprng for DetRng {
    fn fill_bytes(&self, dst: &mut [u8]) {
        for chunk in dst.chunks_mut(8) {
            let v = self.next().to_le_bytes();
            chunk.copy_from_slice(&v[..chunk.len()]);
        }
    }
}

pub const PLAINTEXT: &[u8] = b"afc!";

#[derive(Clone, Copy, Debug, PartialEq, Eq)]
pub enum Dir {
    Seal,
    Open,
}

/// Key material of one channel, plus (for open channels) a valid ciphertext with sequence 0.
pub struct ChanSpec {
    pub dir: Dir,
    pub label: LabelId,
    pub peer: DeviceId,
    pub raw_seal: RawSealKey<CS>,
    pub raw_open: RawOpenKey<CS>,
    pub ciphertext: Vec<u8>,
}

impl ChanSpec {
    pub fn new(rng: &DetRng, dir: Dir) -> Self {
        let raw_seal: RawSealKey<CS> = RawSealKey::random(rng);
        // the peer's opening key for what `raw_seal` seals
        let raw_open = RawOpenKey::<CS> { key: raw_seal.key.clone(), base_nonce: raw_seal.base_nonce.clone() };
        let mut b = [0u8; 32];
        rng.fill_bytes(&mut b);
        let label = LabelId::from_bytes(b);
        rng.fill_bytes(&mut b);
        let peer = DeviceId::from_bytes(b);
        let ciphertext = match dir {
            Dir::Seal => Vec::new(),
            Dir::Open => {
                // what the peer would send: ciphertext || tag || header(seq)
                let mut key = SealKey::<CS>::from_raw(&raw_seal, Seq::ZERO).expect("import seal key");
                let mut out = vec![0u8; PLAINTEXT.len() + SealKey::<CS>::OVERHEAD + DataHeader::PACKED_SIZE];
                let n = PLAINTEXT.len() + SealKey::<CS>::OVERHEAD;
                let ad = AuthData { version: u32::from(Version::current().to_u16()), label_id: label };
                let seq = key.seal(&mut out[..n], PLAINTEXT, &ad).expect("seal for the peer");
                let hdr: &mut [u8; DataHeader::PACKED_SIZE] = (&mut out[n..]).try_into().expect("header size");
                DataHeader { seq }.encode(hdr).expect("encode header");
                out
            }
        };
        Self { dir, label, peer, raw_seal, raw_open, ciphertext }
    }
}

/// The two state implementations behind one interface.
pub trait Backend: 'static {
    const NAME: &'static str;
    type Writer: AranyaState + 'static;
    type Reader: AfcState<CipherSuite = CS> + 'static;

    /// A fresh, empty state with room for `cap` channels, and `readers` reader-side handles.
    fn create(cap: usize, readers: usize) -> (Self::Writer, Vec<Client<Self::Reader>>);
    fn add(w: &Self::Writer, spec: &ChanSpec) -> Result<LocalChannelId, <Self::Writer as AranyaState>::Error>;
    fn is_out_of_space(e: &<Self::Writer as AranyaState>::Error) -> bool;
    /// One more reader-side handle onto the state made by the last `create`.
    fn reopen() -> Self::Reader;
    fn destroy() {}
}

thread_local! {
    /// all loom threads of a process run on one OS thread
    static LAST_MEM: core::cell::RefCell<Option<memory::State<CS>>> = const { core::cell::RefCell::new(None) };
    static LAST_CAP: Cell<usize> = const { Cell::new(0) };
}

pub struct Shm;
pub struct Mem;

fn shm_path() -> Box<Path> {
    let name = format!("/loomck-{}\0", std::process::id());
    Box::<Path>::try_from(name.as_str()).expect("valid shm path")
}

impl Backend for Shm {
    const NAME: &'static str = "shm";
    type Writer = WriteState<CS, DetRng>;
    type Reader = ReadState<CS>;

    fn create(cap: usize, readers: usize) -> (Self::Writer, Vec<Client<Self::Reader>>) {
        let path = shm_path();
        LAST_CAP.with(|c| c.set(cap));
        let _ = shm::unlink(&*path);
        let w = WriteState::open(&*path, Flag::Create, Mode::ReadWrite, cap, DetRng::new(7)).expect("create shm state");
        let rs = (0..readers)
            .map(|_| Client::new(ReadState::open(&*path, Flag::OpenOnly, Mode::ReadWrite, cap).expect("open shm state")))
            .collect();
        (w, rs)
    }

    fn add(w: &Self::Writer, spec: &ChanSpec) -> Result<LocalChannelId, shm::Error> {
        let keys = match spec.dir {
            Dir::Seal => Directed::SealOnly { seal: spec.raw_seal.clone() },
            Dir::Open => Directed::OpenOnly { open: spec.raw_open.clone() },
        };
        w.add(keys, spec.label, spec.peer)
    }

    fn is_out_of_space(e: &shm::Error) -> bool {
        matches!(e, shm::Error::OutOfSpace)
    }

    fn reopen() -> Self::Reader {
        let cap = LAST_CAP.with(|c| c.get());
        ReadState::open(&*shm_path(), Flag::OpenOnly, Mode::ReadWrite, cap).expect("open shm state")
    }

    fn destroy() {
        let _ = shm::unlink(&*shm_path());
    }
}

impl Backend for Mem {
    const NAME: &'static str = "memory";
    type Writer = memory::State<CS>;
    type Reader = memory::State<CS>;

    fn create(_cap: usize, readers: usize) -> (Self::Writer, Vec<Client<Self::Reader>>) {
        let s = memory::State::<CS>::new();
        let rs = (0..readers).map(|_| Client::new(s.clone())).collect();
        LAST_MEM.with(|m| *m.borrow_mut() = Some(s.clone()));
        (s, rs)
    }

    fn reopen() -> Self::Reader {
        LAST_MEM.with(|m| m.borrow().clone()).expect("create was called")
    }

    fn destroy() {
        LAST_MEM.with(|m| *m.borrow_mut() = None);
    }

    fn add(w: &Self::Writer, spec: &ChanSpec) -> Result<LocalChannelId, Error> {
        let keys = match spec.dir {
            Dir::Seal => Directed::SealOnly { seal: SealKey::from_raw(&spec.raw_seal, Seq::ZERO).expect("import") },
            Dir::Open => Directed::OpenOnly { open: OpenKey::from_raw(&spec.raw_open).expect("import") },
        };
        w.add(keys, spec.label, spec.peer)
    }

    fn is_out_of_space(e: &Error) -> bool {
        matches!(e, Error::OutOfSpace)
    }
}

/// Result of one reader operation, in the statement's terms.
#[derive(Clone, Debug, PartialEq, Eq)]
pub enum OpResult {
    /// seal succeeded with this sequence number / open succeeded and returned the plaintext
    Ok(u64),
    NotFound,
    /// any other error (text)
    Other(String),
}

impl OpResult {
    pub fn short(&self) -> String {
        match self {
            OpResult::Ok(s) => format!("ok(seq {s})"),
            OpResult::NotFound => "not-found".into(),
            OpResult::Other(e) => format!("error({e})"),
        }
    }
}

fn classify(id: LocalChannelId, r: Result<u64, Error>) -> OpResult {
    match r {
        Ok(s) => OpResult::Ok(s),
        Err(Error::NotFound(got)) if got == id => OpResult::NotFound,
        Err(e) => OpResult::Other(e.to_string()),
    }
}

/// `Client::seal` of a fixed plaintext; the sequence number is read back from the header the
/// client wrote.
pub fn seal_once<S: AfcState<CipherSuite = CS>>(c: &Client<S>, ctx: &mut S::SealCtx, id: LocalChannelId) -> OpResult {
    let mut dst = vec![0u8; PLAINTEXT.len() + Client::<S>::OVERHEAD];
    let r = c.seal(ctx, &mut dst, PLAINTEXT).map(|_| {
        let hdr: &[u8; DataHeader::PACKED_SIZE] =
            dst[dst.len() - DataHeader::PACKED_SIZE..].try_into().expect("header size");
        DataHeader::try_parse(hdr).expect("header written by seal").seq.to_u64()
    });
    classify(id, r)
}

/// `Client::open` of the peer's ciphertext; on success the plaintext must be the peer's.
pub fn open_once<S: AfcState<CipherSuite = CS>>(
    c: &Client<S>,
    ctx: &mut S::OpenCtx,
    id: LocalChannelId,
    spec: &ChanSpec,
) -> OpResult {
    let mut dst = vec![0u8; PLAINTEXT.len()];
    let r = c.open(ctx, &mut dst, &spec.ciphertext).map(|(label, seq)| {
        if dst != PLAINTEXT || label != spec.label {
            crate::oracle_fail!("open returned the wrong plaintext or label");
        }
        seq.to_u64()
    });
    classify(id, r)
}
