//! C33 — `ArcStr` (shared heap text) is memory safe across threads.
//!
//! Subject: `crate::arc::ArcStr`, the repository's `mod arc` of aranya-policy-text/src/repr.rs with
//! its atomics taken from loom and its allocation calls routed through `crate::shim`.
//!
//! A scenario assigns one program to each participant (the main thread and 1–2 spawned threads).
//! Every participant starts with one handle to the same text; a program is a sequence over
//! `C` (clone a held handle), `R` (read the text through a held handle and compare it),
//! `D` (drop a held handle), `S` (clone a handle and hand it to a newly spawned thread which reads
//! and drops it). Handles still held at the end of a program are dropped in order. All valid
//! programs up to the length bound are enumerated; loom explores every interleaving of each.
//!
//! Oracles: loom's allocation tracker (double free, leak at the end of the execution), the shim's
//! side table (read or free after free) and loom's causality checker on the shim's cell (a free
//! that is not ordered after every read).

use std::sync::Arc;

use loom::thread;

use crate::{arc::ArcStr, shim, stats};

const TEXT: &str = "shared heap text that is too long for the inline representation";

pub struct Scenario {
    pub name: String,
    pub body: Arc<dyn Fn() + Send + Sync + 'static>,
}

#[derive(Clone, Copy, Debug, PartialEq, Eq, PartialOrd, Ord)]
pub enum Op {
    Clone,
    Read,
    Drop,
    Send,
}

impl Op {
    fn letter(self) -> char {
        match self {
            Op::Clone => 'C',
            Op::Read => 'R',
            Op::Drop => 'D',
            Op::Send => 'S',
        }
    }
}

pub type Program = Vec<Op>;

fn show(p: &Program) -> String {
    if p.is_empty() { "-".to_string() } else { p.iter().map(|o| o.letter()).collect() }
}

/// All valid programs of length ≤ `max_len` for a participant that starts with one handle.
pub fn programs(max_len: usize, allow_send: bool) -> Vec<Program> {
    fn rec(cur: &mut Program, held: usize, sends: usize, max_len: usize, allow_send: bool, out: &mut Vec<Program>) {
        out.push(cur.clone());
        if cur.len() == max_len || held == 0 {
            return;
        }
        let mut alphabet = vec![(Op::Clone, held + 1, sends), (Op::Read, held, sends), (Op::Drop, held - 1, sends)];
        if allow_send && sends == 0 {
            alphabet.push((Op::Send, held, 1));
        }
        for (op, h, s) in alphabet {
            cur.push(op);
            rec(cur, h, s, max_len, allow_send, out);
            cur.pop();
        }
    }
    let mut out = Vec::new();
    rec(&mut Vec::new(), 1, 0, max_len, allow_send, &mut out);
    out
}

fn read_and_check(s: &ArcStr) {
    stats::op();
    stats::event("reads the text");
    let got = s.as_ref();
    if got != TEXT {
        panic!("ORACLE: text read through a live handle differs from what was stored");
    }
}

fn run_program(first: ArcStr, prog: &Program) {
    let mut held = vec![first];
    let mut spawned = Vec::new();
    for op in prog {
        match op {
            Op::Clone => {
                stats::op();
                stats::event("clones a handle");
                let c = held[0].clone();
                held.push(c);
            }
            Op::Read => read_and_check(held.last().expect("valid program")),
            Op::Drop => {
                stats::op();
                stats::event("drops a handle");
                drop(held.pop().expect("valid program"));
                stats::event("drop returned");
            }
            Op::Send => {
                stats::op();
                stats::event("clones a handle and sends it to a new thread");
                let c = held[0].clone();
                spawned.push(thread::spawn(move || {
                    read_and_check(&c);
                    stats::op();
                    stats::event("drops the received handle");
                    drop(c);
                    stats::event("drop returned");
                }));
            }
        }
    }
    for h in held {
        stats::op();
        stats::event("drops a handle (end of program)");
        drop(h);
        stats::event("drop returned");
    }
    for j in spawned {
        j.join().expect("thread panicked");
    }
}

fn body(progs: &[Program]) {
    shim::reset();
    let original = ArcStr::new(TEXT);
    let mut joins = Vec::new();
    for p in &progs[1..] {
        let handle = original.clone();
        let p = p.clone();
        joins.push(thread::spawn(move || run_program(handle, &p)));
    }
    run_program(original, &progs[0]);
    for j in joins {
        j.join().expect("thread panicked");
    }
    if shim::live() != 0 {
        panic!("ORACLE: text storage leaked (still allocated after every handle was dropped)");
    }
    shim::finish();
    stats::outcome(format!("storage freed by {}", shim::freed_by().unwrap_or_else(|| "nobody".into())));
    stats::count("executions_ending_with_storage_freed");
}

/// params: [participants (2|3), max program length, allow_send (0|1), shard, shards]
pub fn scenarios(model: &str, params: &[i64]) -> Option<Vec<Scenario>> {
    if model != "c33" {
        return None;
    }
    let participants = params.first().copied().unwrap_or(2) as usize;
    let max_len = params.get(1).copied().unwrap_or(2) as usize;
    let allow_send = params.get(2).copied().unwrap_or(0) != 0;
    let shard = params.get(3).copied().unwrap_or(0) as usize;
    let shards = params.get(4).copied().unwrap_or(1).max(1) as usize;
    let progs = programs(max_len, allow_send);
    // The spawned participants are symmetric: enumerate multisets for them, any program for main.
    let mut combos: Vec<Vec<Program>> = Vec::new();
    for p0 in &progs {
        for (i, p1) in progs.iter().enumerate() {
            if participants == 2 {
                combos.push(vec![p0.clone(), p1.clone()]);
            } else {
                for p2 in &progs[i..] {
                    combos.push(vec![p0.clone(), p1.clone(), p2.clone()]);
                }
            }
        }
    }
    // loom supports at most 5 threads: main + spawned participants + sent-to threads
    combos.retain(|c| {
        let sends: usize = c.iter().map(|p| p.iter().filter(|o| **o == Op::Send).count()).sum();
        c.len() + sends <= loom::MAX_THREADS
    });
    let out = combos
        .into_iter()
        .enumerate()
        .filter(|(i, _)| i % shards == shard)
        .map(|(_, c)| {
            let name = format!("c33 [{}]", c.iter().map(show).collect::<Vec<_>>().join(" | "));
            Scenario { name, body: Arc::new(move || body(&c)) }
        })
        .collect();
    Some(out)
}
