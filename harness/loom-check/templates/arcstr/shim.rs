//! Allocation shims for the extracted `ArcStr` (C33).
//!
//! `alloc` / `dealloc` forward to `loom::alloc` (double free and leak tracking) and keep a side
//! table `pointer → loom cell`. `dealloc` performs a tracked *write* of the cell and
//! `ArcStr::as_ref` (through `tracked_read`) a tracked *read*, so a free that does not
//! happen-after every read of the text is reported by loom as a causality violation, and a read
//! or a second free after the free is reported directly.
//!
//! Freed storage is quarantined until the end of the execution (`finish`) instead of being
//! returned to the allocator at once: a subject that keeps using freed storage then runs on
//! deterministically into one of the oracles instead of corrupting the process.
//!
//! The table itself is guarded by a `std` mutex, which loom does not see: it adds neither
//! scheduling points nor happens-before edges to the execution under test.

use std::{
    alloc::Layout,
    collections::HashMap,
    sync::{Arc, Mutex},
};

use crate::stats;

struct Cell(loom::cell::UnsafeCell<()>);
// SAFETY: all accesses go through loom's tracked `with` / `with_mut`; detecting unsynchronised
// use is the purpose of the cell.
unsafe impl Send for Cell {}
// SAFETY: see above.
unsafe impl Sync for Cell {}

static TABLE: Mutex<Option<HashMap<usize, Arc<Cell>>>> = Mutex::new(None);
/// which loom thread freed the storage in this execution
static FREED_BY: Mutex<Option<String>> = Mutex::new(None);
/// freed in this execution, really released by `finish`
static QUARANTINE: Mutex<Vec<(usize, Layout)>> = Mutex::new(Vec::new());

fn table<R>(f: impl FnOnce(&mut HashMap<usize, Arc<Cell>>) -> R) -> R {
    let mut g = TABLE.lock().unwrap_or_else(|e| e.into_inner());
    f(g.get_or_insert_with(HashMap::new))
}

/// Start of a loom execution: no storage is live.
pub fn reset() {
    table(|t| t.clear());
    QUARANTINE.lock().unwrap_or_else(|e| e.into_inner()).clear();
    *FREED_BY.lock().unwrap_or_else(|e| e.into_inner()) = None;
}

pub fn freed_by() -> Option<String> {
    FREED_BY.lock().unwrap_or_else(|e| e.into_inner()).clone()
}

/// End of a loom execution (every thread joined): release the quarantined storage for real.
pub fn finish() {
    let q = std::mem::take(&mut *QUARANTINE.lock().unwrap_or_else(|e| e.into_inner()));
    for (p, layout) in q {
        // SAFETY: `p` was allocated by `alloc` with `layout` and has not been released yet.
        unsafe { loom::alloc::dealloc(p as *mut u8, layout) };
    }
}

/// Number of live text allocations.
pub fn live() -> usize {
    table(|t| t.len())
}

/// # Safety
/// See [`std::alloc::alloc`].
pub unsafe fn alloc(layout: Layout) -> *mut u8 {
    stats::count("alloc");
    // SAFETY: forwarded contract.
    let p = unsafe { loom::alloc::alloc(layout) };
    if !p.is_null() {
        let cell = Arc::new(Cell(loom::cell::UnsafeCell::new(())));
        if table(|t| t.insert(p as usize, cell)).is_some() {
            panic!("harness: allocator returned live storage");
        }
    }
    p
}

/// # Safety
/// See [`std::alloc::dealloc`].
pub unsafe fn dealloc(ptr: *mut u8, layout: Layout) {
    stats::count("dealloc");
    let Some(cell) = table(|t| t.remove(&(ptr as usize))) else {
        panic!("ORACLE: text storage freed twice (or never allocated)");
    };
    // tracked write: must happen-after every tracked read
    cell.0.with_mut(|_| ());
    QUARANTINE.lock().unwrap_or_else(|e| e.into_inner()).push((ptr as usize, layout));
    stats::event("frees the text storage");
    *FREED_BY.lock().unwrap_or_else(|e| e.into_inner()) = Some(format!("{:?}", loom::thread::current().id()));
}

/// Inserted at the top of `ArcStr::as_ref`.
pub fn tracked_read(ptr: *const u8) {
    let Some(cell) = table(|t| t.get(&(ptr as usize)).cloned()) else {
        panic!("ORACLE: text storage read after it was freed");
    };
    cell.0.with(|_| ());
}
