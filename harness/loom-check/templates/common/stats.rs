//! Run statistics shared by the model bodies (copied verbatim into both generated crates).
//!
//! Everything here uses `std` primitives on purpose: they are invisible to loom, so counting
//! never adds scheduling points or happens-before edges to the execution under test. A std
//! mutex is never held across a loom operation.

use std::{
    collections::BTreeMap,
    sync::{
        Mutex,
        atomic::{AtomicU64, Ordering},
    },
};

/// Executions of the model closure (loom iterations) of the current scenario.
pub static ITER: AtomicU64 = AtomicU64::new(0);
/// Executions over all scenarios run by this process.
pub static ITER_TOTAL: AtomicU64 = AtomicU64::new(0);
/// Harness-level operations executed (lock, unlock, futex call, seal, remove, clone, drop, …).
pub static OPS: AtomicU64 = AtomicU64::new(0);

static COUNTERS: Mutex<BTreeMap<&'static str, u64>> = Mutex::new(BTreeMap::new());
static OUTCOMES: Mutex<BTreeMap<String, u64>> = Mutex::new(BTreeMap::new());
static SCENARIO: Mutex<String> = Mutex::new(String::new());
/// Harness-level events of the CURRENT execution, in execution order (the schedule in the model's
/// own terms); printed when the execution fails.
static EVENTS: Mutex<Vec<String>> = Mutex::new(Vec::new());

pub fn begin_scenario(name: &str) {
    *SCENARIO.lock().unwrap_or_else(|e| e.into_inner()) = name.to_string();
    ITER.store(0, Ordering::Relaxed);
}

pub fn scenario() -> String {
    SCENARIO.lock().unwrap_or_else(|e| e.into_inner()).clone()
}

pub fn begin_iteration() {
    EVENTS.lock().unwrap_or_else(|e| e.into_inner()).clear();
    ITER.fetch_add(1, Ordering::Relaxed);
    ITER_TOTAL.fetch_add(1, Ordering::Relaxed);
}

/// Record one step of the current execution (`who` = loom thread that performs it).
pub fn event(what: impl AsRef<str>) {
    let who = format!("{:?}", loom::thread::current().id());
    let who = who.trim_start_matches("ThreadId(").trim_end_matches(')').to_string();
    let mut e = EVENTS.lock().unwrap_or_else(|e| e.into_inner());
    if e.len() < 500 {
        e.push(format!("T{who}: {}", what.as_ref()));
    }
}

pub fn events() -> Vec<String> {
    EVENTS.lock().unwrap_or_else(|e| e.into_inner()).clone()
}

pub fn op() {
    OPS.fetch_add(1, Ordering::Relaxed);
}

pub fn count(name: &'static str) {
    *COUNTERS.lock().unwrap_or_else(|e| e.into_inner()).entry(name).or_insert(0) += 1;
}

/// Record the observable outcome of one execution (vacuity guard: distinct outcomes are reported).
pub fn outcome(s: String) {
    let mut m = OUTCOMES.lock().unwrap_or_else(|e| e.into_inner());
    if m.len() < 4096 || m.contains_key(&s) {
        *m.entry(s).or_insert(0) += 1;
    } else {
        *m.entry("(other)".to_string()).or_insert(0) += 1;
    }
}

pub struct Snapshot {
    pub iterations: u64,
    pub scenario_iterations: u64,
    pub ops: u64,
    pub counters: BTreeMap<String, u64>,
    pub outcomes: BTreeMap<String, u64>,
}

pub fn snapshot() -> Snapshot {
    Snapshot {
        iterations: ITER_TOTAL.load(Ordering::Relaxed),
        scenario_iterations: ITER.load(Ordering::Relaxed),
        ops: OPS.load(Ordering::Relaxed),
        counters: COUNTERS
            .lock()
            .unwrap_or_else(|e| e.into_inner())
            .iter()
            .map(|(k, v)| (k.to_string(), *v))
            .collect(),
        outcomes: OUTCOMES.lock().unwrap_or_else(|e| e.into_inner()).clone(),
    }
}
