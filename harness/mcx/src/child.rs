//! Child-process isolation: engines whose failures may abort the process (loom, stack
//! exhaustion, allocation failure) re-exec the current binary with `--child <name>`.

use std::{
    io::Read,
    process::{Command, Stdio},
    time::{Duration, Instant},
};

#[derive(Debug)]
pub struct ChildOutcome {
    pub code: Option<i32>,
    pub signal: Option<i32>,
    pub stdout: String,
    pub stderr: String,
    pub timed_out: bool,
    pub wall: Duration,
}

impl ChildOutcome {
    pub fn clean(&self) -> bool {
        self.code == Some(0) && !self.timed_out
    }
}

/// Re-run the current executable with the given args and environment additions.
pub fn run_self(args: &[String], env: &[(String, String)], timeout: Duration) -> ChildOutcome {
    let exe = std::env::current_exe().expect("current_exe");
    let mut cmd = Command::new(exe);
    cmd.args(args).stdin(Stdio::null()).stdout(Stdio::piped()).stderr(Stdio::piped());
    for (k, v) in env {
        cmd.env(k, v);
    }
    run(cmd, timeout)
}

pub fn run(mut cmd: Command, timeout: Duration) -> ChildOutcome {
    let start = Instant::now();
    cmd.stdin(Stdio::null()).stdout(Stdio::piped()).stderr(Stdio::piped());
    let mut child = cmd.spawn().unwrap_or_else(|e| crate::machinery_error(&format!("spawn child: {e}")));
    let mut so = child.stdout.take().unwrap();
    let mut se = child.stderr.take().unwrap();
    let t1 = std::thread::spawn(move || {
        let mut s = Vec::new();
        let _ = so.read_to_end(&mut s);
        String::from_utf8_lossy(&s).into_owned()
    });
    let t2 = std::thread::spawn(move || {
        let mut s = Vec::new();
        let _ = se.read_to_end(&mut s);
        String::from_utf8_lossy(&s).into_owned()
    });
    let mut timed_out = false;
    let status = loop {
        match child.try_wait() {
            Ok(Some(st)) => break st,
            Ok(None) => {
                if start.elapsed() > timeout {
                    timed_out = true;
                    let _ = child.kill();
                    break child.wait().expect("wait");
                }
                std::thread::sleep(Duration::from_millis(5));
            }
            Err(e) => crate::machinery_error(&format!("wait child: {e}")),
        }
    };
    use std::os::unix::process::ExitStatusExt;
    ChildOutcome {
        code: status.code(),
        signal: status.signal(),
        stdout: t1.join().unwrap_or_default(),
        stderr: t2.join().unwrap_or_default(),
        timed_out,
        wall: start.elapsed(),
    }
}
