//! Tiny exhaustive enumerators shared by the checkers.

/// All sequences of length exactly `len` over `0..k`, in lexicographic order, fed to `f`.
pub fn sequences(k: usize, len: usize, mut f: impl FnMut(&[usize])) {
    let mut cur = vec![0usize; len];
    if k == 0 && len > 0 {
        return;
    }
    loop {
        f(&cur);
        let mut i = len;
        loop {
            if i == 0 {
                return;
            }
            i -= 1;
            cur[i] += 1;
            if cur[i] < k {
                break;
            }
            cur[i] = 0;
        }
    }
}

/// All permutations of `0..n` (Heap's algorithm order is irrelevant; lexicographic here).
pub fn permutations(n: usize, mut f: impl FnMut(&[usize])) {
    let mut p: Vec<usize> = (0..n).collect();
    loop {
        f(&p);
        // next lexicographic permutation
        if n < 2 {
            return;
        }
        let mut i = n - 1;
        while i > 0 && p[i - 1] >= p[i] {
            i -= 1;
        }
        if i == 0 {
            return;
        }
        let mut j = n - 1;
        while p[j] <= p[i - 1] {
            j -= 1;
        }
        p.swap(i - 1, j);
        p[i..].reverse();
    }
}

/// All subsets of `0..n` as bitmasks.
pub fn subsets(n: usize) -> impl Iterator<Item = u64> {
    0..(1u64 << n)
}

/// All linear extensions (topological orders) of a DAG given as `parents[i]` lists; `f` gets each order.
pub fn linear_extensions(parents: &[Vec<usize>], mut f: impl FnMut(&[usize])) {
    fn rec(parents: &[Vec<usize>], placed: &mut Vec<bool>, order: &mut Vec<usize>, f: &mut dyn FnMut(&[usize])) {
        let n = parents.len();
        if order.len() == n {
            f(order);
            return;
        }
        for i in 0..n {
            if !placed[i] && parents[i].iter().all(|&p| placed[p]) {
                placed[i] = true;
                order.push(i);
                rec(parents, placed, order, f);
                order.pop();
                placed[i] = false;
            }
        }
    }
    let mut placed = vec![false; parents.len()];
    let mut order = Vec::new();
    rec(parents, &mut placed, &mut order, &mut f);
}

#[cfg(test)]
mod tests {
    use super::*;
    #[test]
    fn counts() {
        let mut n = 0;
        sequences(3, 4, |_| n += 1);
        assert_eq!(n, 81);
        let mut n = 0;
        permutations(4, |_| n += 1);
        assert_eq!(n, 24);
        let mut n = 0;
        linear_extensions(&[vec![], vec![0], vec![0], vec![1, 2]], |_| n += 1);
        assert_eq!(n, 2);
    }
}
