//! mcx — shared plumbing for the exhaustive checkers in /verif/harness.
//!
//! * command line / environment (`--prop`, `--tier`, `--replay`, `VERIF_SEED`, `VERIF_TIER`)
//! * `Report`: coverage counters, samples, violations, known-finding filter, evidence writer,
//!   `VIOLATION` / `KNOWN-FINDING` lines and exit codes (0 held, 1 violation, 2 machinery error)
//! * small helpers: deadline, canonical hashing, child-process isolation, parallel map.
//!
//! Nothing here makes an exploration choice; the enumerators live in the checkers.

use std::{
    collections::BTreeMap,
    fmt::Write as _,
    path::{Path, PathBuf},
    time::{Duration, Instant},
};

pub use rayon;
pub use serde_json::{self, json, Map, Value};

pub mod child;
pub mod enumerate;

#[derive(Clone, Copy, Debug, PartialEq, Eq)]
pub enum Tier {
    Quick,
    Thorough,
}

impl Tier {
    pub fn as_str(self) -> &'static str {
        match self {
            Tier::Quick => "quick",
            Tier::Thorough => "thorough",
        }
    }
    pub fn pick<T>(self, quick: T, thorough: T) -> T {
        match self {
            Tier::Quick => quick,
            Tier::Thorough => thorough,
        }
    }
}

#[derive(Clone, Debug)]
pub struct Args {
    pub prop: String,
    pub tier: Tier,
    pub seed: u64,
    pub replay: Option<PathBuf>,
    pub verif_dir: PathBuf,
    /// Where the evidence file goes (defaults to `<verif_dir>/evidence/<prop>.json`).
    pub evidence: PathBuf,
    /// Free-form extra `--key value` arguments (used by child-process modes).
    pub extra: BTreeMap<String, String>,
}

pub fn machinery_error(msg: &str) -> ! {
    eprintln!("MACHINERY-ERROR: {msg}");
    std::process::exit(2)
}

pub fn parse_args() -> Args {
    let mut prop = None;
    let mut tier = std::env::var("VERIF_TIER").ok();
    let mut replay = None;
    let mut verif_dir = std::env::var("VERIF_DIR").unwrap_or_else(|_| "/verif".into());
    let mut evidence = None;
    let mut extra = BTreeMap::new();
    let mut it = std::env::args().skip(1);
    while let Some(a) = it.next() {
        let mut val = |name: &str| {
            it.next()
                .unwrap_or_else(|| machinery_error(&format!("missing value for {name}")))
        };
        match a.as_str() {
            "--prop" => prop = Some(val("--prop")),
            "--tier" => tier = Some(val("--tier")),
            "--replay" => replay = Some(PathBuf::from(val("--replay"))),
            "--verif-dir" => verif_dir = val("--verif-dir"),
            "--evidence" => evidence = Some(PathBuf::from(val("--evidence"))),
            s if s.starts_with("--") => {
                let v = val(s);
                extra.insert(s[2..].to_string(), v);
            }
            s => machinery_error(&format!("unexpected argument {s}")),
        }
    }
    let prop = prop.unwrap_or_else(|| machinery_error("--prop <ID> required"));
    let tier = match tier.as_deref() {
        None | Some("quick") | Some("") => Tier::Quick,
        Some("thorough") => Tier::Thorough,
        Some(t) => machinery_error(&format!("unknown tier {t}")),
    };
    let seed = std::env::var("VERIF_SEED")
        .ok()
        .and_then(|s| s.parse::<u64>().ok())
        .unwrap_or(0);
    let verif_dir = PathBuf::from(verif_dir);
    let evidence = evidence.unwrap_or_else(|| verif_dir.join("evidence").join(format!("{prop}.json")));
    Args { prop, tier, seed, replay, verif_dir, evidence, extra }
}

#[derive(Clone, Copy, Debug, PartialEq, Eq)]
pub enum Level {
    Exploration,
    FaultEnumeration,
    ModelChecking,
}

impl Level {
    fn as_str(self) -> &'static str {
        match self {
            Level::Exploration => "exploration",
            Level::FaultEnumeration => "fault_enumeration",
            Level::ModelChecking => "model_checking",
        }
    }
}

#[derive(Clone, Debug)]
pub struct Violation {
    /// Stable identifier of *what* fails (minimal history / input / call site); matched
    /// exactly against `known_findings.json`.
    pub key: String,
    pub description: String,
    pub replay: Value,
}

/// Collects what a run covered and what it found; `finish` writes the evidence file, prints
/// the interface lines and exits.
pub struct Report {
    pub args: Args,
    pub level: Level,
    start: Instant,
    pub coverage: Map<String, Value>,
    counters: BTreeMap<String, u64>,
    samples: Vec<Value>,
    max_samples: usize,
    outcomes: BTreeMap<String, u64>,
    violations: Vec<Violation>,
    violation_total: u64,
    assumptions: Vec<String>,
    /// counters that must be non-zero at the end, else machinery error (vacuity guard)
    required_nonzero: Vec<String>,
}

impl Report {
    pub fn new(args: &Args, level: Level) -> Self {
        Report {
            args: args.clone(),
            level,
            start: Instant::now(),
            coverage: Map::new(),
            counters: BTreeMap::new(),
            samples: Vec::new(),
            max_samples: 6,
            outcomes: BTreeMap::new(),
            violations: Vec::new(),
            violation_total: 0,
            assumptions: Vec::new(),
            required_nonzero: Vec::new(),
        }
    }
    pub fn tier(&self) -> Tier {
        self.args.tier
    }
    pub fn elapsed(&self) -> Duration {
        self.start.elapsed()
    }
    /// Add to a named counter that ends up in `coverage`.
    pub fn count(&mut self, name: &str, n: u64) {
        *self.counters.entry(name.to_string()).or_insert(0) += n;
    }
    pub fn counter(&self, name: &str) -> u64 {
        self.counters.get(name).copied().unwrap_or(0)
    }
    pub fn set(&mut self, name: &str, v: impl Into<Value>) {
        self.coverage.insert(name.to_string(), v.into());
    }
    /// Record an observed outcome class (vacuity guard: number of distinct outcomes is reported).
    pub fn outcome(&mut self, class: &str, n: u64) {
        *self.outcomes.entry(class.to_string()).or_insert(0) += n;
    }
    pub fn sample(&mut self, v: impl Into<Value>) {
        if self.samples.len() < self.max_samples {
            self.samples.push(v.into());
        }
    }
    pub fn set_max_samples(&mut self, n: usize) {
        self.max_samples = n;
    }
    pub fn assume(&mut self, s: &str) {
        self.assumptions.push(s.to_string());
    }
    /// The named counter must be > 0 when the run finishes, otherwise the run is a machinery
    /// error (the check's trigger never fired, so silence would be vacuous).
    pub fn require_nonzero(&mut self, counter: &str) {
        self.required_nonzero.push(counter.to_string());
    }
    pub fn violation(&mut self, key: impl Into<String>, description: impl Into<String>, replay: Value) {
        self.violation_total += 1;
        let key = key.into();
        if self.violations.iter().any(|v| v.key == key) {
            return;
        }
        if self.violations.len() < 200 {
            self.violations.push(Violation { key, description: description.into(), replay });
        }
    }
    pub fn violations(&self) -> &[Violation] {
        &self.violations
    }
    /// Merge another report's counters (for parallel workers).
    pub fn absorb(&mut self, other: Report) {
        for (k, v) in other.counters {
            *self.counters.entry(k).or_insert(0) += v;
        }
        for (k, v) in other.outcomes {
            *self.outcomes.entry(k).or_insert(0) += v;
        }
        for s in other.samples {
            self.sample(s);
        }
        for v in other.violations {
            self.violation(v.key, v.description, v.replay);
        }
        self.violation_total += other.violation_total.saturating_sub(0);
    }
    /// A fresh report sharing the args (for a parallel worker).
    pub fn worker(&self) -> Report {
        let mut r = Report::new(&self.args, self.level);
        r.max_samples = 2;
        r
    }

    pub fn finish(mut self) -> ! {
        let wall = self.start.elapsed().as_secs_f64();
        // A trigger counter that stayed at zero makes silence vacuous; but when violations were
        // found the run is a verdict (a broken subject may well suppress the trigger).
        for name in &self.required_nonzero {
            if self.violations.is_empty() && self.counter(name) == 0 {
                machinery_error(&format!(
                    "vacuity guard: counter '{name}' is zero for {} ({})",
                    self.args.prop,
                    self.args.tier.as_str()
                ));
            }
        }
        // classify violations against known findings
        let kf = KnownFindings::load(&self.args.verif_dir);
        let mut known = Vec::new();
        let mut fresh = Vec::new();
        for v in std::mem::take(&mut self.violations) {
            match kf.lookup(&self.args.prop, &v.key) {
                Some(what) => known.push((v, what)),
                None => fresh.push(v),
            }
        }
        for (k, v) in &self.counters {
            self.coverage.insert(k.clone(), json!(v));
        }
        self.coverage.insert("distinct_outcomes".into(), json!(self.outcomes.len()));
        self.coverage.insert(
            "outcomes".into(),
            Value::Object(self.outcomes.iter().map(|(k, v)| (k.clone(), json!(v))).collect()),
        );
        self.coverage.insert("samples".into(), Value::Array(self.samples.clone()));
        self.coverage.insert(
            "known_findings_reported".into(),
            Value::Array(known.iter().map(|(v, _)| json!(v.key)).collect()),
        );
        let ev = json!({
            "property_id": self.args.prop,
            "tier": self.args.tier.as_str(),
            "seed": self.args.seed,
            "level": self.level.as_str(),
            "coverage": Value::Object(self.coverage.clone()),
            "assumptions": self.assumptions,
            "wall_s": (wall * 1000.0).round() / 1000.0,
            "violations": fresh.len(),
        });
        if let Some(dir) = self.args.evidence.parent() {
            let _ = std::fs::create_dir_all(dir);
        }
        if let Err(e) = std::fs::write(&self.args.evidence, serde_json::to_string_pretty(&ev).unwrap() + "\n") {
            machinery_error(&format!("cannot write evidence {}: {e}", self.args.evidence.display()));
        }
        for (v, what) in &known {
            println!("KNOWN-FINDING: property={} {} [{}]", self.args.prop, what, v.key);
        }
        let rdir = self.args.verif_dir.join("replays").join(&self.args.prop);
        if !fresh.is_empty() {
            let _ = std::fs::create_dir_all(&rdir);
        }
        for (i, v) in fresh.iter().enumerate() {
            let path = rdir.join(format!("{}-{:03}.json", self.args.tier.as_str(), i));
            let body = json!({"property": self.args.prop, "key": v.key, "description": v.description, "replay": v.replay});
            let _ = std::fs::write(&path, serde_json::to_string_pretty(&body).unwrap() + "\n");
            if i < 20 {
                println!("VIOLATION property={} replay={}", self.args.prop, path.display());
                println!("  key: {}", v.key);
                println!("  {}", v.description.replace('\n', "\n  "));
            }
        }
        let mut line = String::new();
        let _ = write!(
            line,
            "{} {}: {} violations ({} known), {:.1}s;",
            self.args.prop,
            self.args.tier.as_str(),
            fresh.len(),
            known.len(),
            wall
        );
        for (k, v) in &self.counters {
            let _ = write!(line, " {k}={v}");
        }
        println!("{line}");
        std::process::exit(if fresh.is_empty() { 0 } else { 1 })
    }
}

/// `/verif/known_findings.json`:
/// `{"findings":[{"property":"C13","key":"…","what":"…"}],"fixed":[{"property":"C31","commit":"…","what":"…"}]}`
/// Only `findings` suppress anything; `fixed` is a record.
pub struct KnownFindings {
    findings: Vec<(String, String, String)>,
}

impl KnownFindings {
    pub fn load(verif_dir: &Path) -> Self {
        let p = verif_dir.join("known_findings.json");
        let mut findings = Vec::new();
        if let Ok(s) = std::fs::read_to_string(&p) {
            match serde_json::from_str::<Value>(&s) {
                Ok(v) => {
                    for f in v.get("findings").and_then(|f| f.as_array()).cloned().unwrap_or_default() {
                        let g = |k: &str| f.get(k).and_then(|x| x.as_str()).unwrap_or("").to_string();
                        findings.push((g("property"), g("key"), g("what")));
                    }
                }
                Err(e) => machinery_error(&format!("known_findings.json does not parse: {e}")),
            }
        }
        KnownFindings { findings }
    }
    pub fn lookup(&self, prop: &str, key: &str) -> Option<String> {
        self.findings
            .iter()
            .find(|(p, k, _)| p == prop && k == key)
            .map(|(_, _, w)| w.clone())
    }
}

/// Wall-clock cap for an engine. Hitting it must be reported as `exhaustive:false` by the caller.
pub struct Deadline(Instant, Duration);
impl Deadline {
    pub fn after_secs(s: u64) -> Self {
        Deadline(Instant::now(), Duration::from_secs(s))
    }
    pub fn passed(&self) -> bool {
        self.0.elapsed() >= self.1
    }
}

/// FNV-1a 64 — deterministic across processes (std's SipHash keys are fixed for
/// `DefaultHasher::new()` too, but this keeps canonical keys stable across toolchains).
pub fn fnv64(bytes: &[u8]) -> u64 {
    let mut h: u64 = 0xcbf29ce484222325;
    for b in bytes {
        h ^= *b as u64;
        h = h.wrapping_mul(0x100000001b3);
    }
    h
}

pub fn hex(bytes: &[u8]) -> String {
    let mut s = String::with_capacity(bytes.len() * 2);
    for b in bytes {
        let _ = write!(s, "{b:02x}");
    }
    s
}

/// Run `f` and turn a panic into `Err(message)`.
pub fn catch<T>(f: impl FnOnce() -> T) -> Result<T, String> {
    match std::panic::catch_unwind(std::panic::AssertUnwindSafe(f)) {
        Ok(v) => Ok(v),
        Err(e) => Err(if let Some(s) = e.downcast_ref::<&str>() {
            s.to_string()
        } else if let Some(s) = e.downcast_ref::<String>() {
            s.clone()
        } else {
            "non-string panic".to_string()
        }),
    }
}

/// Silence the default panic hook (for sweeps that expect to catch panics) while keeping the
/// location of the last panic retrievable.
pub fn quiet_panics() {
    std::panic::set_hook(Box::new(|info| {
        let loc = info
            .location()
            .map(|l| format!("{}:{}", l.file(), l.line()))
            .unwrap_or_default();
        LAST_PANIC_LOC.with(|c| *c.borrow_mut() = loc);
    }));
}
thread_local! {
    static LAST_PANIC_LOC: std::cell::RefCell<String> = const { std::cell::RefCell::new(String::new()) };
}
pub fn last_panic_location() -> String {
    LAST_PANIC_LOC.with(|c| c.borrow().clone())
}

/// Scratch directory on /dev/shm (falls back to $TMPDIR), removed on drop.
pub struct Scratch(pub PathBuf);
impl Scratch {
    pub fn new(tag: &str) -> Self {
        let base = if Path::new("/dev/shm").is_dir() {
            PathBuf::from("/dev/shm")
        } else {
            std::env::temp_dir()
        };
        static N: std::sync::atomic::AtomicU64 = std::sync::atomic::AtomicU64::new(0);
        let n = N.fetch_add(1, std::sync::atomic::Ordering::Relaxed);
        let p = base.join(format!("verif-{tag}-{}-{n}", std::process::id()));
        let _ = std::fs::remove_dir_all(&p);
        std::fs::create_dir_all(&p).unwrap_or_else(|e| machinery_error(&format!("scratch dir: {e}")));
        Scratch(p)
    }
    pub fn path(&self) -> &Path {
        &self.0
    }
}
impl Drop for Scratch {
    fn drop(&mut self) {
        let _ = std::fs::remove_dir_all(&self.0);
    }
}
