//! misc-check: C32, C34, C36–C39, C45–C47 (policy-text, crypto, fast-channels, id, capi-core).
mod props;

fn main() {
    let args = mcx::parse_args();
    match args.prop.as_str() {
        "C47" => props::c47::run(&args),
        p => mcx::machinery_error(&format!("misc-check does not serve {p}")),
    }
}
