//! misc-check: C32, C39, C45–C47 (policy-text, crypto key stores, fast-channels, id, capi-core).
mod props;
mod util;

fn main() {
    let args = mcx::parse_args();
    match args.prop.as_str() {
        "C32" => props::c32::run(&args),
        "C39" => props::c39::run(&args),
        "C45" => props::c45::run(&args),
        "C46" => props::c46::run(&args),
        "C47" => props::c47::run(&args),
        p => mcx::machinery_error(&format!("misc-check does not serve {p}")),
    }
}
