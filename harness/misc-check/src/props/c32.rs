//! C32 — Text and Identifier values always satisfy their invariants.
//!
//! Real code: `aranya-policy-text` (`Text`, `Identifier`, `Repr`; inline ≤ 22 bytes, heap ≥ 23,
//! static via `text!`/`ident!`; archived strings are inline ≤ 8 bytes, out-of-line ≥ 9).
//!
//! Space (all enumerated completely):
//! 1. *feed*: every byte string of ≤ 3 bytes over all 256 values (quick: ≤ 2 over 256 plus 3 over a
//!    20-value alphabet), 4 bytes over the 20-value alphabet, and for every length in {0,1,7,8,9,21,22,23,24,64} a valid identifier with
//!    each position replaced by NUL / `!` / `é` / a lone 0xE9 / a digit / `_` / space. Every input
//!    goes through `from_utf8` → `FromStr`, `TryFrom<String>`, `TryFrom<Text>`; `TryFrom<&CStr>`;
//!    serde_json (escaped document, `Value`, the raw bytes as a document, the raw bytes between
//!    quotes); postcard (framed, and the raw bytes as a document); and an rkyv archive of the
//!    *String* accessed as `ArchivedText` / `ArchivedIdentifier` then deserialized.
//! 1b. *conversions between the two types, from every storage representation*: every `Text`
//!    obtained anywhere (all paths above, clones, concatenation results, deserialized values) is
//!    pushed through `Identifier::try_from(Text)` / `Text::try_into()` (value and clone), every
//!    `Identifier` obtained anywhere through `Text::from(Identifier)` and back; plus a fixed table
//!    of *static* literals (`text!`, `Text::new()`, `Text::default()`, `ident!`) covering each
//!    invalid-identifier class (empty, leading digit, leading underscore, space, hyphen,
//!    punctuation, non-ASCII, control character; inline and heap lengths) and valid ones, each next
//!    to the inline/heap Text of the same content, and all pairwise concatenations of the table.
//! 2. *rkyv corruption* (DESIGN 4.8): valid archives of `Text` and `Identifier` of lengths
//!    {0,1,7,8,9,22,23,24,64}: every truncation, every extra trailing byte, every position replaced
//!    by {00,01,7f,80,ff,e^1,e^80}; each accessed as both archived types, then deserialized.
//! 3. *concatenation* of all pairs of a value set that straddles the inline/heap threshold.
//! 4. *representations*: static / inline / heap / deserialized / concatenated / cloned values of
//!    equal and different contents: `Eq`, `Ord`, `PartialOrd`, `Hash`, `== str` against `str`.
//!
//! Oracle (the statement): every value obtained has no NUL (Text) / matches
//! `[A-Za-z][A-Za-z0-9_]*` (Identifier); no path panics; Eq/Ord/Hash depend on content only.

use std::{
    collections::{hash_map::DefaultHasher, BTreeSet},
    ffi::CStr,
    hash::{Hash, Hasher},
    str::FromStr,
};

use aranya_policy_text::{ident, text, Identifier, Text};
use mcx::{json, rayon::prelude::*, serde_json, Args, Level, Report, Value};
use rkyv::{rancor::Error as RErr, util::AlignedVec};

use crate::util::MinCases;

type AText = rkyv::Archived<Text>;
type AIdent = rkyv::Archived<Identifier>;

fn text_inv(s: &str) -> bool {
    std::str::from_utf8(s.as_bytes()).is_ok() && s.bytes().all(|b| b != 0)
}

fn ident_inv(s: &str) -> bool {
    let mut it = s.bytes();
    match it.next() {
        Some(b'a'..=b'z' | b'A'..=b'Z') => {}
        _ => return false,
    }
    it.all(|b| matches!(b, b'a'..=b'z' | b'A'..=b'Z' | b'0'..=b'9' | b'_'))
}

struct W {
    rep: Report,
    bad: MinCases,
    nontrivial: BTreeSet<Vec<u8>>,
    reached: bool,
}

impl W {
    fn new(parent: &Report) -> Self {
        W { rep: parent.worker(), bad: MinCases::default(), nontrivial: BTreeSet::new(), reached: false }
    }

    fn fail(&mut self, group: String, input: &[u8], detail: String, replay: &Value) {
        self.bad.offer(&group, input, || format!("input {}", mcx::hex(input)), || detail, || replay.clone());
    }

    fn got_text(&mut self, path: &str, input: &[u8], v: &Text, replay: &Value) {
        self.reached = true;
        self.rep.count("text_values_checked", 1);
        if !text_inv(v.as_str()) {
            self.fail(format!("{path}: Text with NUL"), input, format!("obtained Text {:?}", v.as_str()), replay);
        }
        // every Text obtained anywhere is also pushed through the conversions into Identifier
        let repr = if path.starts_with("static") {
            "static"
        } else if v.as_str().len() <= 22 {
            "inline"
        } else {
            "heap"
        };
        self.text_into_ident(path, repr, input, v, replay);
    }

    /// `Identifier::try_from(Text)` / `Text::try_into()` on the value and on its clone; whatever is
    /// accepted must be an identifier, and must convert back to a Text with the same content.
    fn text_into_ident(&mut self, path: &str, repr: &str, input: &[u8], v: &Text, replay: &Value) {
        let results: [(&str, Result<Result<Identifier, String>, String>); 3] = [
            ("Identifier::try_from(Text)", mcx::catch(|| Identifier::try_from(v.clone()).map_err(|e| e.to_string()))),
            ("Text::try_into::<Identifier>()", mcx::catch(|| TryInto::<Identifier>::try_into(v.clone()).map_err(|e| e.to_string()))),
            ("Identifier::try_from(Text::clone().clone())", mcx::catch(|| Identifier::try_from(v.clone().clone()).map_err(|e| e.to_string()))),
        ];
        for (how, r) in results {
            self.rep.count("evaluations", 1);
            self.rep.count("text_to_ident_conversions", 1);
            match r {
                Err(p) => self.fail(format!("Text → Identifier [{repr} Text]: panic"), input, format!("{how} on a Text from {path}: panic: {p}"), replay),
                Ok(Err(_)) => {
                    self.rep.count("text_to_ident_rejected", 1);
                    if repr == "static" {
                        self.rep.count("static_text_to_ident_rejected", 1);
                    }
                }
                Ok(Ok(i)) => {
                    self.rep.count("text_to_ident_accepted", 1);
                    self.rep.count("ident_values_checked", 1);
                    if !ident_inv(i.as_str()) {
                        self.fail(
                            format!("Text → Identifier [{repr} Text]: Identifier not matching [A-Za-z][A-Za-z0-9_]*"),
                            input,
                            format!("{how}: Text {:?} (obtained from {path}, {repr} representation) was accepted as Identifier {:?}", v.as_str(), i.as_str()),
                            replay,
                        );
                    }
                    if i.as_str() != v.as_str() {
                        self.fail(format!("Text → Identifier [{repr} Text]: content changed"), input, format!("{how}: Text {:?} became Identifier {:?}", v.as_str(), i.as_str()), replay);
                    }
                    self.ident_into_text(how, input, &i, replay);
                }
            }
        }
    }

    /// `Text::from(Identifier)` (and its clone): a Text without NUL holding the same content.
    fn ident_into_text(&mut self, path: &str, input: &[u8], i: &Identifier, replay: &Value) {
        self.rep.count("evaluations", 1);
        self.rep.count("ident_to_text_conversions", 1);
        match mcx::catch(|| (Text::from(i.clone()), i.clone())) {
            Err(p) => self.fail("Text::from(Identifier): panic".to_string(), input, format!("from {path}: panic: {p}"), replay),
            Ok((t, c)) => {
                self.rep.count("text_values_checked", 1);
                if !text_inv(t.as_str()) {
                    self.fail("Text::from(Identifier): Text with NUL".to_string(), input, format!("obtained Text {:?}", t.as_str()), replay);
                }
                if t.as_str() != i.as_str() || c.as_str() != i.as_str() || c != *i {
                    self.fail("Text::from(Identifier) / Identifier::clone: content changed".to_string(), input, format!("{:?} -> {:?} / {:?}", i.as_str(), t.as_str(), c.as_str()), replay);
                }
            }
        }
    }

    fn got_ident(&mut self, path: &str, input: &[u8], v: &Identifier, replay: &Value) {
        self.reached = true;
        self.rep.count("ident_values_checked", 1);
        if !ident_inv(v.as_str()) {
            self.fail(format!("{path}: Identifier not matching [A-Za-z][A-Za-z0-9_]*"), input, format!("obtained Identifier {:?}", v.as_str()), replay);
        }
        // every Identifier obtained anywhere also goes Identifier → Text → Identifier
        self.ident_into_text(path, input, v, replay);
        let t = Text::from(v.clone());
        self.rep.count("evaluations", 1);
        if let Ok(Ok(back)) = mcx::catch(|| Identifier::try_from(t)) {
            self.rep.count("ident_values_checked", 1);
            if !ident_inv(back.as_str()) {
                self.fail(format!("{path} → Text → Identifier: Identifier not matching [A-Za-z][A-Za-z0-9_]*"), input, format!("obtained Identifier {:?}", back.as_str()), replay);
            }
        }
    }

    /// Runs one constructor/decoder; `Ok(None)` = rejected, string = rejection message.
    fn text_path(&mut self, path: &str, input: &[u8], replay: &Value, f: impl FnOnce() -> Result<Text, String>) -> Option<Text> {
        self.rep.count("evaluations", 1);
        match mcx::catch(f) {
            Err(p) => {
                self.fail(format!("{path}: panic"), input, format!("panic: {p} at {}", mcx::last_panic_location()), replay);
                None
            }
            Ok(Ok(v)) => {
                self.rep.outcome("text_accepted", 1);
                self.got_text(path, input, &v, replay);
                Some(v)
            }
            Ok(Err(e)) => {
                if e.contains("nul byte") {
                    self.reached = true;
                    self.rep.outcome("text_rejected_by_validation", 1);
                } else {
                    self.rep.outcome("text_rejected_by_framing", 1);
                }
                None
            }
        }
    }

    fn ident_path(&mut self, path: &str, input: &[u8], replay: &Value, f: impl FnOnce() -> Result<Identifier, String>) -> Option<Identifier> {
        self.rep.count("evaluations", 1);
        match mcx::catch(f) {
            Err(p) => {
                self.fail(format!("{path}: panic"), input, format!("panic: {p} at {}", mcx::last_panic_location()), replay);
                None
            }
            Ok(Ok(v)) => {
                self.rep.outcome("ident_accepted", 1);
                self.got_ident(path, input, &v, replay);
                Some(v)
            }
            Ok(Err(e)) => {
                if e.contains("identifier") || e.contains("must match") || e.contains("nul byte") {
                    self.reached = true;
                    self.rep.outcome("ident_rejected_by_validation", 1);
                } else {
                    self.rep.outcome("ident_rejected_by_framing", 1);
                }
                None
            }
        }
    }

    /// All constructors and decoders on one input byte string.
    fn feed(&mut self, input: &[u8]) {
        self.reached = false;
        self.rep.count("inputs", 1);
        let replay = json!({"kind": "feed", "bytes": mcx::hex(input)});
        let r = &replay;
        if let Ok(s) = std::str::from_utf8(input) {
            self.reached = true; // FromStr runs the validation on every str
            let t = self.text_path("Text::from_str", input, r, || Text::from_str(s).map_err(|e| e.to_string()));
            self.text_path("Text::try_from(String)", input, r, || Text::try_from(s.to_string()).map_err(|e| e.to_string()));
            self.ident_path("Identifier::from_str", input, r, || Identifier::from_str(s).map_err(|e| e.to_string()));
            self.ident_path("Identifier::try_from(String)", input, r, || Identifier::try_from(s.to_string()).map_err(|e| e.to_string()));
            if let Some(t) = t {
                self.ident_path("Identifier::try_from(Text)", input, r, || Identifier::try_from(t).map_err(|e| e.to_string()));
            }
            let doc = serde_json::to_string(s).unwrap();
            self.text_path("Text serde_json", input, r, || serde_json::from_str::<Text>(&doc).map_err(|e| e.to_string()));
            self.ident_path("Identifier serde_json", input, r, || serde_json::from_str::<Identifier>(&doc).map_err(|e| e.to_string()));
            self.text_path("Text serde_json(Value)", input, r, || serde_json::from_value::<Text>(Value::String(s.to_string())).map_err(|e| e.to_string()));
            self.ident_path("Identifier serde_json(Value)", input, r, || serde_json::from_value::<Identifier>(Value::String(s.to_string())).map_err(|e| e.to_string()));
            // archive of the plain String, accessed as the validated archived types
            let arch = rkyv::to_bytes::<RErr>(&s.to_string()).unwrap_or_else(|e| mcx::machinery_error(&format!("rkyv String archive: {e}")));
            self.rkyv_access("String archive", input, &arch, r);
        }
        // C string: the bytes up to the first NUL
        {
            let mut z = input.to_vec();
            z.push(0);
            let c = CStr::from_bytes_until_nul(&z).unwrap();
            self.text_path("Text::try_from(&CStr)", input, r, || Text::try_from(c).map_err(|e| e.to_string()));
        }
        // serde_json: the bytes as a document, and between quotes
        {
            self.text_path("Text serde_json raw document", input, r, || serde_json::from_slice::<Text>(input).map_err(|e| e.to_string()));
            self.ident_path("Identifier serde_json raw document", input, r, || serde_json::from_slice::<Identifier>(input).map_err(|e| e.to_string()));
            let mut q = vec![b'"'];
            q.extend_from_slice(input);
            q.push(b'"');
            self.text_path("Text serde_json quoted raw bytes", input, r, || serde_json::from_slice::<Text>(&q).map_err(|e| e.to_string()));
            self.ident_path("Identifier serde_json quoted raw bytes", input, r, || serde_json::from_slice::<Identifier>(&q).map_err(|e| e.to_string()));
        }
        // postcard: the bytes as a document, and framed with their length
        {
            self.text_path("Text postcard raw document", input, r, || postcard::from_bytes::<Text>(input).map_err(|e| e.to_string()));
            self.ident_path("Identifier postcard raw document", input, r, || postcard::from_bytes::<Identifier>(input).map_err(|e| e.to_string()));
            assert!(input.len() < 128);
            let mut f = vec![input.len() as u8];
            f.extend_from_slice(input);
            self.text_path("Text postcard", input, r, || postcard::from_bytes::<Text>(&f).map_err(|e| e.to_string()));
            self.ident_path("Identifier postcard", input, r, || postcard::from_bytes::<Identifier>(&f).map_err(|e| e.to_string()));
        }
        if self.reached {
            let mut k = vec![b'f'];
            k.extend_from_slice(input);
            self.nontrivial.insert(k);
        }
    }

    /// `rkyv::access` (checked) of `bytes` as both archived types, then both deserializers.
    fn rkyv_access(&mut self, what: &str, order: &[u8], bytes: &[u8], replay: &Value) {
        let mut buf: AlignedVec<16> = AlignedVec::new();
        buf.extend_from_slice(bytes);
        let mut reached = false;
        // Text
        self.rep.count("evaluations", 1);
        let path = format!("Text rkyv access({what})");
        match mcx::catch(|| match rkyv::access::<AText, RErr>(&buf) {
            Ok(a) => {
                let s = a.as_str().to_string();
                let d = rkyv::deserialize::<Text, RErr>(a).map_err(|e| e.to_string());
                let fb = rkyv::from_bytes::<Text, RErr>(&buf).map_err(|e| e.to_string());
                Ok((s, d, fb))
            }
            Err(e) => Err(e.to_string()),
        }) {
            Err(p) => self.fail(format!("{path}: panic"), order, format!("panic: {p} at {}", mcx::last_panic_location()), replay),
            Ok(Ok((s, d, fb))) => {
                reached = true;
                self.rep.count("rkyv_access_ok", 1);
                self.rep.outcome("rkyv_text_access_ok", 1);
                if !text_inv(&s) {
                    self.fail(format!("{path}: archived Text with NUL"), order, format!("access returned Ok for archived text {s:?}"), replay);
                }
                for (how, d) in [("deserialize", d), ("from_bytes", fb)] {
                    self.rep.count("evaluations", 1);
                    match d {
                        Ok(t) => {
                            self.got_text(&format!("Text rkyv {how}({what})"), order, &t, replay);
                            if t.as_str() != s {
                                self.fail(format!("Text rkyv {how}({what}): content differs from the archive"), order, format!("archived {s:?}, deserialized {:?}", t.as_str()), replay);
                            }
                        }
                        Err(e) => self.fail(format!("Text rkyv {how}({what}): fails after successful access"), order, e, replay),
                    }
                }
            }
            Ok(Err(e)) => {
                if e.contains("nul byte") {
                    reached = true;
                    self.rep.count("rkyv_rejected_by_text_validate", 1);
                    self.rep.outcome("rkyv_text_rejected_by_validate", 1);
                } else {
                    self.rep.outcome("rkyv_text_rejected_structurally", 1);
                }
            }
        }
        // Identifier
        self.rep.count("evaluations", 1);
        let path = format!("Identifier rkyv access({what})");
        match mcx::catch(|| match rkyv::access::<AIdent, RErr>(&buf) {
            Ok(a) => {
                let s = a.as_str().to_string();
                let inherent: Identifier = a.deserialize();
                let d = rkyv::deserialize::<Identifier, RErr>(a).map_err(|e| e.to_string());
                let fb = rkyv::from_bytes::<Identifier, RErr>(&buf).map_err(|e| e.to_string());
                Ok((s, inherent, d, fb))
            }
            Err(e) => Err(e.to_string()),
        }) {
            Err(p) => self.fail(format!("{path}: panic"), order, format!("panic: {p} at {}", mcx::last_panic_location()), replay),
            Ok(Ok((s, inherent, d, fb))) => {
                reached = true;
                self.rep.count("rkyv_access_ok", 1);
                self.rep.outcome("rkyv_ident_access_ok", 1);
                if !ident_inv(&s) {
                    self.fail(format!("{path}: archived Identifier not matching [A-Za-z][A-Za-z0-9_]*"), order, format!("access returned Ok for archived identifier {s:?}"), replay);
                }
                self.rep.count("evaluations", 1);
                self.got_ident(&format!("ArchivedIdentifier::deserialize({what})"), order, &inherent, replay);
                for (how, d) in [("deserialize", d), ("from_bytes", fb)] {
                    self.rep.count("evaluations", 1);
                    match d {
                        Ok(t) => {
                            self.got_ident(&format!("Identifier rkyv {how}({what})"), order, &t, replay);
                            if t.as_str() != s {
                                self.fail(format!("Identifier rkyv {how}({what}): content differs from the archive"), order, format!("archived {s:?}, deserialized {:?}", t.as_str()), replay);
                            }
                        }
                        Err(e) => self.fail(format!("Identifier rkyv {how}({what}): fails after successful access"), order, e, replay),
                    }
                }
            }
            Ok(Err(e)) => {
                if e.contains("identifier") || e.contains("nul byte") {
                    reached = true;
                    self.rep.count("rkyv_rejected_by_ident_validate", 1);
                    self.rep.outcome("rkyv_ident_rejected_by_validate", 1);
                } else {
                    self.rep.outcome("rkyv_ident_rejected_structurally", 1);
                }
            }
        }
        if reached {
            self.reached = true;
            if what != "String archive" {
                let mut k = vec![b'r'];
                k.extend_from_slice(bytes);
                self.nontrivial.insert(k);
            }
        }
    }
}

/// A valid identifier of `n` bytes: letters, digits and `_` in the tail.
fn base(n: usize) -> String {
    (0..n).map(|i| b"aB3_x9Z"[i % 7] as char).collect()
}

/// Lengths with a bad/odd byte at every position.
fn positional_inputs() -> Vec<Vec<u8>> {
    let mut out = Vec::new();
    for n in [0usize, 1, 7, 8, 9, 21, 22, 23, 24, 64] {
        let b = base(n).into_bytes();
        out.push(b.clone());
        for pos in 0..n {
            for rep in [&b"\0"[..], b"!", "é".as_bytes(), b"\xE9", b"7", b"_", b" "] {
                let mut v = b[..pos].to_vec();
                v.extend_from_slice(rep);
                v.extend_from_slice(&b[pos + 1..]);
                out.push(v);
            }
        }
    }
    out
}

const QUICK3: [u8; 20] = [0x00, b'!', b'"', b'0', b'7', b'A', b'Z', b'\\', b'_', b'a', b'z', 0x7f, 0x80, 0xA9, 0xBF, 0xC2, 0xC3, 0xE0, 0xED, 0xFF];

fn corruptions(e: &[u8], mut f: impl FnMut(String, Vec<u8>)) {
    for i in 0..e.len() {
        f(format!("truncate to {i}"), e[..i].to_vec());
    }
    for x in 0..=255u8 {
        let mut v = e.to_vec();
        v.push(x);
        f(format!("append {x:02x}"), v);
    }
    for i in 0..e.len() {
        let mut seen = BTreeSet::new();
        for x in [0x00, 0x01, 0x7f, 0x80, 0xff, e[i] ^ 1, e[i] ^ 0x80] {
            if x != e[i] && seen.insert(x) {
                let mut v = e.to_vec();
                v[i] = x;
                f(format!("byte {i}: {:02x}->{x:02x}", e[i]), v);
            }
        }
    }
}

fn hash_of<T: Hash>(t: &T) -> u64 {
    let mut h = DefaultHasher::new();
    t.hash(&mut h);
    h.finish()
}

fn static_texts() -> Vec<(&'static str, Text)> {
    vec![
        ("", Text::new()),
        ("", text!("")),
        ("a", text!("a")),
        ("b", text!("b")),
        ("aB", text!("aB")),
        ("A", text!("A")),
        ("é!", text!("é!")),
        ("aB3_x9ZaB3_x9ZaB3_x9", text!("aB3_x9ZaB3_x9ZaB3_x9")),
        ("aB3_x9ZaB3_x9ZaB3_x9Z", text!("aB3_x9ZaB3_x9ZaB3_x9Z")),
        ("aB3_x9ZaB3_x9ZaB3_x9Za", text!("aB3_x9ZaB3_x9ZaB3_x9Za")),
        ("aB3_x9ZaB3_x9ZaB3_x9ZaB", text!("aB3_x9ZaB3_x9ZaB3_x9ZaB")),
        ("aB3_x9ZaB3_x9ZaB3_x9ZaB3", text!("aB3_x9ZaB3_x9ZaB3_x9ZaB3")),
        ("aB3_x9ZaB3_x9ZaB3_x9ZaB3_x9ZaB3_x9ZaB3_x9ZaB3_x9ZaB3_x9ZaB3_x9Za", text!("aB3_x9ZaB3_x9ZaB3_x9ZaB3_x9ZaB3_x9ZaB3_x9ZaB3_x9ZaB3_x9ZaB3_x9Za")),
        ("zz zz zz zz zz zz zz zz zz", text!("zz zz zz zz zz zz zz zz zz")),
    ]
}

fn static_idents() -> Vec<(&'static str, Identifier)> {
    vec![
        ("a", ident!("a")),
        ("b", ident!("b")),
        ("aB", ident!("aB")),
        ("A", ident!("A")),
        ("aB3_x9ZaB3_x9ZaB3_x9Z", ident!("aB3_x9ZaB3_x9ZaB3_x9Z")),
        ("aB3_x9ZaB3_x9ZaB3_x9Za", ident!("aB3_x9ZaB3_x9ZaB3_x9Za")),
        ("aB3_x9ZaB3_x9ZaB3_x9ZaB", ident!("aB3_x9ZaB3_x9ZaB3_x9ZaB")),
        ("aB3_x9ZaB3_x9ZaB3_x9ZaB3", ident!("aB3_x9ZaB3_x9ZaB3_x9ZaB3")),
        ("aB3_x9ZaB3_x9ZaB3_x9ZaB3_x9ZaB3_x9ZaB3_x9ZaB3_x9ZaB3_x9ZaB3_x9Za", ident!("aB3_x9ZaB3_x9ZaB3_x9ZaB3_x9ZaB3_x9ZaB3_x9ZaB3_x9ZaB3_x9ZaB3_x9Za")),
    ]
}

/// `text!`/`ident!` need literals: a fixed table with every invalid-identifier class (empty,
/// leading digit, leading underscore, space, hyphen, punctuation, non-ASCII, a control character)
/// at inline and heap lengths, plus valid ones. (NUL cannot be written: `text!` rejects it at
/// compile time.)
fn static_literal_table() -> Vec<(&'static str, Text)> {
    vec![
        ("", Text::new()),
        ("", Text::default()),
        ("", text!()),
        ("", text!("")),
        ("9lives", text!("9lives")),
        ("7", text!("7")),
        ("0", text!("0")),
        ("_x", text!("_x")),
        ("_", text!("_")),
        ("has space", text!("has space")),
        (" ", text!(" ")),
        (" a", text!(" a")),
        ("a ", text!("a ")),
        ("a-b", text!("a-b")),
        ("-", text!("-")),
        ("a!", text!("a!")),
        ("a.b", text!("a.b")),
        ("é", text!("é")),
        ("aé", text!("aé")),
        ("éa", text!("éa")),
        ("a\u{1}", text!("a\u{1}")),
        ("a\u{7f}", text!("a\u{7f}")),
        ("9B3_x9ZaB3_x9ZaB3_x9Za", text!("9B3_x9ZaB3_x9ZaB3_x9Za")),
        ("9B3_x9ZaB3_x9ZaB3_x9ZaB", text!("9B3_x9ZaB3_x9ZaB3_x9ZaB")),
        ("aB3_x9ZaB3_x9ZaB3 x9ZaB3", text!("aB3_x9ZaB3_x9ZaB3 x9ZaB3")),
        ("aB3_x9ZaB3_x9ZaB3_x9ZaB3_x9ZaB3_x9ZaB3_x9ZaB3_x9ZaB3_x9ZaB3_x9Z-", text!("aB3_x9ZaB3_x9ZaB3_x9ZaB3_x9ZaB3_x9ZaB3_x9ZaB3_x9ZaB3_x9ZaB3_x9Z-")),
        // valid identifiers
        ("a", text!("a")),
        ("Z", text!("Z")),
        ("a_", text!("a_")),
        ("a0", text!("a0")),
        ("aB3_x9ZaB3_x9ZaB3_x9Za", text!("aB3_x9ZaB3_x9ZaB3_x9Za")),
        ("aB3_x9ZaB3_x9ZaB3_x9ZaB", text!("aB3_x9ZaB3_x9ZaB3_x9ZaB")),
        ("aB3_x9ZaB3_x9ZaB3_x9ZaB3_x9ZaB3_x9ZaB3_x9ZaB3_x9ZaB3_x9ZaB3_x9Za", text!("aB3_x9ZaB3_x9ZaB3_x9ZaB3_x9ZaB3_x9ZaB3_x9ZaB3_x9ZaB3_x9ZaB3_x9Za")),
    ]
}

/// Phase 1b: every static literal (and the static Texts behind `ident!` literals) through the
/// conversions into Identifier, next to inline/heap Texts of the same content; clones and
/// concatenations of static operands as well.
fn static_phase(w: &mut W) {
    let table = static_literal_table();
    for (content, t) in &table {
        if t.as_str() != *content {
            mcx::machinery_error("C32: text! literal content differs from its source");
        }
        let input = content.as_bytes();
        let replay = json!({"kind": "static", "content": content});
        w.rep.count("inputs", 1);
        w.rep.count("static_literals", 1);
        if !ident_inv(content) {
            w.rep.count("static_literals_not_identifiers", 1);
        }
        w.got_text("static literal", input, t, &replay);
        w.got_text("static literal (clone)", input, &t.clone(), &replay);
        // the same content in the dynamic representation must get the same treatment
        if let Ok(d) = Text::from_str(content) {
            w.got_text("Text::from_str (same content as a static literal)", input, &d, &replay);
        }
        let mut k = vec![b's'];
        k.extend_from_slice(input);
        w.nontrivial.insert(k);
        if w.rep.counter("static_literals") % 9 == 5 {
            w.rep.sample(json!({"kind": "static", "content": content, "is_identifier": ident_inv(content)}));
        }
    }
    for (content, i) in static_idents() {
        let replay = json!({"kind": "static", "content": content});
        w.rep.count("inputs", 1);
        w.got_ident("static ident! literal", content.as_bytes(), &i, &replay);
        w.got_text("static Text::from(ident! literal)", content.as_bytes(), &Text::from(i), &replay);
    }
    // concatenations with static operands (results are inline or heap), both orders
    for (ca, a) in &table {
        for (cb, b) in &table {
            w.rep.count("evaluations", 1);
            w.rep.count("static_concat_pairs", 1);
            let want = format!("{ca}{cb}");
            let replay = json!({"kind": "static", "content": want});
            match mcx::catch(|| a + b) {
                Err(p) => w.fail("Text + Text [static operands]: panic".into(), want.as_bytes(), format!("panic: {p}"), &replay),
                Ok(c) => {
                    if c.as_str() != want {
                        w.fail("Text + Text [static operands]: content is not the concatenation".into(), want.as_bytes(), format!("{ca:?} + {cb:?} gave {:?}", c.as_str()), &replay);
                    }
                    w.got_text("Text + Text (static operands)", want.as_bytes(), &c, &replay);
                }
            }
        }
    }
}

/// Phase 2: single-byte corruptions of valid archives.
fn rkyv_corruption_phase(w: &mut W) {
    let mut contents: Vec<String> = [0usize, 1, 7, 8, 9, 22, 23, 24, 64].iter().map(|&n| base(n)).collect();
    contents.push("é!".to_string());
    contents.push(format!("é! {}", base(22)));
    for c in &contents {
        let mut archives: Vec<(&str, Vec<u8>)> = Vec::new();
        let t = Text::from_str(c).unwrap_or_else(|_| mcx::machinery_error("C32: base content rejected as Text"));
        archives.push(("Text", rkyv::to_bytes::<RErr>(&t).unwrap_or_else(|e| mcx::machinery_error(&format!("rkyv Text archive: {e}"))).to_vec()));
        if let Ok(i) = Identifier::from_str(c) {
            archives.push(("Identifier", rkyv::to_bytes::<RErr>(&i).unwrap_or_else(|e| mcx::machinery_error(&format!("rkyv Identifier archive: {e}"))).to_vec()));
        }
        for (ty, e) in archives {
            // the intact archive must be accepted (machinery sanity + vacuity guard)
            let r = json!({"kind": "rkyv", "type": ty, "content": c, "corruption": "none", "bytes": mcx::hex(&e)});
            let before = w.rep.counter("rkyv_access_ok");
            w.rkyv_access("valid archive", &e, &e, &r);
            if w.rep.counter("rkyv_access_ok") == before {
                mcx::machinery_error(&format!("C32: intact {ty} archive of {c:?} was not accepted"));
            }
            w.rep.count("valid_archives", 1);
            corruptions(&e, |desc, bytes| {
                w.rep.count("corrupted_archives", 1);
                let r = json!({"kind": "rkyv", "type": ty, "content": c, "corruption": desc, "bytes": mcx::hex(&bytes)});
                w.rkyv_access("corrupted archive", &bytes, &bytes, &r);
                if w.rep.counter("corrupted_archives") % 1500 == 700 {
                    w.rep.sample(r);
                }
            });
        }
    }
}

struct Val {
    content: String,
    kind: String,
    text: Text,
    ident: Option<Identifier>,
}

/// Values of many provenances and representations for phases 3 and 4.
fn value_zoo() -> Vec<Val> {
    let mut zoo: Vec<Val> = Vec::new();
    let idents = static_idents();
    for (c, t) in static_texts() {
        let ident = idents.iter().find(|(ic, _)| ic == &c).map(|(_, i)| i.clone());
        if t.as_str() != c {
            mcx::machinery_error("C32: text! literal content differs from its source");
        }
        zoo.push(Val { content: c.to_string(), kind: "static".into(), text: t, ident });
    }
    let mut contents: BTreeSet<String> = static_texts().iter().map(|(c, _)| c.to_string()).collect();
    for n in [0usize, 1, 2, 10, 11, 12, 20, 21, 22, 23, 24, 25, 44, 64] {
        contents.insert(base(n));
    }
    for c in ["B", "a_", "a0", "é", "éé", "\u{1}", "~", "\u{10FFFF}"] {
        contents.insert(c.to_string());
    }
    for c in &contents {
        let kind = if c.len() <= 22 { "inline" } else { "heap" };
        let t = Text::from_str(c).unwrap_or_else(|_| mcx::machinery_error("C32: zoo content rejected as Text"));
        let i = Identifier::from_str(c).ok();
        if i.is_some() != ident_inv(c) {
            // not a verdict of this phase (phase 1 reports acceptance of bad identifiers); rejecting
            // a valid identifier is outside the statement
        }
        zoo.push(Val { content: c.clone(), kind: format!("{kind} (from_str)"), text: t.clone(), ident: i.clone() });
        zoo.push(Val { content: c.clone(), kind: format!("{kind} (clone)"), text: t.clone(), ident: i.clone() });
        let doc = serde_json::to_string(c).unwrap();
        if let Ok(t2) = serde_json::from_str::<Text>(&doc) {
            zoo.push(Val { content: c.clone(), kind: format!("{kind} (serde_json)"), text: t2, ident: serde_json::from_str::<Identifier>(&doc).ok() });
        }
        if let Ok(a) = rkyv::to_bytes::<RErr>(&t) {
            if let Ok(t3) = rkyv::from_bytes::<Text, RErr>(&a) {
                let i3 = i.as_ref().and_then(|i| rkyv::to_bytes::<RErr>(i).ok()).and_then(|a| rkyv::from_bytes::<Identifier, RErr>(&a).ok());
                zoo.push(Val { content: c.clone(), kind: format!("{kind} (rkyv)"), text: t3, ident: i3 });
            }
        }
        if let Some(i) = &i {
            zoo.push(Val { content: c.clone(), kind: format!("{kind} (Text::from(Identifier))"), text: Text::from(i.clone()), ident: None });
        }
    }
    for v in &zoo {
        if v.text.as_str() != v.content || v.ident.as_ref().is_some_and(|i| i.as_str() != v.content) {
            mcx::machinery_error(&format!("C32: zoo value of kind {} does not hold its content {:?}", v.kind, v.content));
        }
    }
    zoo
}

fn concat_phase(w: &mut W, zoo: &[Val]) {
    // operands: the zoo plus every non-NUL one-byte string
    let mut ops: Vec<(String, String, Text)> = zoo.iter().map(|v| (v.content.clone(), v.kind.clone(), v.text.clone())).collect();
    for b in 1u8..128 {
        let s = (b as char).to_string();
        ops.push((s.clone(), "inline (from_str)".into(), Text::from_str(&s).unwrap_or_else(|_| mcx::machinery_error("C32: one-byte text rejected"))));
    }
    for (ca, ka, a) in &ops {
        for (cb, kb, b) in &ops {
            w.rep.count("evaluations", 1);
            w.rep.count("concat_pairs", 1);
            let want = format!("{ca}{cb}");
            let order = want.as_bytes();
            let replay = json!({"kind": "concat", "a": ca, "a_repr": ka, "b": cb, "b_repr": kb});
            match mcx::catch(|| a + b) {
                Err(p) => w.fail("Text + Text: panic".into(), order, format!("panic: {p}"), &replay),
                Ok(c) => {
                    w.got_text("Text + Text", order, &c, &replay);
                    if c.as_str() != want {
                        w.fail("Text + Text: content is not the concatenation".into(), order, format!("{ca:?} + {cb:?} gave {:?}", c.as_str()), &replay);
                    }
                    let mut k = vec![b'c'];
                    k.extend_from_slice(ca.as_bytes());
                    k.push(0);
                    k.extend_from_slice(cb.as_bytes());
                    w.nontrivial.insert(k);
                    if (ca.len(), cb.len()) == (11, 12) && ka.starts_with("inline (from") && kb.starts_with("inline (from") {
                        w.rep.sample(json!({"kind": "concat", "a": ca, "b": cb, "result": c.as_str(), "result_len": c.len()}));
                    }
                }
            }
        }
    }
}

fn repr_phase(w: &mut W, zoo: &[Val]) {
    // add concatenation results as a further provenance
    let mut vals: Vec<(String, String, Text, Option<Identifier>)> = zoo.iter().map(|v| (v.content.clone(), v.kind.clone(), v.text.clone(), v.ident.clone())).collect();
    for n in [1usize, 11, 12, 22, 23, 24, 64] {
        for split in [0usize, 1, n / 2] {
            if split > n {
                continue;
            }
            let c = base(n);
            let (l, r) = c.split_at(split);
            let t = &Text::from_str(l).unwrap() + &Text::from_str(r).unwrap();
            vals.push((c.clone(), format!("{} (concatenated {}+{})", if n <= 22 { "inline" } else { "heap" }, split, n - split), t, None));
        }
    }
    for (ca, ka, ta, ia) in &vals {
        for (cb, kb, tb, ib) in &vals {
            w.rep.count("evaluations", 1);
            w.rep.count("cross_repr_pairs", 1);
            let replay = json!({"kind": "repr", "a": ca, "a_repr": ka, "b": cb, "b_repr": kb});
            let order = format!("{ca}\u{0}{cb}");
            let order = order.as_bytes();
            let mut k = vec![b'p'];
            k.extend_from_slice(order);
            k.push(0);
            k.extend_from_slice(ka.as_bytes());
            k.push(0);
            k.extend_from_slice(kb.as_bytes());
            w.nontrivial.insert(k);
            if ca == cb && ka != kb {
                w.rep.count("same_content_different_repr_pairs", 1);
            }
            let reprs = format!("{ka} vs {kb}");
            if ia.is_some() && ib.is_some() {
                w.rep.count("cross_repr_ident_pairs", 1);
            }
            let mut chk = |what: &str, ok: bool| {
                if !ok {
                    w.fail(format!("{what} disagrees with str"), order, format!("{ca:?} [{ka}] vs {cb:?} [{kb}] ({reprs})"), &replay);
                }
            };
            chk("Text ==", (ta == tb) == (ca == cb));
            chk("Text cmp", ta.cmp(tb) == ca.as_str().cmp(cb.as_str()));
            chk("Text partial_cmp", ta.partial_cmp(tb) == Some(ca.as_str().cmp(cb.as_str())));
            chk("Text == str", (ta == cb.as_str()) == (ca == cb) && (*ta == *cb.as_str()) == (ca == cb));
            chk("Text const_eq", ta.const_eq(tb) == (ca == cb));
            if ca == cb {
                chk("Text hash", hash_of(ta) == hash_of(tb));
            }
            if let (Some(ia), Some(ib)) = (ia, ib) {
                chk("Identifier ==", (ia == ib) == (ca == cb));
                chk("Identifier cmp", ia.cmp(ib) == ca.as_str().cmp(cb.as_str()));
                chk("Identifier partial_cmp", ia.partial_cmp(ib) == Some(ca.as_str().cmp(cb.as_str())));
                chk("Identifier == str", (ia == cb.as_str()) == (ca == cb));
                chk("Identifier const_eq", ia.const_eq(ib) == (ca == cb));
                if ca == cb {
                    chk("Identifier hash", hash_of(ia) == hash_of(ib));
                }
            }
        }
    }
    w.rep.sample(json!({"kind": "repr", "provenances": vals.iter().map(|v| v.1.clone()).collect::<BTreeSet<_>>().into_iter().collect::<Vec<_>>(), "values": vals.len()}));
}

pub fn run(args: &Args) {
    let mut rep = Report::new(args, Level::Exploration);
    mcx::quiet_panics();
    rep.set_max_samples(10);

    if let Some(r) = crate::util::load_replay(args) {
        let mut w = W::new(&rep);
        match r.get("kind").and_then(|k| k.as_str()) {
            Some("feed") => w.feed(&crate::util::unhex(r["bytes"].as_str().unwrap_or(""))),
            Some("rkyv") => {
                let b = crate::util::unhex(r["bytes"].as_str().unwrap_or(""));
                w.rep.count("inputs", 1);
                w.rkyv_access("corrupted archive", &b, &b, &r)
            }
            Some("static") => static_phase(&mut w),
            Some("concat") | Some("repr") => {
                let zoo = value_zoo();
                concat_phase(&mut w, &zoo);
                repr_phase(&mut w, &zoo);
            }
            _ => mcx::machinery_error("C32 replay: unknown kind"),
        }
        let W { rep: wr, bad, nontrivial, .. } = w;
        rep.absorb(wr);
        bad.flush(&mut rep);
        rep.set("distinct_nontrivial", nontrivial.len() as u64);
        rep.set("rule", "replay of one recorded case");
        rep.set("exhaustive", false);
        rep.sample(r);
        rep.finish();
    }

    let full3 = args.tier.pick(false, true);
    // Phase 1: feed. Chunks by first byte (disjoint), plus the empty string and the positional family.
    let positional = positional_inputs();
    let pos_set: BTreeSet<Vec<u8>> = positional.into_iter().filter(|v| v.len() > 4).collect();
    let results: Vec<W> = (0..=256usize)
        .into_par_iter()
        .map(|ci| {
            mcx::quiet_panics();
            let mut w = W::new(&rep);
            if ci == 256 {
                w.feed(&[]);
                for v in &pos_set {
                    w.feed(v);
                    if v.len() == 24 && v[22] == 0 {
                        w.rep.sample(json!({"kind": "feed", "bytes": mcx::hex(v), "note": "NUL at byte 22 of a 24-byte (heap) string"}));
                    }
                }
                return w;
            }
            let a = ci as u8;
            w.feed(&[a]);
            for b in 0..=255u8 {
                w.feed(&[a, b]);
                if full3 {
                    for c in 0..=255u8 {
                        w.feed(&[a, b, c]);
                    }
                } else if QUICK3.contains(&a) && QUICK3.contains(&b) {
                    for c in QUICK3 {
                        w.feed(&[a, b, c]);
                    }
                }
                if QUICK3.contains(&a) && QUICK3.contains(&b) {
                    for c in QUICK3 {
                        for d in QUICK3 {
                            w.feed(&[a, b, c, d]);
                        }
                    }
                }
            }
            if a == b'7' {
                w.rep.sample(json!({"kind": "feed", "bytes": mcx::hex(&[a, b'a']), "note": "leading digit: valid Text, invalid Identifier"}));
            }
            w
        })
        .collect();
    let mut bad = MinCases::default();
    let mut nontrivial = 0u64;
    for w in results {
        nontrivial += w.nontrivial.len() as u64; // chunks hold disjoint inputs
        rep.absorb(w.rep);
        bad.merge(w.bad);
    }
    // Phases 2–4 (small, sequential)
    let mut w = W::new(&rep);
    w.rep.set_max_samples(8);
    static_phase(&mut w);
    rkyv_corruption_phase(&mut w);
    let zoo = value_zoo();
    concat_phase(&mut w, &zoo);
    repr_phase(&mut w, &zoo);
    nontrivial += w.nontrivial.len() as u64; // keys are prefixed by phase, disjoint from phase 1
    let W { rep: wr, bad: wbad, .. } = w;
    rep.absorb(wr);
    bad.merge(wbad);
    bad.flush(&mut rep);

    rep.set("distinct_nontrivial", nontrivial);
    rep.set("three_byte_inputs", if full3 { "all 256^3" } else { "20-value alphabet (8000)" });
    rep.set(
        "rule",
        format!(
            "feed: every byte string of ≤2 bytes over 256 values, 3 bytes over {}, 4 bytes over a 20-value alphabet, and lengths {{0,1,7,8,9,21,22,23,24,64}} with NUL/!/é/0xE9/digit/_/space at every position, each through 21 constructor/decoder paths (FromStr, TryFrom<String|Text|&CStr>, serde_json ×4, postcard ×2, rkyv access+deserialize of a String archive) for Text and Identifier; every Text obtained on any path (static literal table of 33 text!/Text::new/Text::default values incl. every invalid-identifier class, inline, heap, clones, concatenations, deserialized) is converted with Identifier::try_from(Text)/try_into and every Identifier with Text::from and back; rkyv: every truncation, appended byte and 7-value single-byte replacement of valid Text/Identifier archives (inline and out-of-line, inline and heap) accessed as both archived types; concatenation of all pairs of a value set; Eq/Ord/Hash of all pairs of values across static/inline/heap/serde/rkyv/concatenated provenances. Non-trivial = distinct feed inputs for which at least one path ran the Text/Identifier validation (valid UTF-8, or a decoder accepted it or rejected it with the crate's own validation error) + distinct corrupted archives that got past rkyv's structural checks (accepted, or rejected by the Text/Identifier verify hook) + distinct concatenation operand pairs + distinct (content, provenance) comparison pairs; counted with sets per disjoint chunk.",
            if full3 { "256 values" } else { "a 20-value alphabet" }
        ),
    );
    rep.set("exhaustive", true);
    for c in [
        "inputs",
        "text_values_checked",
        "ident_values_checked",
        "rkyv_access_ok",
        "rkyv_rejected_by_text_validate",
        "rkyv_rejected_by_ident_validate",
        "corrupted_archives",
        "concat_pairs",
        "cross_repr_pairs",
        "cross_repr_ident_pairs",
        "same_content_different_repr_pairs",
        "static_literals",
        "static_literals_not_identifiers",
        "static_text_to_ident_rejected",
        "text_to_ident_accepted",
        "text_to_ident_rejected",
        "ident_to_text_conversions",
    ] {
        rep.require_nonzero(c);
    }
    rep.finish()
}
