//! C39 — AFC messages are authenticated and opening never panics.
//!
//! Real code: `aranya_fast_channels::Client` over the in-memory `memory::State`, default cipher
//! suite, deterministic raw channel keys (counter-mode generator seeded from `VERIF_SEED`), in this
//! build (debug assertions and overflow checks on).
//!
//! Channels (all in one state): A = (key K1, label L1) seal + open; B = (K2, L1) and C = (K1, L2)
//! seal-only "foreign" channels whose sequence numbers advance in lock step with A.
//!
//! Space, for every plaintext length 0..=64 (thorough 0..=128) and 3 (4) consecutive messages sealed
//! with `seal` and as many with `seal_in_place` (sequence numbers 0..5 (0..7)):
//!   * the intact message;
//!   * every truncation length 0..len; one extra trailing byte (5 values);
//!   * every position replaced by {00,01,7f,80,ff,e^1,e^80};
//!   * the sequence-number field replaced by {0, seq±1, 2^32-1, 2^64-1};
//!   * one byte moved across the ciphertext|tag and tag|header boundaries;
//!   * ciphertext / tag / header swapped with the same field of the next message;
//!   * the same plaintext sealed at the same sequence number on B (other key) and C (other label);
//! and, once: all byte strings of ≤ 2 bytes and constant-filled strings of every length 0..=48.
//! Every input goes through `open` (exact and oversized output buffer), and `open_in_place` on a
//! `Vec`, a `FixedBuf` and a `heapless::Vec`.
//!
//! Oracle (the statement): intact ⇒ `Ok`, the plaintext, label L1 and the sequence number used;
//! anything else ⇒ `Err` without unwinding, and the output buffer is unchanged or zeroed (if it is
//! neither, it must not contain the plaintext).

use std::collections::BTreeSet;

use aranya_crypto::{
    afc::{OpenKey, RawOpenKey, RawSealKey, SealKey, Seq},
    default::DefaultCipherSuite as CS,
    policy::LabelId,
    DeviceId, Random,
};
use aranya_fast_channels::{memory::State, AfcState, AranyaState, Client, Directed, FixedBuf};
use mcx::{json, rayon::prelude::*, Args, Level, Report};

use crate::util::{CtrRng, MinCases};

type Cl = Client<State<CS>>;
const OVERHEAD: usize = Cl::OVERHEAD;
const HDR: usize = 8;
const TAG: usize = OVERHEAD - HDR;
const MSGS: usize = 3;

struct World {
    client: Cl,
    seal_a: <State<CS> as AfcState>::SealCtx,
    seal_b: <State<CS> as AfcState>::SealCtx,
    seal_c: <State<CS> as AfcState>::SealCtx,
    open_a: <State<CS> as AfcState>::OpenCtx,
    open_c: <State<CS> as AfcState>::OpenCtx,
    l1: LabelId,
    l2: LabelId,
}

fn world(seed: u64, stream: u64) -> World {
    let rng = CtrRng::new(seed, 0x39_0000 + stream);
    let k1: RawSealKey<CS> = Random::random(&rng);
    let k2: RawSealKey<CS> = Random::random(&rng);
    let l1 = LabelId::from_bytes([0x11; 32]);
    let l2 = LabelId::from_bytes([0x22; 32]);
    let peer = DeviceId::from_bytes([0x33; 32]);
    let state = State::<CS>::new();
    let me = |e: &dyn std::fmt::Display| -> ! { mcx::machinery_error(&format!("C39 setup: {e}")) };
    let add_seal = |k: &RawSealKey<CS>, l: LabelId| {
        let key = SealKey::<CS>::from_raw(k, Seq::ZERO).unwrap_or_else(|e| me(&e));
        state.add(Directed::SealOnly { seal: key }, l, peer).unwrap_or_else(|e| me(&e))
    };
    let add_open = |k: &RawSealKey<CS>, l: LabelId| {
        let raw = RawOpenKey::<CS> { key: k.key.clone(), base_nonce: k.base_nonce.clone() };
        let key = OpenKey::<CS>::from_raw(&raw).unwrap_or_else(|e| me(&e));
        state.add(Directed::OpenOnly { open: key }, l, peer).unwrap_or_else(|e| me(&e))
    };
    let (sa, oa, sb, sc, oc) = (add_seal(&k1, l1), add_open(&k1, l1), add_seal(&k2, l1), add_seal(&k1, l2), add_open(&k1, l2));
    let client = Client::new(state);
    World {
        seal_a: client.setup_seal_ctx(sa).unwrap_or_else(|e| me(&e)),
        seal_b: client.setup_seal_ctx(sb).unwrap_or_else(|e| me(&e)),
        seal_c: client.setup_seal_ctx(sc).unwrap_or_else(|e| me(&e)),
        open_a: client.setup_open_ctx(oa).unwrap_or_else(|e| me(&e)),
        open_c: client.setup_open_ctx(oc).unwrap_or_else(|e| me(&e)),
        client,
        l1,
        l2,
    }
}

fn plaintext(n: usize, msg: usize) -> Vec<u8> {
    (0..n).map(|i| 0x41 + ((i * 7 + n + msg * 5) % 0x3e) as u8).collect()
}

#[derive(Clone, Copy, Debug, PartialEq, Eq, PartialOrd, Ord)]
enum Iface {
    OpenExact,
    OpenBig,
    InPlaceVec,
    InPlaceFixed,
    InPlaceHeapless,
}
const IFACES: [Iface; 5] = [Iface::OpenExact, Iface::OpenBig, Iface::InPlaceVec, Iface::InPlaceFixed, Iface::InPlaceHeapless];

impl Iface {
    fn func(self) -> &'static str {
        match self {
            Iface::OpenExact | Iface::OpenBig => "open",
            _ => "open_in_place",
        }
    }
    fn name(self) -> &'static str {
        match self {
            Iface::OpenExact => "open(dst exact)",
            Iface::OpenBig => "open(dst oversized)",
            Iface::InPlaceVec => "open_in_place(Vec)",
            Iface::InPlaceFixed => "open_in_place(FixedBuf)",
            Iface::InPlaceHeapless => "open_in_place(heapless::Vec)",
        }
    }
}

/// Result of one call: Ok((label, seq)) / Err(text), and the output buffer afterwards.
struct Call {
    res: Result<Result<(LabelId, u64), String>, String>,
    /// output buffer before the call (what "unchanged" means) and after
    before: Vec<u8>,
    after: Vec<u8>,
}

fn call(w: &mut World, which: Iface, use_c: bool, input: &[u8]) -> Call {
    let client = &w.client;
    let ctx = if use_c { &mut w.open_c } else { &mut w.open_a };
    let conv = |r: Result<(LabelId, Seq), aranya_fast_channels::Error>| r.map(|(l, s)| (l, s.to_u64())).map_err(|e| format!("{e:?}"));
    match which {
        Iface::OpenExact | Iface::OpenBig => {
            let n = input.len().saturating_sub(OVERHEAD) + if which == Iface::OpenBig { 5 } else { 0 };
            let mut dst = vec![0xEEu8; n];
            let before = dst.clone();
            let res = mcx::catch(|| conv(client.open(ctx, &mut dst, input)));
            Call { res, before, after: dst }
        }
        Iface::InPlaceVec => {
            let mut data = input.to_vec();
            let res = mcx::catch(|| conv(client.open_in_place(ctx, &mut data)));
            Call { res, before: input.to_vec(), after: data }
        }
        Iface::InPlaceFixed => {
            let mut backing = input.to_vec();
            backing.extend_from_slice(&[0xEE; 7]);
            let mut out_len = 0;
            let res = {
                let mut buf = FixedBuf::from_slice_mut(&mut backing, input.len()).unwrap();
                let r = mcx::catch(|| conv(client.open_in_place(ctx, &mut buf)));
                out_len = buf.len().max(out_len);
                r
            };
            if backing[input.len()..] != [0xEE; 7] {
                return Call { res: Err("FixedBuf: bytes beyond the used length were modified".into()), before: input.to_vec(), after: backing };
            }
            backing.truncate(out_len);
            Call { res, before: input.to_vec(), after: backing }
        }
        Iface::InPlaceHeapless => {
            let mut data: heapless::Vec<u8, 160> = heapless::Vec::new();
            if data.extend_from_slice(input).is_err() {
                mcx::machinery_error("C39: input longer than the heapless buffer");
            }
            let res = mcx::catch(|| conv(client.open_in_place(ctx, &mut data)));
            Call { res, before: input.to_vec(), after: data.to_vec() }
        }
    }
}

struct Wk {
    rep: Report,
    bad: MinCases,
    nontrivial: BTreeSet<Vec<u8>>,
}

impl Wk {
    fn fail(&mut self, group: String, input: &[u8], detail: String, what: &str, which: Iface, n: usize, stream: u64) {
        let replay = json!({"stream": stream, "plaintext_len": n, "what": what, "interface": which.name(), "input": mcx::hex(input)});
        self.bad.offer(&group, input, || format!("input len={}", input.len()), || format!("{what} via {}: {detail}", which.name()), || replay);
    }

    /// An input that must be rejected.
    fn must_fail(&mut self, w: &mut World, what: &str, input: &[u8], pt: &[u8], stream: u64) {
        if input.len() >= OVERHEAD {
            self.nontrivial.insert(input.to_vec());
        }
        for which in IFACES {
            self.rep.count("evaluations", 1);
            self.rep.count("rejections_expected", 1);
            let c = call(w, which, false, input);
            match c.res {
                Err(p) => {
                    self.rep.outcome(&format!("panic in {} on a {}-byte input", which.func(), input.len()), 1);
                    let loc = mcx::last_panic_location();
                    self.fail(format!("{} panics", which.func()), input, format!("panic: {p} at {loc}"), what, which, pt.len(), stream);
                }
                Ok(Ok((l, s))) => {
                    self.rep.outcome("forgery_accepted", 1);
                    let class = if what.starts_with("foreign") { what.to_string() } else { "modified or arbitrary input".to_string() };
                    self.fail(format!("{} accepts {class}", which.func()), input, format!("returned Ok(label {l}, seq {s}), output {}", mcx::hex(&c.after)), what, which, pt.len(), stream);
                }
                Ok(Err(e)) => {
                    let cls = e.split(['(', ' ']).next().unwrap_or("Err").to_string();
                    self.rep.outcome(&format!("Err {cls}"), 1);
                    let zeroed = c.after.len() == c.before.len() && c.after.iter().all(|&b| b == 0);
                    if c.after == c.before {
                        self.rep.count("err_buffer_unchanged", 1);
                    } else if zeroed {
                        self.rep.count("err_buffer_zeroed", 1);
                    } else {
                        self.rep.count("err_buffer_other", 1);
                        let leak = if pt.len() >= 8 {
                            (0..=pt.len() - 8).any(|i| c.after.len() >= i + 8 && c.after[i..i + 8] == pt[i..i + 8])
                        } else {
                            pt.len() >= 4 && c.after.len() >= pt.len() && c.after[..pt.len()] == *pt
                        };
                        if leak {
                            self.fail(format!("{} leaves plaintext in the output buffer after Err", which.func()), input, format!("{e}; buffer {}", mcx::hex(&c.after)), what, which, pt.len(), stream);
                        }
                    }
                }
            }
        }
    }

    /// The intact message.
    fn must_open(&mut self, w: &mut World, what: &str, input: &[u8], pt: &[u8], label: LabelId, seq: u64, use_c: bool, stream: u64) {
        self.nontrivial.insert(input.to_vec());
        for which in IFACES {
            self.rep.count("evaluations", 1);
            self.rep.count("intact_opens", 1);
            let c = call(w, which, use_c, input);
            match c.res {
                Err(p) => self.fail(format!("{} panics", which.func()), input, format!("panic: {p} at {}", mcx::last_panic_location()), what, which, pt.len(), stream),
                Ok(Err(e)) => self.fail(format!("{} rejects an intact message", which.func()), input, e, what, which, pt.len(), stream),
                Ok(Ok((l, s))) => {
                    self.rep.outcome("intact_ok", 1);
                    let out = match which {
                        Iface::OpenBig => {
                            if c.after[pt.len()..].iter().any(|&b| b != 0xEE) {
                                self.fail(format!("{} writes beyond the plaintext length", which.func()), input, mcx::hex(&c.after), what, which, pt.len(), stream);
                            }
                            &c.after[..pt.len()]
                        }
                        _ => &c.after[..],
                    };
                    if out != pt {
                        self.fail(format!("{} returns the wrong plaintext", which.func()), input, format!("got {} want {}", mcx::hex(out), mcx::hex(pt)), what, which, pt.len(), stream);
                    }
                    if l != label {
                        self.fail(format!("{} returns the wrong label", which.func()), input, format!("got {l} want {label}"), what, which, pt.len(), stream);
                    }
                    if s != seq {
                        self.fail(format!("{} returns the wrong sequence number", which.func()), input, format!("got {s} want {seq}"), what, which, pt.len(), stream);
                    }
                }
            }
        }
    }
}

fn tamperings(ct: &[u8], next: &[u8], seq: u64, all_values: bool, mut f: impl FnMut(String, Vec<u8>)) {
    let len = ct.len();
    let n = len - OVERHEAD;
    for i in 0..len {
        f(format!("truncated to {i}"), ct[..i].to_vec());
    }
    for x in [0x00u8, 0x01, 0x7f, 0x80, 0xff] {
        let mut v = ct.to_vec();
        v.push(x);
        f(format!("extra trailing byte {x:02x}"), v);
    }
    for i in 0..len {
        let mut seen = BTreeSet::new();
        let alphabet: Vec<u8> = if all_values { (0..=255).collect() } else { vec![0x00, 0x01, 0x7f, 0x80, 0xff, ct[i] ^ 1, ct[i] ^ 0x80] };
        for x in alphabet {
            if x != ct[i] && seen.insert(x) {
                let mut v = ct.to_vec();
                v[i] = x;
                let region = if i < n { "ciphertext" } else if i < n + TAG { "tag" } else { "header" };
                f(format!("{region} byte {i}: {:02x}->{x:02x}", ct[i]), v);
            }
        }
    }
    for s in [0u64, seq.wrapping_sub(1), seq.wrapping_add(1), u32::MAX as u64, u64::MAX] {
        if s != seq {
            let mut v = ct.to_vec();
            v[len - HDR..].copy_from_slice(&s.to_le_bytes());
            f(format!("sequence number field {seq}->{s}"), v);
        }
    }
    for b in [n, n + TAG] {
        // move one byte across the boundary at `b` (in both directions) = rotate around it
        if b >= 1 && b < len {
            let mut v = ct.to_vec();
            v.swap(b - 1, b);
            if v != ct {
                f(format!("bytes {} and {b} exchanged across a field boundary", b - 1), v);
            }
        }
    }
    if next.len() == len {
        for (name, r) in [("ciphertext", 0..n), ("tag", n..n + TAG), ("header", n + TAG..len)] {
            let mut v = ct.to_vec();
            v[r.clone()].copy_from_slice(&next[r]);
            if v != ct {
                f(format!("{name} replaced by the next message's {name}"), v);
            }
        }
    }
}

/// Everything for one plaintext length (own world, own key stream).
fn length_case(parent: &Report, seed: u64, n: usize, msgs: usize, all_values: bool) -> Wk {
    mcx::quiet_panics();
    let mut wk = Wk { rep: parent.worker(), bad: MinCases::default(), nontrivial: BTreeSet::new() };
    let stream = n as u64;
    let mut w = world(seed, stream);
    // seal 2×MSGS messages on A (alternating seal / seal_in_place), and the same on B and C
    let mut sealed: Vec<(Vec<u8>, Vec<u8>, u64, &'static str)> = Vec::new(); // (ct, pt, seq, how)
    let mut foreign_b = Vec::new();
    let mut foreign_c = Vec::new();
    for m in 0..2 * msgs {
        let pt = plaintext(n, m);
        let in_place = m % 2 == 1;
        let seal_on = |ctx: &mut <State<CS> as AfcState>::SealCtx, client: &Cl| -> Vec<u8> {
            if in_place {
                let mut data = pt.clone();
                client.seal_in_place(ctx, &mut data).unwrap_or_else(|e| mcx::machinery_error(&format!("C39: seal_in_place failed: {e}")));
                data
            } else {
                let mut dst = vec![0u8; n + OVERHEAD];
                client.seal(ctx, &mut dst, &pt).unwrap_or_else(|e| mcx::machinery_error(&format!("C39: seal failed: {e}")));
                dst
            }
        };
        let a = seal_on(&mut w.seal_a, &w.client);
        let b = seal_on(&mut w.seal_b, &w.client);
        let c = seal_on(&mut w.seal_c, &w.client);
        if a.len() != n + OVERHEAD {
            mcx::machinery_error("C39: sealed message has an unexpected length");
        }
        let seq = m as u64;
        let hdr_seq = u64::from_le_bytes(a[a.len() - HDR..].try_into().unwrap());
        if hdr_seq != seq {
            wk.fail("seal writes an unexpected sequence number".into(), &a, format!("message {m} carries sequence number {hdr_seq}"), "sealed message", Iface::OpenExact, n, stream);
        }
        sealed.push((a, pt, seq, if in_place { "seal_in_place" } else { "seal" }));
        foreign_b.push(b);
        foreign_c.push(c);
    }
    for m in 0..2 * msgs {
        let (ct, pt, seq, how) = sealed[m].clone();
        let l1 = w.l1;
        wk.must_open(&mut w, &format!("intact message from {how}"), &ct, &pt, l1, seq, false, stream);
        // foreign channels: valid on their own channel (C has an open side), rejected on A
        let l2 = w.l2;
        wk.must_open(&mut w, "foreign-label message on its own channel", &foreign_c[m], &pt, l2, seq, true, stream);
        wk.rep.count("foreign_cases", 2);
        wk.must_fail(&mut w, "foreign channel (other key, same label and sequence number)", &foreign_b[m], &pt, stream);
        wk.must_fail(&mut w, "foreign channel (same key and sequence number, other label)", &foreign_c[m], &pt, stream);
        let next = sealed[(m + 2) % (2 * msgs)].0.clone();
        let mut cases: Vec<(String, Vec<u8>)> = Vec::new();
        tamperings(&ct, &next, seq, all_values, |d, v| cases.push((d, v)));
        for (i, (d, v)) in cases.iter().enumerate() {
            wk.rep.count("tampered_cases", 1);
            wk.must_fail(&mut w, d, v, &pt, stream);
            if n == 5 && m == 0 && i % 40 == 33 {
                wk.rep.sample(json!({"plaintext_len": n, "message": m, "tampering": d, "input": mcx::hex(v)}));
            }
        }
    }
    wk
}

/// Inputs that do not derive from a sealed message.
fn arbitrary_inputs(parent: &Report, seed: u64) -> Wk {
    mcx::quiet_panics();
    let mut wk = Wk { rep: parent.worker(), bad: MinCases::default(), nontrivial: BTreeSet::new() };
    let stream = 1000;
    let mut w = world(seed, stream);
    let mut inputs: Vec<Vec<u8>> = vec![vec![]];
    for a in 0..=255u8 {
        inputs.push(vec![a]);
        for b in 0..=255u8 {
            inputs.push(vec![a, b]);
        }
    }
    for len in 0..=48usize {
        for fill in [0x00u8, 0x01, 0x7f, 0x80, 0xff] {
            inputs.push(vec![fill; len]);
        }
        inputs.push((0..len).map(|i| i as u8).collect());
    }
    let set: BTreeSet<Vec<u8>> = inputs.into_iter().collect();
    for v in &set {
        wk.rep.count("arbitrary_inputs", 1);
        wk.must_fail(&mut w, "arbitrary byte string", v, &[], stream);
    }
    wk.rep.sample(json!({"arbitrary_inputs": set.len(), "example": mcx::hex(&[0u8; 8])}));
    wk
}

pub fn run(args: &Args) {
    let mut rep = Report::new(args, Level::Exploration);
    mcx::quiet_panics();
    rep.set_max_samples(8);
    if OVERHEAD != 24 || TAG != 16 {
        rep.assume(&format!("cipher suite overhead is {OVERHEAD} bytes (tag {TAG} + header {HDR})"));
    }
    if let Some(r) = crate::util::load_replay(args) {
        let input = crate::util::unhex(r["input"].as_str().unwrap_or(""));
        let stream = r["stream"].as_u64().unwrap_or(0);
        let n = r["plaintext_len"].as_u64().unwrap_or(0) as usize;
        let mut wk = Wk { rep: rep.worker(), bad: MinCases::default(), nontrivial: BTreeSet::new() };
        let mut w = world(args.seed, stream);
        // the recorded input was built for this seed's keys; intact messages are re-sealed instead
        let what = r["what"].as_str().unwrap_or("replayed input").to_string();
        if what.starts_with("intact") {
            let pt = plaintext(n, 0);
            let mut dst = vec![0u8; n + OVERHEAD];
            w.client.seal(&mut w.seal_a, &mut dst, &pt).unwrap_or_else(|e| mcx::machinery_error(&format!("C39 replay: seal failed: {e}")));
            let l1 = w.l1;
            wk.must_open(&mut w, &what, &dst, &pt, l1, 0, false, stream);
        } else {
            wk.must_fail(&mut w, &what, &input, &plaintext(n, 0), stream);
        }
        let Wk { rep: wr, bad, nontrivial } = wk;
        rep.absorb(wr);
        bad.flush(&mut rep);
        rep.set("distinct_nontrivial", nontrivial.len() as u64);
        rep.set("rule", "replay of one recorded input through all five interfaces");
        rep.set("exhaustive", false);
        rep.sample(r);
        rep.finish();
    }
    let max_len: usize = args.tier.pick(64, 128);
    let msgs: usize = args.tier.pick(MSGS, 4);
    let all_values_up_to: usize = args.tier.pick(0, 8); // thorough: all 256 values at every position of short messages
    let mut parts: Vec<Wk> = (0..=max_len + 1)
        .into_par_iter()
        .map(|n| if n <= max_len { length_case(&rep, args.seed, n, msgs, args.tier == mcx::Tier::Thorough && n <= all_values_up_to) } else { arbitrary_inputs(&rep, args.seed) })
        .collect();
    let mut bad = MinCases::default();
    let mut nontrivial: BTreeSet<Vec<u8>> = BTreeSet::new();
    for p in parts.drain(..) {
        rep.absorb(p.rep);
        bad.merge(p.bad);
        nontrivial.extend(p.nontrivial);
    }
    bad.flush(&mut rep);
    rep.set("distinct_nontrivial", nontrivial.len() as u64);
    rep.set("plaintext_lengths", json!([0, max_len]));
    rep.set("messages_per_length", (2 * msgs) as u64);
    rep.set("interfaces", IFACES.iter().map(|i| i.name()).collect::<Vec<_>>());
    rep.set(
        "rule",
        format!("plaintext lengths 0..={max_len} × {} messages (seal and seal_in_place alternating, sequence numbers 0..{}) × [intact; every truncation; 5 extra trailing bytes; 7-value replacement of every byte{}; 5 sequence-number field values; boundary byte exchanges; field swaps with another message; the same plaintext and sequence number on a channel with another key and on a channel with the same key but another label] + all byte strings ≤2 bytes + constant/ramp strings of length 0..=48, each through open (exact and oversized dst) and open_in_place (Vec, FixedBuf, heapless::Vec). Non-trivial = distinct input byte strings of at least OVERHEAD={OVERHEAD} bytes (they pass the header and tag length checks and reach the AEAD), counted with a set.", 2 * msgs, 2 * msgs, if args.tier == mcx::Tier::Thorough { format!(" (all 256 values for plaintext lengths ≤{all_values_up_to})") } else { String::new() }),
    );
    rep.set("exhaustive", true);
    for c in ["intact_opens", "tampered_cases", "foreign_cases", "arbitrary_inputs", "err_buffer_unchanged", "err_buffer_zeroed"] {
        rep.require_nonzero(c);
    }
    rep.finish()
}
