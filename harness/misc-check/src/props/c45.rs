//! C45 — key stores behave as maps.
//!
//! Real code: `aranya_crypto::keystore::memstore::MemStore` and `fs_keystore::Store` (on a scratch
//! directory under /dev/shm). Explicit-state exploration: a state *is* an operation history; every
//! history is replayed from scratch on a fresh real store, next to a `HashMap` model.
//!
//! Operations on ids {1,2} (16 per id) and on the handle (2):
//!   insert(i)      entry(i) → vacant: insert a fresh key / occupied: drop the entry
//!   drop(i)        entry(i) → drop the entry (a vacant entry dropped unused)
//!   get(i)         entry(i) → occupied: `get` / vacant: drop
//!   get_get(i)     entry(i) → occupied: `get`, `get`
//!   occ_remove(i)  entry(i) → occupied: `remove`
//!   get_remove(i)  entry(i) → occupied: `get`, `remove`
//!   store_get(i)   `KeyStore::get`
//!   try_insert(i)  `KeyStore::try_insert` (must fail with AlreadyExists on an occupied id)
//!   remove(i)      `KeyStore::remove`
//!   fail_insert(i,at=p)      entry(i) → vacant: insert a key whose `Serialize` fails at position p
//!                  (1 before anything is emitted, 2 after the struct header, 3 after the first
//!                  field, 4 after the last-but-one field, 5 after the last field); the insert must
//!                  fail and the id stays vacant
//!   fail_try_insert(i,at=p)  `KeyStore::try_insert` of such a key (p ∈ {1,3})
//!   reopen         fs: drop the store and open the directory again; mem: move into a clone
//!   try_clone      fs: `try_clone` and continue on the clone; mem: `clone`
//! Keys alternate between a short and a ~300-byte payload per id, so stale or truncated contents
//! are visible.
//!
//! Engines: (a) BFS with de-duplication on the canonical state (model map incl. last version +
//! sorted directory listing with sizes) to depth 5 | 9 (at 9 the frontier is empty: every reachable canonical state has been expanded); (b) every history (no de-duplication) to
//! depth 3 | 4. Oracle after every operation: entry kind, returned keys and errors equal the model;
//! at the end of every history: `KeyStore::get` of both ids equals the model and (fs) the directory
//! holds exactly one file per occupied id — nothing for an id whose vacant entry was dropped.

use std::collections::{BTreeMap, BTreeSet, HashMap};

use aranya_crypto::{
    engine::WrappedKey,
    id::IdError,
    keystore::{fs_keystore, memstore::MemStore, Entry, Error as _, ErrorKind, Occupied as _, Vacant as _},
    BaseId, Identified, KeyStore,
};
use mcx::{json, rayon::prelude::*, Args, Level, Report, Scratch, Value};
use serde::{Deserialize, Serialize};

use crate::util::MinCases;

#[derive(Clone, Debug, PartialEq, Eq, Deserialize)]
struct Key {
    id: u8,
    ver: u8,
    pad: Vec<u8>,
    /// 0 = encodes fine; p ≥ 1 = `Serialize` fails at position p (see `FAIL_POS`). Never stored.
    #[serde(skip, default)]
    fail_at: u8,
}

/// Where a failing key's `Serialize` gives up: 1 = before anything is emitted, 2 = after the
/// struct header, 3 = after the first field, 4 = after the last-but-one field, 5 = after the last
/// field (everything emitted, then the error).
const FAIL_POS: [u8; 5] = [1, 2, 3, 4, 5];

impl Serialize for Key {
    fn serialize<S: serde::Serializer>(&self, s: S) -> Result<S::Ok, S::Error> {
        use serde::ser::{Error as _, SerializeStruct as _};
        let boom = |p: u8| S::Error::custom(format!("key cannot be encoded (position {p})"));
        if self.fail_at == 1 {
            return Err(boom(1));
        }
        let mut st = s.serialize_struct("Key", 3)?;
        if self.fail_at == 2 {
            return Err(boom(2));
        }
        st.serialize_field("id", &self.id)?;
        if self.fail_at == 3 {
            return Err(boom(3));
        }
        st.serialize_field("ver", &self.ver)?;
        if self.fail_at == 4 {
            return Err(boom(4));
        }
        st.serialize_field("pad", &self.pad)?;
        if self.fail_at == 5 {
            return Err(boom(5));
        }
        st.end()
    }
}

impl Key {
    fn new(id: u8, ver: u8) -> Self {
        let n = if ver == 2 { 300 } else { 0 };
        Key { id, ver, pad: (0..n).map(|i| (i as u8) ^ id ^ 0x5a).collect(), fail_at: 0 }
    }
    fn failing(id: u8, pos: u8) -> Self {
        let mut k = Key::new(id, 2);
        k.fail_at = pos;
        k
    }
}

impl WrappedKey for Key {}
impl Identified for Key {
    type Id = BaseId;
    fn id(&self) -> Result<BaseId, IdError> {
        Ok(bid(self.id))
    }
}

fn bid(id: u8) -> BaseId {
    let mut b = [0x11u8; 32];
    b[0] = id;
    b[31] = id.wrapping_mul(37);
    BaseId::from_bytes(b)
}

const IDS: [u8; 2] = [1, 2];

#[derive(Clone, Copy, Debug, PartialEq, Eq)]
enum Op {
    Insert(u8),
    Drop(u8),
    Get(u8),
    GetGet(u8),
    OccRemove(u8),
    GetRemove(u8),
    StoreGet(u8),
    TryInsert(u8),
    /// entry → vacant: insert a key whose encoding fails at the given position
    FailInsert(u8, u8),
    /// `KeyStore::try_insert` with such a key
    FailTryInsert(u8, u8),
    Remove(u8),
    Reopen,
    TryClone,
}

fn alphabet() -> Vec<Op> {
    let mut v = Vec::new();
    for i in IDS {
        v.extend([Op::Insert(i), Op::Drop(i), Op::Get(i), Op::GetGet(i), Op::OccRemove(i), Op::GetRemove(i), Op::StoreGet(i), Op::TryInsert(i), Op::Remove(i)]);
        for p in FAIL_POS {
            v.push(Op::FailInsert(i, p));
        }
        for p in [1, 3] {
            v.push(Op::FailTryInsert(i, p));
        }
    }
    v.push(Op::Reopen);
    v.push(Op::TryClone);
    v
}

impl Op {
    fn name(self) -> String {
        match self {
            Op::Insert(i) => format!("insert({i})"),
            Op::Drop(i) => format!("drop({i})"),
            Op::Get(i) => format!("get({i})"),
            Op::GetGet(i) => format!("get_get({i})"),
            Op::OccRemove(i) => format!("occ_remove({i})"),
            Op::GetRemove(i) => format!("get_remove({i})"),
            Op::StoreGet(i) => format!("store_get({i})"),
            Op::TryInsert(i) => format!("try_insert({i})"),
            Op::FailInsert(i, p) => format!("fail_insert({i},at={p})"),
            Op::FailTryInsert(i, p) => format!("fail_try_insert({i},at={p})"),
            Op::Remove(i) => format!("remove({i})"),
            Op::Reopen => "reopen".into(),
            Op::TryClone => "try_clone".into(),
        }
    }
    fn kind(self) -> &'static str {
        match self {
            Op::Insert(_) => "insert",
            Op::Drop(_) => "drop",
            Op::Get(_) => "get",
            Op::GetGet(_) => "get_get",
            Op::OccRemove(_) => "occ_remove",
            Op::GetRemove(_) => "get_remove",
            Op::StoreGet(_) => "store_get",
            Op::TryInsert(_) => "try_insert",
            Op::FailInsert(..) => "fail_insert",
            Op::FailTryInsert(..) => "fail_try_insert",
            Op::Remove(_) => "remove",
            Op::Reopen => "reopen",
            Op::TryClone => "try_clone",
        }
    }
}

fn hist_name(ops: &[Op], h: &[u8]) -> String {
    h.iter().map(|&o| ops[o as usize].name()).collect::<Vec<_>>().join(";")
}

/// The reference: a map plus, per id, the last version ever inserted (decides the next payload).
#[derive(Clone, Default)]
struct Model {
    map: HashMap<u8, Key>,
    last_ver: HashMap<u8, u8>,
}

impl Model {
    fn next_key(&self, id: u8) -> Key {
        let v = if self.last_ver.get(&id).copied().unwrap_or(0) == 1 { 2 } else { 1 };
        Key::new(id, v)
    }
    fn insert(&mut self, k: Key) {
        self.last_ver.insert(k.id, k.ver);
        self.map.insert(k.id, k);
    }
}

/// The two stores behind one small interface.
trait Sut: Sized {
    type S: KeyStore;
    const NAME: &'static str;
    fn fresh(dir: &Scratch) -> Result<Self::S, String>;
    fn reopen(s: Self::S, dir: &Scratch) -> Result<Self::S, String>;
    fn try_clone(s: Self::S) -> Result<Self::S, String>;
    /// file name → size, without the debug canary; `None` for the memory store
    fn listing(dir: &Scratch) -> Option<BTreeMap<String, u64>>;
    fn file_name(id: u8) -> String {
        bid(id).to_string()
    }
}

struct Fs;
impl Sut for Fs {
    type S = fs_keystore::Store;
    const NAME: &'static str = "fs";
    fn fresh(dir: &Scratch) -> Result<Self::S, String> {
        fs_keystore::Store::open(dir.path()).map_err(|e| e.to_string())
    }
    fn reopen(s: Self::S, dir: &Scratch) -> Result<Self::S, String> {
        drop(s);
        fs_keystore::Store::open(dir.path()).map_err(|e| e.to_string())
    }
    fn try_clone(s: Self::S) -> Result<Self::S, String> {
        let c = s.try_clone().map_err(|e| e.to_string())?;
        drop(s);
        Ok(c)
    }
    fn listing(dir: &Scratch) -> Option<BTreeMap<String, u64>> {
        let mut m = BTreeMap::new();
        let rd = std::fs::read_dir(dir.path()).unwrap_or_else(|e| mcx::machinery_error(&format!("read_dir scratch: {e}")));
        for e in rd {
            let e = e.unwrap_or_else(|e| mcx::machinery_error(&format!("read_dir entry: {e}")));
            let name = e.file_name().to_string_lossy().into_owned();
            if name == "__canary" {
                continue;
            }
            let len = e.metadata().map(|m| m.len()).unwrap_or(u64::MAX);
            m.insert(name, len);
        }
        Some(m)
    }
}

struct Mem;
impl Sut for Mem {
    type S = MemStore;
    const NAME: &'static str = "mem";
    fn fresh(_: &Scratch) -> Result<Self::S, String> {
        Ok(MemStore::new())
    }
    fn reopen(s: Self::S, _: &Scratch) -> Result<Self::S, String> {
        let c = s.clone();
        drop(s);
        Ok(c)
    }
    fn try_clone(s: Self::S) -> Result<Self::S, String> {
        Ok(s.clone())
    }
    fn listing(_: &Scratch) -> Option<BTreeMap<String, u64>> {
        None
    }
}

/// What went wrong at one step: (class, detail).
type Fail = (String, String);

fn step<T: Sut>(mut store: T::S, model: &mut Model, op: Op, dir: &Scratch) -> Result<T::S, (Fail, Option<T::S>)> {
    macro_rules! bad {
        ($class:expr, $($d:tt)*) => {
            return Err((($class.to_string(), format!($($d)*)), Some(store)))
        };
    }
    match op {
        Op::Reopen => return T::reopen(store, dir).map_err(|e| (("reopen fails".to_string(), e), None)),
        Op::TryClone => return T::try_clone(store).map_err(|e| (("try_clone fails".to_string(), e), None)),
        Op::StoreGet(i) => match store.get::<Key>(bid(i)) {
            Err(e) => bad!("Err", "KeyStore::get({i}) failed: {e}"),
            Ok(got) => {
                if got.as_ref() != model.map.get(&i) {
                    bad!("wrong result", "KeyStore::get({i}) returned {:?}, model has {:?}", got.map(|k| k.ver), model.map.get(&i).map(|k| k.ver));
                }
            }
        },
        Op::TryInsert(i) => {
            let k = model.next_key(i);
            match store.try_insert(bid(i), k.clone()) {
                Ok(()) => {
                    if model.map.contains_key(&i) {
                        bad!("Ok on an occupied id", "try_insert({i}) succeeded although the id is occupied");
                    }
                    model.insert(k);
                }
                Err(e) => {
                    if !model.map.contains_key(&i) {
                        bad!("Err on a vacant id", "try_insert({i}) failed on a vacant id: {e}");
                    }
                    if e.kind() != ErrorKind::AlreadyExists {
                        bad!("wrong error kind", "try_insert({i}) on an occupied id failed with {:?}: {e}", e.kind());
                    }
                }
            }
        }
        Op::FailTryInsert(i, p) => match store.try_insert(bid(i), Key::failing(i, p)) {
            Ok(()) => bad!("Ok although the key cannot be encoded", "try_insert({i}) of a key whose encoding fails at position {p} returned Ok"),
            Err(e) => {
                if model.map.contains_key(&i) && e.kind() != ErrorKind::AlreadyExists {
                    bad!("wrong error kind", "failing try_insert({i}) on an occupied id failed with {:?}: {e}", e.kind());
                }
                // the model is unchanged: a failed insert leaves the id as it was
            }
        },
        Op::FailInsert(i, p) => {
            let mut fail: Option<Fail> = None;
            match store.entry::<Key>(bid(i)) {
                Err(e) => fail = Some(("entry Err".into(), format!("entry({i}) failed: {e}"))),
                Ok(Entry::Vacant(v)) => {
                    if model.map.contains_key(&i) {
                        fail = Some(("vacant entry for an occupied id".into(), format!("entry({i}) is Vacant but the model holds a key")));
                    } else if v.insert(Key::failing(i, p)).is_ok() {
                        fail = Some(("Ok although the key cannot be encoded".into(), format!("insert through the vacant entry of {i} of a key whose encoding fails at position {p} returned Ok")));
                    }
                }
                Ok(Entry::Occupied(o)) => {
                    if !model.map.contains_key(&i) {
                        fail = Some(("occupied entry for a vacant id".into(), format!("entry({i}) is Occupied but the model has no key")));
                    }
                    drop(o);
                }
            }
            if let Some(f) = fail {
                return Err((f, Some(store)));
            }
        }
        Op::Remove(i) => match store.remove::<Key>(bid(i)) {
            Err(e) => {
                // the store may already have unlinked the key; the history is not extended
                bad!("Err", "KeyStore::remove({i}) failed: {e} (id was {})", if model.map.contains_key(&i) { "occupied" } else { "vacant" });
            }
            Ok(got) => {
                let want = model.map.remove(&i);
                if got != want {
                    bad!("wrong result", "KeyStore::remove({i}) returned {:?}, model had {:?}", got.map(|k| k.ver), want.map(|k| k.ver));
                }
            }
        },
        Op::Insert(i) | Op::Drop(i) | Op::Get(i) | Op::GetGet(i) | Op::OccRemove(i) | Op::GetRemove(i) => {
            let want = model.map.get(&i).cloned();
            let mut fail: Option<Fail> = None;
            let mut removed = false;
            let mut inserted: Option<Key> = None;
            match store.entry::<Key>(bid(i)) {
                Err(e) => fail = Some(("entry Err".into(), format!("entry({i}) failed: {e}"))),
                Ok(Entry::Vacant(v)) => {
                    if want.is_some() {
                        fail = Some(("vacant entry for an occupied id".into(), format!("entry({i}) is Vacant but the model holds version {:?}", want.as_ref().map(|k| k.ver))));
                    } else if let Op::Insert(_) = op {
                        let k = model.next_key(i);
                        match v.insert(k.clone()) {
                            Ok(()) => inserted = Some(k),
                            Err(e) => fail = Some(("vacant.insert Err".into(), format!("insert through the vacant entry of {i} failed: {e}"))),
                        }
                    } else {
                        drop(v);
                    }
                }
                Ok(Entry::Occupied(o)) => match want.as_ref() {
                    None => fail = Some(("occupied entry for a vacant id".into(), format!("entry({i}) is Occupied but the model has no key"))),
                    Some(want) => {
                        let chk = |n: usize, r: Result<Key, <T::S as KeyStore>::Error>| -> Option<Fail> {
                            match r {
                                Ok(k) if &k == want => None,
                                Ok(k) => Some((format!("{} returns the wrong key", ["first get", "second get", "remove"][n]), format!("got version {} ({} pad bytes), stored version {}", k.ver, k.pad.len(), want.ver))),
                                Err(e) => Some((format!("{} fails", ["first get", "second get", "remove"][n]), format!("{e} ({e:?})"))),
                            }
                        };
                        match op {
                            Op::Insert(_) | Op::Drop(_) => drop(o),
                            Op::Get(_) => fail = chk(0, o.get()),
                            Op::GetGet(_) => {
                                fail = chk(0, o.get());
                                if fail.is_none() {
                                    fail = chk(1, o.get());
                                }
                            }
                            Op::OccRemove(_) => {
                                removed = true;
                                fail = chk(2, o.remove());
                            }
                            Op::GetRemove(_) => {
                                fail = chk(0, o.get());
                                if fail.is_none() {
                                    removed = true;
                                    fail = chk(2, o.remove());
                                }
                            }
                            _ => unreachable!(),
                        }
                    }
                },
            }
            if let Some(f) = fail {
                return Err((f, Some(store)));
            }
            if removed {
                model.map.remove(&i);
            }
            if let Some(k) = inserted {
                model.insert(k);
            }
        }
    }
    Ok(store)
}

struct Outcome {
    /// canonical state after the history (only if every step was fine)
    canon: Option<String>,
    /// failure at the last step / final observation: (group, detail)
    fail: Option<Fail>,
    /// a failure before the last step (the prefix was accepted earlier ⇒ nondeterminism)
    prefix_fail: Option<String>,
    steps: u64,
}

fn replay<T: Sut>(ops: &[Op], h: &[u8]) -> Outcome {
    let dir = Scratch::new(&format!("c45-{}", T::NAME));
    let mut model = Model::default();
    let mut steps = 0u64;
    let mut store = match T::fresh(&dir) {
        Ok(s) => s,
        Err(e) => mcx::machinery_error(&format!("C45: cannot create a fresh {} store: {e}", T::NAME)),
    };
    for (n, &o) in h.iter().enumerate() {
        let op = ops[o as usize];
        steps += 1;
        let r = mcx::catch(|| step::<T>(store, &mut model, op, &dir));
        match r {
            Err(p) => {
                let f = (format!("{}: panic", op.kind()), format!("panic: {p}"));
                return if n + 1 == h.len() { Outcome { canon: None, fail: Some(f), prefix_fail: None, steps } } else { Outcome { canon: None, fail: None, prefix_fail: Some(f.1), steps } };
            }
            Ok(Err(((class, detail), st))) => {
                drop(st);
                let after = match T::listing(&dir) {
                    Some(l) => format!("; directory afterwards holds files for ids {:?}, model holds ids {:?}", IDS.iter().filter(|&&i| l.contains_key(&T::file_name(i))).collect::<Vec<_>>(), {
                        let mut k: Vec<_> = model.map.keys().copied().collect();
                        k.sort();
                        k
                    }),
                    None => String::new(),
                };
                let f = (format!("{}: {class}", op.kind()), format!("{detail}{after}"));
                return if n + 1 == h.len() { Outcome { canon: None, fail: Some(f), prefix_fail: None, steps } } else { Outcome { canon: None, fail: None, prefix_fail: Some(f.1), steps } };
            }
            Ok(Ok(s)) => store = s,
        }
    }
    // final observation: the directory first (the clause about dropped vacant entries) …
    let last = h.last().map(|&o| ops[o as usize].kind()).unwrap_or("open");
    let listing = T::listing(&dir);
    if let Some(l) = &listing {
        let want: BTreeSet<String> = model.map.keys().map(|&i| T::file_name(i)).collect();
        let have: BTreeSet<String> = l.keys().cloned().collect();
        if want != have {
            let extra: Vec<_> = have.difference(&want).cloned().collect();
            let missing: Vec<_> = want.difference(&have).cloned().collect();
            return Outcome {
                canon: None,
                fail: Some((format!("{last}: directory differs from the map"), format!("files without a key: {extra:?}; keys without a file: {missing:?}"))),
                prefix_fail: None,
                steps,
            };
        }
    }
    // … then KeyStore::get of every id
    for i in IDS {
        match mcx::catch(|| store.get::<Key>(bid(i))) {
            Err(p) => return Outcome { canon: None, fail: Some((format!("{last}: afterwards KeyStore::get panics"), p)), prefix_fail: None, steps },
            Ok(Err(e)) => return Outcome { canon: None, fail: Some((format!("{last}: afterwards KeyStore::get fails"), format!("get({i}): {e}"))), prefix_fail: None, steps },
            Ok(Ok(got)) => {
                if got.as_ref() != model.map.get(&i) {
                    return Outcome {
                        canon: None,
                        fail: Some((format!("{last}: afterwards contents differ from the map"), format!("get({i}) = version {:?}, model = {:?}", got.map(|k| k.ver), model.map.get(&i).map(|k| k.ver)))),
                        prefix_fail: None,
                        steps,
                    };
                }
            }
        }
    }
    drop(store);
    // canonical state: model (with last versions) + listing (names → sizes)
    let mut c = String::new();
    for i in IDS {
        c.push_str(&format!("{i}:{}/{};", model.map.get(&i).map(|k| k.ver).unwrap_or(0), model.last_ver.get(&i).copied().unwrap_or(0)));
    }
    if let Some(l) = listing {
        for (n, s) in l {
            let id = IDS.iter().find(|&&i| T::file_name(i) == n).map(|i| i.to_string()).unwrap_or(n);
            c.push_str(&format!("f{id}={s};"));
        }
    }
    Outcome { canon: Some(c), fail: None, prefix_fail: None, steps }
}

struct Totals {
    states: u64,
    transitions: u64,
    executions: u64,
    max_depth_done: usize,
    frontier_sizes: Vec<usize>,
}

fn explore<T: Sut>(rep: &mut Report, bad: &mut MinCases, ops: &[Op], depth: usize, dedupe: bool) -> Totals {
    let mut seen: BTreeSet<String> = BTreeSet::new();
    let mut frontier: Vec<Vec<u8>> = vec![vec![]];
    let mut tot = Totals { states: 0, transitions: 0, executions: 0, max_depth_done: 0, frontier_sizes: vec![] };
    // the empty history
    let o = replay::<T>(ops, &[]);
    tot.executions += 1;
    match (&o.canon, &o.fail) {
        (Some(c), _) => {
            seen.insert(c.clone());
        }
        (None, Some(f)) => mcx::machinery_error(&format!("C45: empty history fails on {}: {} {}", T::NAME, f.0, f.1)),
        _ => mcx::machinery_error("C45: empty history has no outcome"),
    }
    for d in 1..=depth {
        let cands: Vec<Vec<u8>> = frontier
            .iter()
            .flat_map(|h| {
                (0..ops.len() as u8).map(move |o| {
                    let mut x = h.clone();
                    x.push(o);
                    x
                })
            })
            .collect();
        let outs: Vec<Outcome> = cands.par_iter().map(|h| replay::<T>(ops, h)).collect();
        let mut next = Vec::new();
        for (h, o) in cands.into_iter().zip(outs) {
            tot.executions += 1;
            tot.transitions += o.steps;
            rep.count(&format!("{}_histories", T::NAME), 1);
            if let Some(Op::FailInsert(_, p) | Op::FailTryInsert(_, p)) = h.last().map(|&o| ops[o as usize]) {
                rep.count(&format!("{}_histories_ending_in_failing_insert", T::NAME), 1);
                rep.count(&format!("failing_insert_at_position_{p}"), 1);
            }
            if let Some(p) = o.prefix_fail {
                mcx::machinery_error(&format!("C45: history {} failed in its already accepted prefix ({p}): the store is not deterministic under replay", hist_name(ops, &h)));
            }
            if let Some((class, detail)) = o.fail {
                rep.outcome(&format!("{} violation", T::NAME), 1);
                let name = hist_name(ops, &h);
                bad.offer(
                    &format!("{} {class}", T::NAME),
                    &h,
                    || name.clone(),
                    || format!("history {name}: {detail}"),
                    || json!({"store": T::NAME, "history": h.iter().map(|&o| ops[o as usize].name()).collect::<Vec<_>>(), "ops": h}),
                );
                continue; // not extended
            }
            let c = o.canon.unwrap_or_else(|| mcx::machinery_error("C45: history without outcome"));
            rep.outcome(&format!("{} state {c}", T::NAME), 1);
            let new = seen.insert(c);
            if new && (d == 2 || d == depth) {
                rep.sample(json!({"store": T::NAME, "history": hist_name(ops, &h), "dedupe": dedupe}));
            }
            if new || !dedupe {
                next.push(h);
            }
        }
        tot.max_depth_done = d;
        tot.frontier_sizes.push(next.len());
        frontier = next;
        if frontier.is_empty() {
            break;
        }
    }
    tot.states = seen.len() as u64;
    tot
}

fn replay_one(rep: &mut Report, bad: &mut MinCases, r: &Value) {
    let ops = alphabet();
    let h: Vec<u8> = r["ops"].as_array().map(|a| a.iter().map(|v| v.as_u64().unwrap_or(255) as u8).collect()).unwrap_or_default();
    if h.iter().any(|&o| o as usize >= ops.len()) {
        mcx::machinery_error("C45 replay: operation index out of range");
    }
    let o = match r["store"].as_str() {
        Some("fs") => replay::<Fs>(&ops, &h),
        Some("mem") => replay::<Mem>(&ops, &h),
        _ => mcx::machinery_error("C45 replay: unknown store"),
    };
    let store = r["store"].as_str().unwrap_or("");
    let name = hist_name(&ops, &h);
    println!("replayed {store} history {name}: canon={:?} fail={:?} prefix_fail={:?}", o.canon, o.fail, o.prefix_fail);
    if let Some((class, detail)) = o.fail.or(o.prefix_fail.map(|p| ("earlier step".to_string(), p))) {
        bad.offer(&format!("{store} {class}"), &h, || name.clone(), || format!("history {name}: {detail}"), || r.clone());
    }
    rep.set("states", 1u64);
    rep.set("transitions", o.steps.max(1));
    rep.set("traces_validated_against_impl", 1u64);
    rep.set("exhaustive", false);
    rep.sample(r.clone());
}

pub fn run(args: &Args) {
    let mut rep = Report::new(args, Level::ModelChecking);
    mcx::quiet_panics();
    rep.set_max_samples(12);
    let mut bad = MinCases::default();
    if let Some(r) = crate::util::load_replay(args) {
        replay_one(&mut rep, &mut bad, &r);
        bad.flush(&mut rep);
        rep.finish();
    }
    let ops = alphabet();
    let depth = args.tier.pick(5, 9);
    let plain_depth = args.tier.pick(3, 4);
    let mut states = 0;
    let mut transitions = 0;
    let mut executions = 0;
    let mut bounds = serde_json::Map::new();
    macro_rules! go {
        ($t:ty, $dedupe:expr, $depth:expr, $label:expr) => {{
            let t = explore::<$t>(&mut rep, &mut bad, &ops, $depth, $dedupe);
            states += if $dedupe { t.states } else { 0 };
            transitions += t.transitions;
            executions += t.executions;
            bounds.insert(
                format!("{} {}", <$t>::NAME, $label),
                json!({"depth_bound": $depth, "depth_completed": t.max_depth_done, "closed": t.frontier_sizes.last() == Some(&0), "distinct_states": t.states, "histories_executed": t.executions, "frontier_per_depth": t.frontier_sizes}),
            );
        }};
    }
    go!(Fs, true, depth, "bfs-dedupe");
    go!(Mem, true, depth, "bfs-dedupe");
    go!(Fs, false, plain_depth, "all-histories");
    go!(Mem, false, plain_depth, "all-histories");
    bad.flush(&mut rep);
    rep.set("states", states);
    rep.set("transitions", transitions);
    rep.set("traces_validated_against_impl", executions);
    rep.set("operations", ops.iter().map(|o| o.name()).collect::<Vec<_>>());
    rep.set("bounds", Value::Object(bounds));
    rep.set("ids", json!(IDS));
    rep.set("exhaustive", true);
    rep.set(
        "rule",
        format!("state = history; BFS over {} operations with de-duplication on (model map, last version per id, directory listing with sizes) to depth {depth}, plus every history without de-duplication to depth {plain_depth}; each history replayed on a fresh real store (fs: fresh /dev/shm directory); histories whose last step violates the oracle are reported once per (store, operation kind, failure class) with the minimal history and are not extended", ops.len()),
    );
    rep.assume("I/O errors and resource exhaustion are not modelled; concurrency between handles is out of scope (one live handle at a time; try_clone continues on the clone).");
    rep.require_nonzero("fs_histories_ending_in_failing_insert");
    rep.require_nonzero("mem_histories_ending_in_failing_insert");
    for p in FAIL_POS {
        rep.require_nonzero(&format!("failing_insert_at_position_{p}"));
    }
    rep.require_nonzero("fs_histories");
    rep.require_nonzero("mem_histories");
    rep.finish()
}

use mcx::serde_json;
