//! C46 — IDs round-trip through text and serde.
//!
//! Space (bounded, enumerated completely):
//! * ids: the zero id, all 32×255 single-non-zero-byte values, every leading-zero run 0..=31 ×
//!   fill byte {1,57,58,255} (rest all fill / fill then 0xff…), all-ff and all-ff-1, the values
//!   58^k-1, 58^k, 58^k+1 for k = 0..=43 (every base58 length change), 2^(64k)-1, 2^(64k), 2^(64k)+1;
//! * texts: all strings of ≤ 3 symbols over base58 ∪ {0,O,I,l,-,é}, and the 43/44/45-character
//!   boundary strings (largest/smallest of each length, max id ±1 as text, extra leading `1`s,
//!   a bad symbol at every position of a 43/44/45-character text).
//!
//! Oracle (the statement): `parse(display(x)) == x`; display is base58 text whose value (computed
//! by the independent reference decoder below) is `x`; serde_json (string and `Value`) and postcard
//! round trips; parsing any text does not panic and is `Err`, or an id equal to the value the text
//! encodes by the reference decoder (so its display is the canonical form of that value).

use std::collections::BTreeSet;

use aranya_id::{custom_id, BaseId};
use mcx::{json, serde_json, Args, Level, Report, Value};

custom_id! {
    /// A second tagged id type, so the generic impls are instantiated twice.
    pub struct ProbeId;
}

const ALPHA: &[u8; 58] = b"123456789ABCDEFGHJKLMNPQRSTUVWXYZabcdefghijkmnopqrstuvwxyz";

/// Reference decoder: plain positional base-58 number, big-endian into 32 bytes.
/// `None` = a symbol outside the alphabet or a value ≥ 2^256.
fn ref_decode(t: &[u8]) -> Option<[u8; 32]> {
    let mut num: Vec<u8> = Vec::new(); // little-endian base 256, no high zero bytes
    for &c in t {
        let d = ALPHA.iter().position(|&a| a == c)? as u32;
        let mut carry = d;
        for b in num.iter_mut() {
            let v = u32::from(*b) * 58 + carry;
            *b = v as u8;
            carry = v >> 8;
        }
        while carry > 0 {
            num.push(carry as u8);
            carry >>= 8;
        }
    }
    if num.len() > 32 {
        return None;
    }
    let mut out = [0u8; 32];
    for (i, b) in num.iter().enumerate() {
        out[31 - i] = *b;
    }
    Some(out)
}

/// Reference encoder: minimal base-58 digits of a 256-bit big-endian value ("" for zero).
fn ref_encode_minimal(v: &[u8; 32]) -> String {
    let mut n = v.to_vec();
    let mut digits = Vec::new();
    while n.iter().any(|&b| b != 0) {
        let mut rem = 0u32;
        for b in n.iter_mut() {
            let cur = (rem << 8) | u32::from(*b);
            *b = (cur / 58) as u8;
            rem = cur % 58;
        }
        digits.push(ALPHA[rem as usize]);
    }
    digits.reverse();
    String::from_utf8(digits).unwrap()
}

fn be_from_small(limbs_le: &[u8]) -> Option<[u8; 32]> {
    if limbs_le.len() > 32 {
        return None;
    }
    let mut out = [0u8; 32];
    for (i, b) in limbs_le.iter().enumerate() {
        out[31 - i] = *b;
    }
    Some(out)
}

fn add_small(v: &[u8; 32], d: i32) -> Option<[u8; 32]> {
    let mut out = *v;
    let mut carry = d;
    for b in out.iter_mut().rev() {
        let cur = i32::from(*b) + carry;
        *b = cur.rem_euclid(256) as u8;
        carry = cur.div_euclid(256);
        if carry == 0 {
            return Some(out);
        }
    }
    if carry == 0 {
        Some(out)
    } else {
        None
    }
}

fn id_space() -> Vec<[u8; 32]> {
    let mut ids: Vec<[u8; 32]> = vec![[0u8; 32], [0xff; 32]];
    for pos in 0..32 {
        for val in 1..=255u8 {
            let mut b = [0u8; 32];
            b[pos] = val;
            ids.push(b);
        }
    }
    for run in 0..32 {
        for fill in [1u8, 57, 58, 255] {
            let mut b = [0u8; 32];
            for x in b.iter_mut().skip(run) {
                *x = fill;
            }
            ids.push(b);
            let mut c = [0u8; 32];
            c[run] = fill;
            for x in c.iter_mut().skip(run + 1) {
                *x = 0xff;
            }
            ids.push(c);
        }
    }
    // 58^k ± 1
    let mut pow: Vec<u8> = vec![1]; // little-endian
    for _k in 0..=43 {
        if let Some(p) = be_from_small(&pow) {
            for d in [-1, 0, 1] {
                if let Some(v) = add_small(&p, d) {
                    ids.push(v);
                }
            }
        }
        let mut carry = 0u32;
        for b in pow.iter_mut() {
            let v = u32::from(*b) * 58 + carry;
            *b = v as u8;
            carry = v >> 8;
        }
        while carry > 0 {
            pow.push(carry as u8);
            carry >>= 8;
        }
    }
    // 2^(64k) ± 1 (word boundaries of the 4×u64 integer the implementation uses), 2^256-2
    for k in 1..4 {
        let mut p = [0u8; 32];
        p[31 - 8 * k] = 1;
        for d in [-1, 0, 1] {
            ids.push(add_small(&p, d).unwrap());
        }
    }
    ids.push(add_small(&[0xff; 32], -1).unwrap());
    ids
}

fn symbols() -> Vec<String> {
    let mut v: Vec<String> = ALPHA.iter().map(|&c| (c as char).to_string()).collect();
    for s in ["0", "O", "I", "l", "-", "é"] {
        v.push(s.to_string());
    }
    v
}

/// All strings of 1..=max_syms symbols that start with symbol `first`, depth first.
fn short_texts_from(syms: &[String], first: usize, max_syms: usize, f: &mut dyn FnMut(&str)) {
    fn rec(syms: &[String], cur: &mut String, left: usize, f: &mut dyn FnMut(&str)) {
        f(cur);
        if left == 0 {
            return;
        }
        for s in syms {
            let n = cur.len();
            cur.push_str(s);
            rec(syms, cur, left - 1, f);
            cur.truncate(n);
        }
    }
    let mut cur = syms[first].clone();
    rec(syms, &mut cur, max_syms - 1, f);
}

fn boundary_texts() -> Vec<String> {
    let mut texts = vec![String::new()];
    // boundary strings: 43/44/45 characters
    let max = format!("{}", ref_pad44(&[0xff; 32]));
    let mut b: Vec<String> = Vec::new();
    for n in [43usize, 44, 45, 46, 100] {
        b.push("1".repeat(n));
        b.push("z".repeat(n));
        b.push(format!("{}2", "1".repeat(n - 1)));
        b.push(format!("2{}", "1".repeat(n - 1)));
        b.push(format!("{}z", "1".repeat(n - 1)));
    }
    b.push(max.clone());
    // successor of the maximum as text (overflows by one)
    {
        let mut digits: Vec<usize> = max.bytes().map(|c| ALPHA.iter().position(|&a| a == c).unwrap()).collect();
        let mut i = digits.len();
        loop {
            i -= 1;
            if digits[i] < 57 {
                digits[i] += 1;
                break;
            }
            digits[i] = 0;
        }
        b.push(digits.iter().map(|&d| ALPHA[d] as char).collect());
    }
    b.push(format!("1{max}")); // 45 characters, value = max
    b.push(format!("11{max}"));
    b.push(format!("{max}1")); // 45 characters, overflows
    b.push(max[1..].to_string()); // 43 characters
    b.push(max[..43].to_string());
    // a bad symbol at every position of 43/44/45-character texts
    for n in [43usize, 44, 45] {
        for pos in 0..n {
            for bad in ["0", "l", "é", "\u{0}"] {
                let mut s = String::new();
                for i in 0..n {
                    s.push_str(if i == pos { bad } else { "2" });
                }
                b.push(s);
            }
        }
    }
    texts.extend(b);
    texts
}

fn ref_pad44(v: &[u8; 32]) -> String {
    let m = ref_encode_minimal(v);
    format!("{}{}", "1".repeat(44usize.saturating_sub(m.len())), m)
}

struct Ctx {
    distinct: BTreeSet<Vec<u8>>,
    /// failures grouped by (path, broken clause); only the minimal input of a group is reported
    bad: crate::util::MinCases,
}

fn check_id(rep: &mut Report, cx: &mut Ctx, bytes: [u8; 32]) {
    rep.count("evaluations", 1);
    rep.count("ids", 1);
    let mut k = vec![0u8];
    k.extend_from_slice(&bytes);
    cx.distinct.insert(k);
    let hexs = mcx::hex(&bytes);
    let replay = json!({"kind": "id", "bytes": hexs});
    let r = mcx::catch(|| id_roundtrips::<ProbeId>(&bytes).and_then(|()| id_roundtrips::<BaseId>(&bytes)));
    match r {
        Err(p) => cx.bad.offer("id: panic", &bytes, || format!("id {hexs}"), || format!("panic: {p}"), || replay.clone()),
        Ok(Err((what, detail))) => cx.bad.offer(&format!("id: {what}"), &bytes, || format!("id {hexs}"), || detail, || replay.clone()),
        Ok(Ok(())) => rep.outcome("id_roundtrips", 1),
    }
}

trait IdLike: Sized + PartialEq + core::fmt::Display + core::str::FromStr + serde::Serialize + serde::de::DeserializeOwned {
    fn from32(b: [u8; 32]) -> Self;
    fn bytes(&self) -> [u8; 32];
}
impl<T: aranya_id::IdTag> IdLike for aranya_id::Id<T> {
    fn from32(b: [u8; 32]) -> Self {
        Self::from_bytes(b)
    }
    fn bytes(&self) -> [u8; 32] {
        *self.as_array()
    }
}

fn id_roundtrips<I: IdLike>(bytes: &[u8; 32]) -> Result<(), (&'static str, String)> {
    let id = I::from32(*bytes);
    let text = id.to_string();
    // display is base58 text encoding exactly this value
    match ref_decode(text.as_bytes()) {
        Some(v) if v == *bytes => {}
        other => return Err(("display is not base58 text of the id", format!("display={text:?} reference value={:?}", other.map(|v| mcx::hex(&v))))),
    }
    if text.trim_start_matches('1') != ref_encode_minimal(bytes) {
        return Err(("display digits are not canonical", format!("display={text:?} reference digits={:?}", ref_encode_minimal(bytes))));
    }
    match text.parse::<I>() {
        Ok(back) if back == id => {}
        Ok(back) => return Err(("parse(display(x)) != x", format!("display={text:?} parsed back to {}", mcx::hex(&back.bytes())))),
        Err(_) => return Err(("parse(display(x)) fails", format!("display={text:?}"))),
    }
    // human-readable serde
    let js = serde_json::to_string(&id).map_err(|e| ("serde_json serialize fails", e.to_string()))?;
    match serde_json::from_str::<I>(&js) {
        Ok(back) if back == id => {}
        Ok(back) => return Err(("serde_json round trip changes the id", format!("json={js} back={}", mcx::hex(&back.bytes())))),
        Err(e) => return Err(("serde_json round trip fails", format!("json={js}: {e}"))),
    }
    let jv = serde_json::to_value(&id).map_err(|e| ("serde_json::Value serialize fails", e.to_string()))?;
    match serde_json::from_value::<I>(jv.clone()) {
        Ok(back) if back == id => {}
        Ok(back) => return Err(("serde_json::Value round trip changes the id", format!("value={jv} back={}", mcx::hex(&back.bytes())))),
        Err(e) => return Err(("serde_json::Value round trip fails", format!("value={jv}: {e}"))),
    }
    // binary serde
    let pc = postcard::to_allocvec(&id).map_err(|e| ("postcard serialize fails", e.to_string()))?;
    match postcard::from_bytes::<I>(&pc) {
        Ok(back) if back == id => {}
        Ok(back) => return Err(("postcard round trip changes the id", format!("bytes={} back={}", mcx::hex(&pc), mcx::hex(&back.bytes())))),
        Err(e) => return Err(("postcard round trip fails", format!("bytes={}: {e}", mcx::hex(&pc)))),
    }
    Ok(())
}

fn check_text(rep: &mut Report, cx: &mut Ctx, text: &str) {
    rep.count("evaluations", 1);
    rep.count("texts", 1);
    let reference = ref_decode(text.as_bytes());
    let in_alphabet = text.bytes().all(|c| ALPHA.contains(&c));
    if in_alphabet {
        let mut k = vec![1u8];
        k.extend_from_slice(text.as_bytes());
        cx.distinct.insert(k);
    }
    let replay = json!({"kind": "text", "text": text});
    let shown = if text.len() > 50 { format!("{}…({} bytes)", &text[..text.char_indices().nth(45).map(|(i, _)| i).unwrap_or(text.len())], text.len()) } else { text.to_string() };
    // FromStr, Id::decode, serde_json string, serde_json::Value
    let js = serde_json::to_string(text).unwrap();
    let results: Vec<(&str, Result<Option<[u8; 32]>, String>)> = vec![
        ("from_str", mcx::catch(|| text.parse::<BaseId>().ok().map(|i| *i.as_array()))),
        ("decode", mcx::catch(|| BaseId::decode(text.as_bytes()).ok().map(|i| *i.as_array()))),
        ("serde_json", mcx::catch(|| serde_json::from_str::<BaseId>(&js).ok().map(|i| *i.as_array()))),
        ("serde_json_value", mcx::catch(|| serde_json::from_value::<BaseId>(Value::String(text.to_string())).ok().map(|i| *i.as_array()))),
    ];
    for (path, r) in results {
        match r {
            Err(p) => cx.bad.offer(&format!("text via {path}: panic"), text.as_bytes(), || format!("text {shown:?}"), || format!("panic: {p}"), || replay.clone()),
            Ok(None) => {
                rep.outcome(if reference.is_some() { "text_valid_rejected" } else { "text_invalid_rejected" }, 1);
            }
            Ok(Some(got)) => {
                rep.count("texts_parsed_ok", 1);
                match reference {
                    Some(v) if v == got => {
                        rep.outcome("text_parsed_to_its_value", 1);
                        // display of the result is the canonical form of the text's value and parses back
                        let id = BaseId::from_bytes(got);
                        let d = id.to_string();
                        if d.trim_start_matches('1') != ref_encode_minimal(&v) || d.parse::<BaseId>().ok() != Some(id) {
                            cx.bad.offer(&format!("text via {path}: display of result not canonical"), text.as_bytes(), || format!("text {shown:?}"), || format!("display={d:?}"), || replay.clone());
                        }
                    }
                    Some(v) => cx.bad.offer(
                        &format!("text via {path}: wrong id"),
                        text.as_bytes(),
                        || format!("text {shown:?}"),
                        || format!("parsed to {} but the text encodes {}", mcx::hex(&got), mcx::hex(&v)),
                        || replay.clone(),
                    ),
                    None => cx.bad.offer(
                        &format!("text via {path}: accepted text that encodes no id"),
                        text.as_bytes(),
                        || format!("text {shown:?}"),
                        || format!("parsed to {} but the text has a symbol outside base58 or a value ≥ 2^256", mcx::hex(&got)),
                        || replay.clone(),
                    ),
                }
            }
        }
    }
}

pub fn run(args: &Args) {
    let mut rep = Report::new(args, Level::Exploration);
    mcx::quiet_panics();
    let mut cx = Ctx { distinct: BTreeSet::new(), bad: Default::default() };
    if let Some(r) = crate::util::load_replay(args) {
        match r.get("kind").and_then(|k| k.as_str()) {
            Some("id") => {
                let b = crate::util::unhex(r["bytes"].as_str().unwrap_or(""));
                let b: [u8; 32] = b.try_into().unwrap_or_else(|_| mcx::machinery_error("replay id is not 32 bytes"));
                check_id(&mut rep, &mut cx, b);
            }
            Some("text") => check_text(&mut rep, &mut cx, r["text"].as_str().unwrap_or("")),
            _ => mcx::machinery_error("C46 replay: unknown kind"),
        }
        std::mem::take(&mut cx.bad).flush(&mut rep);
        rep.set("distinct_nontrivial", cx.distinct.len() as u64);
        rep.set("rule", "replay of one recorded case");
        rep.set("exhaustive", false);
        rep.sample(r);
        rep.finish();
    }
    // self-test of the reference codec (machinery, not verdict)
    {
        let mut one = [0u8; 32];
        one[31] = 57;
        if ref_decode(b"z") != Some(one) || ref_encode_minimal(&one) != "z" || ref_decode(b"0").is_some() || ref_decode("z".repeat(44).as_bytes()).is_some() {
            mcx::machinery_error("C46 reference base58 codec self-test failed");
        }
    }
    let max_syms: usize = args.tier.pick(3, 4);
    rep.set_max_samples(8);
    let ids = id_space();
    let id_set: BTreeSet<[u8; 32]> = ids.iter().copied().collect();
    for (i, b) in id_set.iter().enumerate() {
        check_id(&mut rep, &mut cx, *b);
        if i % 2500 == 7 {
            rep.sample(json!({"kind": "id", "bytes": mcx::hex(b), "display": BaseId::from_bytes(*b).to_string()}));
        }
    }
    // texts: one chunk per first symbol (chunks are disjoint), plus the boundary chunk (which holds
    // "" and strings of ≥ 43 characters, disjoint from the short ones).
    let syms = symbols();
    let boundary = boundary_texts();
    let boundary_set: BTreeSet<&str> = boundary.iter().map(|s| s.as_str()).collect();
    use mcx::rayon::prelude::*;
    let chunks: Vec<(Report, usize, u64, crate::util::MinCases)> = (0..=syms.len())
        .into_par_iter()
        .map(|ci| {
            mcx::quiet_panics();
            let mut w = rep.worker();
            let mut wcx = Ctx { distinct: BTreeSet::new(), bad: Default::default() };
            let mut n = 0u64;
            if ci == syms.len() {
                for t in &boundary_set {
                    check_text(&mut w, &mut wcx, t);
                    n += 1;
                }
                if let Some(t) = boundary_set.iter().nth(40) {
                    w.sample(json!({"kind": "text", "text": t, "parsed": t.parse::<BaseId>().ok().map(|i| mcx::hex(i.as_bytes()))}));
                }
            } else {
                short_texts_from(&syms, ci, max_syms, &mut |t| {
                    check_text(&mut w, &mut wcx, t);
                    n += 1;
                    if ci % 23 == 5 && n == 130 {
                        w.sample(json!({"kind": "text", "text": t, "parsed": t.parse::<BaseId>().ok().map(|i| mcx::hex(i.as_bytes()))}));
                    }
                });
            }
            (w, wcx.distinct.len(), n, wcx.bad)
        })
        .collect();
    let mut distinct_texts_nontrivial = 0u64;
    let mut n_texts = 0u64;
    for (w, d, n, b) in chunks {
        cx.bad.merge(b);
        rep.absorb(w);
        distinct_texts_nontrivial += d as u64;
        n_texts += n;
    }
    std::mem::take(&mut cx.bad).flush(&mut rep);
    rep.set("distinct_ids", id_set.len() as u64);
    rep.set("distinct_texts", n_texts);
    rep.set("max_symbols", max_syms as u64);
    rep.set("distinct_nontrivial", cx.distinct.len() as u64 + distinct_texts_nontrivial);
    rep.set(
        "rule",
        format!("ids: zero, all 32×255 single-non-zero-byte values, leading-zero runs 0..=31 × fill {{1,57,58,255}} (two shapes), all-ff, all-ff-1, 58^k-1/58^k/58^k+1 for k=0..=43, 2^(64k)-1/+0/+1; each through Display→FromStr, serde_json (string and Value) and postcard for two tagged id types. texts: every string of ≤{max_syms} symbols over base58 ∪ {{0,O,I,l,-,é}} plus 43/44/45/46/100-character boundary strings, each through FromStr, Id::decode, serde_json (string and Value), compared with an independent base-58 decoder. Non-trivial = distinct ids, plus distinct texts whose symbols are all in the base58 alphabet (they pass the alphabet check and reach the big-number arithmetic); counted with a set per disjoint chunk (chunk = first symbol)."),
    );
    rep.set("exhaustive", true);
    rep.require_nonzero("ids");
    rep.require_nonzero("texts");
    rep.require_nonzero("texts_parsed_ok");
    rep.finish()
}
