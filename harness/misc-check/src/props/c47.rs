//! C47 — C string output never overflows its buffer.
//!
//! Space: every text of ≤ L bytes over {"a", "é"} (2-byte char), split into ≤ 3 fragments in
//! every way (empty fragments included; a `Display` impl that calls `write_str` once per
//! fragment), × every buffer size 0..=len+2, buffer embedded between guard bytes.
//! Oracle (the statement): guards intact; `Ok` ⇒ text + NUL written and "its length" reported;
//! `Err` ⇒ `n == len + 1` (exactly the size needed). Exactly one of the two happens, decided by
//! `size >= len + 1`.
//!
//! What "its length" means on success: the statement does not say whether the NUL is counted. The
//! doc comment of `write_c_str` says "the number of bytes written, less the null terminator"
//! (= len); the code and the crate's own unit test report len + 1 (text + NUL). Both readings
//! satisfy the statement, so the check accepts either — but the same one for every input (a length
//! that is sometimes with and sometimes without the NUL is not "its length"). The convention seen is
//! written to the evidence (`ok_n_convention`).

use core::{ffi::c_char, fmt, mem::MaybeUninit};

use aranya_capi_core::{write_c_str, WriteCStrError};
use mcx::{json, Args, Level, Report};

/// How a fragment reaches the writer: 0 = one `write_str`; 1 = one `write_char` per character;
/// 2 = formatted with width/fill (`{:*>w$}`, w = chars + 2: the fill arrives through `write_char`);
/// 3 = through `format_args!("{}{}", first char, rest)`.
struct Frags<'a>(&'a [&'a str], &'a [u8]);
impl fmt::Display for Frags<'_> {
    fn fmt(&self, f: &mut fmt::Formatter<'_>) -> fmt::Result {
        use fmt::Write as _;
        for (i, s) in self.0.iter().enumerate() {
            match self.1.get(i).copied().unwrap_or(0) {
                1 => {
                    for c in s.chars() {
                        f.write_char(c)?;
                    }
                }
                2 => {
                    let w = s.chars().count() + 2;
                    write!(f, "{:*>w$}", s, w = w)?;
                }
                3 => {
                    let mut it = s.chars();
                    match it.next() {
                        Some(c) => write!(f, "{}{}", c, it.as_str())?,
                        None => write!(f, "{}", "")?,
                    }
                }
                _ => f.write_str(s)?,
            }
        }
        Ok(())
    }
}

const GUARD: usize = 8;
const FILL: u8 = 0xA5;
const GFILL: u8 = 0x5A;

pub fn run(args: &Args) {
    let mut rep = Report::new(args, Level::Exploration);
    let max_chars = args.tier.pick(6, 9);
    let max_frags = args.tier.pick(3, 4);
    let mode_chars = args.tier.pick(4, 6);
    let mut texts: Vec<String> = vec![String::new()];
    let mut frontier = vec![String::new()];
    for _ in 0..max_chars {
        let mut next = Vec::new();
        for t in &frontier {
            for c in ["a", "é"] {
                let mut s = t.clone();
                s.push_str(c);
                next.push(s);
            }
        }
        texts.extend(next.iter().cloned());
        frontier = next;
    }
    let mut distinct = std::collections::BTreeSet::new();
    if let Some(r) = crate::util::load_replay(args) {
        let text = r["text"].as_str().unwrap_or_else(|| mcx::machinery_error("C47 replay: no text")).to_string();
        let frs: Vec<String> = r["fragments"].as_array().map(|a| a.iter().map(|f| f.as_str().unwrap_or("").to_string()).collect()).unwrap_or_default();
        let frs: Vec<&str> = frs.iter().map(|s| s.as_str()).collect();
        let size = r["size"].as_u64().unwrap_or(0) as usize;
        one(&mut rep, &text, &frs, size, &mut distinct);
        rep.set("distinct_nontrivial", distinct.len() as u64);
        rep.set("rule", "replay of one recorded case");
        rep.set("exhaustive", false);
        rep.sample(r);
        rep.finish();
    }
    for text in &texts {
        let chars: Vec<usize> = text.char_indices().map(|(i, _)| i).chain([text.len()]).collect();
        // all ways to choose (max_frags-1) non-decreasing cut points among char boundaries
        for nfr in 1..=max_frags {
            let mut cuts = vec![0usize; nfr - 1];
            loop {
                let mut frs: Vec<&str> = Vec::new();
                let mut prev = 0;
                for &c in &cuts {
                    frs.push(&text[chars[prev]..chars[c]]);
                    prev = c;
                }
                frs.push(&text[chars[prev]..]);
                for size in 0..=text.len() + 2 {
                    one(&mut rep, text, &frs, size, &mut distinct);
                }
                if text.chars().count() <= mode_chars {
                    // every way the fragments can reach the writer (write_str / write_char / padded / format_args)
                    mcx::enumerate::sequences(4, frs.len(), |ms| {
                        if ms.iter().all(|&m| m == 0) {
                            return;
                        }
                        let modes: Vec<u8> = ms.iter().map(|&m| m as u8).collect();
                        let rendered_len = Frags(&frs, &modes).to_string().len();
                        for size in 0..=rendered_len + 2 {
                            one_modes(&mut rep, text, &frs, &modes, size, &mut distinct);
                            rep.count("mode_cases", 1);
                        }
                    });
                }
                // next non-decreasing cut vector
                let mut i = cuts.len();
                loop {
                    if i == 0 {
                        break;
                    }
                    i -= 1;
                    if cuts[i] + 1 < chars.len() {
                        cuts[i] += 1;
                        let v = cuts[i];
                        for c in cuts.iter_mut().skip(i + 1) {
                            *c = v;
                        }
                        i = usize::MAX;
                        break;
                    }
                }
                if i != usize::MAX {
                    break;
                }
            }
        }
    }
    rep.set("distinct_nontrivial", distinct.len() as u64);
    rep.set(
        "rule",
        format!("texts of ≤{max_chars} chars over {{a,é}} × all splits into ≤{max_frags} fragments (empty allowed) × buffer sizes 0..=len+2 between {GUARD}-byte guards; non-trivial = distinct (text,size) with at least one byte of text"),
    );
    rep.set("exhaustive", true);
    let ev = rep.counter("evaluations");
    let _ = ev;
    let (a, b) = (rep.counter("ok_n_is_len"), rep.counter("ok_n_is_len_plus_nul"));
    if a > 0 && b > 0 {
        rep.violation(
            "Ok reports its length inconsistently",
            format!("on success n == len for {a} cases and n == len + 1 for {b} cases"),
            json!({"ok_n_is_len": a, "ok_n_is_len_plus_nul": b}),
        );
    }
    rep.set("ok_n_convention", if b > 0 { "len + 1 (text and NUL)" } else { "len (text without NUL)" });
    rep.require_nonzero("ok_results");
    rep.require_nonzero("too_small_results");
    rep.finish()
}

fn one(rep: &mut Report, text: &str, frs: &[&str], size: usize, distinct: &mut std::collections::BTreeSet<(String, usize)>) {
    one_modes(rep, text, frs, &[], size, distinct)
}

fn one_modes(rep: &mut Report, text0: &str, frs: &[&str], modes: &[u8], size: usize, distinct: &mut std::collections::BTreeSet<(String, usize)>) {
    // the reference text is what the same Display produces into a String (an independent writer)
    let rendered = Frags(frs, modes).to_string();
    let text: &str = if modes.is_empty() { text0 } else { &rendered };
    rep.count("evaluations", 1);
    if !text.is_empty() {
        distinct.insert((text.to_string(), size));
    }
    let mut mem = vec![GFILL; GUARD + size + GUARD];
    for b in &mut mem[GUARD..GUARD + size] {
        *b = FILL;
    }
    let mut n = usize::MAX;
    let res = {
        let buf = &mut mem[GUARD..GUARD + size];
        // SAFETY: u8 and MaybeUninit<c_char> have the same layout.
        let dst = unsafe { &mut *(buf as *mut [u8] as *mut [MaybeUninit<c_char>]) };
        mcx::catch(|| write_c_str(dst, &Frags(frs, modes), &mut n))
    };
    let key = || format!("text={text:?} frags={frs:?} modes={modes:?} size={size}");
    let replay = || json!({"text": text0, "fragments": frs, "modes": modes, "size": size});
    let guards_ok = mem[..GUARD].iter().all(|&b| b == GFILL) && mem[GUARD + size..].iter().all(|&b| b == GFILL);
    if !guards_ok {
        rep.violation(key(), "guard bytes around the buffer were modified", replay());
        return;
    }
    let need = text.len() + 1;
    match &res {
        Err(p) => rep.violation(key(), format!("panic: {p}"), replay()),
        Ok(Ok(())) => {
            rep.count("ok_results", 1);
            rep.outcome("ok", 1);
            let buf = &mem[GUARD..GUARD + size];
            if size < need {
                rep.violation(key(), format!("Ok with buffer {size} < needed {need}"), replay());
            } else if &buf[..text.len()] != text.as_bytes() || buf[text.len()] != 0 {
                rep.violation(key(), format!("Ok but buffer holds {:?}", &buf[..need]), replay());
            } else if n != text.len() && n != need {
                rep.violation(key(), format!("Ok but reported n={n}, expected {} (text) or {need} (text + NUL)", text.len()), replay());
            } else if buf[need..].iter().any(|&b| b != FILL) {
                rep.violation(key(), "bytes after the NUL were modified".to_string(), replay());
            }
        }
        Ok(Err(WriteCStrError::BufferTooSmall)) => {
            rep.count("too_small_results", 1);
            rep.outcome("too_small", 1);
            if size >= need {
                rep.violation(key(), format!("BufferTooSmall with buffer {size} >= needed {need}"), replay());
            } else if n != need {
                rep.violation(key(), format!("BufferTooSmall reported n={n}, expected exactly {need}"), replay());
            }
        }
        Ok(Err(e)) => {
            rep.outcome("other_err", 1);
            rep.violation(key(), format!("unexpected error {e:?}"), replay())
        }
    }
    if let Ok(Ok(())) = res {
        if n == text.len() {
            rep.count("ok_n_is_len", 1);
        } else if n == need {
            rep.count("ok_n_is_len_plus_nul", 1);
        }
    }
    if size == text.len() && frs.len() == 2 {
        rep.sample(replay());
    }
}
