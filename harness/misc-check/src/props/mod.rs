pub mod c47;
