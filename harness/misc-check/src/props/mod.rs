pub mod c32;
pub mod c39;
pub mod c45;
pub mod c46;
pub mod c47;
