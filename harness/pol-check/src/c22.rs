//! C22 — compiled policy code computes the language semantics.
//! Also hosts the shared corpus / batch runner used by C24 and C28.

use std::collections::{BTreeMap, BTreeSet};

use aranya_policy_vm::{Machine, Value};
use mcx::{json, rayon::prelude::*, Args, Level, Report, Tier};

use crate::{
    gen::{self, Gen},
    lang::*,
    vmrun::{self, Ffi, Outcome, RecIo},
};

pub struct Program {
    pub def: FnDef,
    /// text with the function named `f` (stable key)
    pub key: String,
    pub family: &'static str,
}

fn mk(def_body: Vec<Stmt>, ret: Ty, family: &'static str) -> Program {
    let mut def = FnDef {
        name: "f".into(),
        params: PARAMS.iter().map(|(n, t)| (n.to_string(), *t)).collect(),
        ret,
        body: def_body,
    };
    let key = print_fn(&def);
    def.name = String::new();
    Program { def, key, family }
}

/// The deterministic program corpus of a tier, streamed to `sink` (duplicates by text removed).
pub fn for_each_program(tier: Tier, sink: &mut dyn FnMut(Program)) {
    let g = Gen::new();
    let mut seen: std::collections::HashSet<u64> = std::collections::HashSet::new();
    let mut push = |p: Program| {
        if seen.insert(mcx::fnv64(p.key.as_bytes())) {
            sink(p);
        }
    };
    // leaves
    for t in Ty::ALL {
        for l in gen::rich_leaves(t) {
            push(mk(gen::ret_body(l), t, "leaf"));
        }
    }
    for (t, e) in g.full1() {
        push(mk(gen::ret_body(e), t, "full1"));
    }
    let d1 = g.depth1_small();
    let s2 = g.spine(&d1);
    for (t, es) in &s2 {
        for e in es {
            push(mk(gen::ret_body(e.clone()), *t, "spine2"));
        }
    }
    for (t, e) in g.square2() {
        push(mk(gen::ret_body(e), t, "square2"));
    }
    for (t, e) in g.never_family() {
        push(mk(gen::ret_body(e), t, "never"));
    }
    for (t, e) in g.never_nested() {
        push(mk(gen::ret_body(e), t, "never_nested"));
    }
    // statement templates: holes over leaves + depth-1
    let mut pool = d1.clone();
    for t in Ty::ALL {
        let mut l = gen::rich_leaves(t);
        l.extend(pool.remove(&t).unwrap_or_default());
        pool.insert(t, l);
    }
    for (t, body) in g.statement_bodies(&pool) {
        push(mk(body, t, "stmt1"));
    }
    for (t, body) in g.cond_bodies() {
        push(mk(body, t, "cond2"));
    }
    for (t, body) in g.negated_short_circuit_bodies() {
        push(mk(body, t, "negated_short_circuit"));
    }
    if tier == Tier::Thorough {
        // depth 3: every operator, every position, around every spine-2 expression
        g.spine_stream(&s2, true, &mut |t, e| push(mk(gen::ret_body(e), t, "spine3")));
        // statement templates whose holes run over every depth-2 expression
        g.statement_bodies_stream(&s2, true, &mut |t, body| push(mk(body, t, "stmt2")));
    }
}

pub fn corpus(tier: Tier) -> Vec<Program> {
    let mut v = Vec::new();
    for_each_program(tier, &mut |p| v.push(p));
    v
}

fn s_val(a: i64, b: bool) -> Val {
    Val::strukt("S", &[("a", Val::Int(a)), ("b", Val::Bool(b))])
}
fn t_val(a: i64, b: bool, c: &str) -> Val {
    Val::strukt("T", &[("a", Val::Int(a)), ("b", Val::Bool(b)), ("c", Val::Str(c.into()))])
}

/// Boundary argument tuples (order = `PARAMS`).
pub fn arg_tuples(tier: Tier) -> Vec<Vec<Val>> {
    const MAX: i64 = i64::MAX;
    const MIN: i64 = i64::MIN;
    let some = Val::some;
    let ok = |v: Val| Val::Res(Ok(Box::new(v)));
    let err = |v: Val| Val::Res(Err(Box::new(v)));
    let tup = |x: i64, y: i64, b: bool, c: bool, s: &str, i: u8, j: u8, e: u8, st: Val, tt: Val, oi: Val, ob: Val, os: Val, r: Val| {
        vec![
            Val::Int(x),
            Val::Int(y),
            Val::Bool(b),
            Val::Bool(c),
            Val::Str(s.into()),
            Val::Id(i),
            Val::Id(j),
            Val::Enum(e),
            st,
            tt,
            oi,
            ob,
            os,
            r,
        ]
    };
    let mut v = vec![
        tup(0, 0, true, true, "", 0, 0, 0, s_val(0, true), t_val(0, true, ""), Val::none(), Val::none(), Val::none(), ok(Val::Int(0))),
        tup(1, -1, false, true, "a", 0, 1, 1, s_val(1, false), t_val(1, false, "a"), some(Val::Int(1)), some(Val::Bool(true)), some(s_val(1, false)), err(Val::Bool(true))),
        tup(MAX, 1, true, false, "a", 1, 0, 2, s_val(MAX, true), t_val(-1, true, "a"), some(Val::Int(MAX)), some(Val::Bool(false)), some(s_val(0, true)), ok(Val::Int(MAX))),
        tup(MIN, -1, false, false, "", 1, 1, 0, s_val(MIN, false), t_val(MIN, false, ""), some(Val::Int(MIN)), Val::none(), Val::none(), err(Val::Bool(false))),
        tup(-1, MIN, true, true, "b", 0, 1, 1, s_val(-1, true), t_val(1, true, "b"), some(Val::Int(0)), some(Val::Bool(true)), some(s_val(-1, true)), ok(Val::Int(-1))),
        tup(MAX, MAX, false, true, "a", 0, 0, 2, s_val(1, true), t_val(MAX, false, "a"), some(Val::Int(-1)), some(Val::Bool(false)), some(s_val(MAX, false)), ok(Val::Int(1))),
        tup(MIN, MIN, true, false, "", 1, 0, 0, s_val(0, false), t_val(0, false, "a"), Val::none(), some(Val::Bool(true)), some(s_val(1, false)), err(Val::Bool(true))),
        tup(MIN + 1, MAX, false, false, "ab", 0, 1, 1, s_val(MIN + 1, true), t_val(MIN + 1, true, "ab"), some(Val::Int(MIN + 1)), Val::none(), some(s_val(MIN, true)), ok(Val::Int(MIN))),
        tup(0, MIN, true, true, "a", 1, 1, 2, s_val(1, false), t_val(1, false, ""), some(Val::Int(1)), some(Val::Bool(false)), Val::none(), ok(Val::Int(0))),
    ];
    if tier == Tier::Thorough {
        v.extend([
            tup(1, 1, true, false, "", 0, 0, 0, s_val(1, true), t_val(1, true, ""), some(Val::Int(1)), some(Val::Bool(true)), some(s_val(1, true)), ok(Val::Int(1))),
            tup(-1, -1, false, true, "a", 1, 0, 1, s_val(-1, false), t_val(-1, false, "a"), some(Val::Int(-1)), Val::none(), some(s_val(1, false)), err(Val::Bool(false))),
            tup(MAX, -1, true, true, "a", 0, 1, 2, s_val(0, true), t_val(0, true, "a"), Val::none(), some(Val::Bool(false)), Val::none(), ok(Val::Int(-1))),
            tup(-1, MAX, false, false, "", 1, 1, 0, s_val(1, false), t_val(MAX, true, "a"), some(Val::Int(MAX)), some(Val::Bool(true)), some(s_val(0, false)), ok(Val::Int(MAX))),
            tup(MAX, MIN, true, false, "ab", 0, 0, 1, s_val(MAX, false), t_val(MIN, true, "b"), some(Val::Int(MIN)), Val::none(), some(s_val(MAX, true)), err(Val::Bool(true))),
            tup(MIN, MAX, false, true, "b", 1, 0, 2, s_val(MIN, true), t_val(MAX, false, ""), some(Val::Int(0)), some(Val::Bool(false)), some(s_val(MIN, false)), ok(Val::Int(MIN + 1))),
            tup(MIN, 1, true, true, "a", 0, 1, 0, s_val(-1, true), t_val(-1, false, "a"), some(Val::Int(1)), some(Val::Bool(true)), Val::none(), ok(Val::Int(0))),
            tup(MAX - 1, 1, false, false, "", 1, 1, 1, s_val(MAX - 1, false), t_val(MAX - 1, true, ""), some(Val::Int(MAX - 1)), Val::none(), some(s_val(1, false)), err(Val::Bool(false))),
            tup(0, 1, false, true, "a", 0, 0, 2, s_val(0, false), t_val(0, false, "a"), some(Val::Int(0)), some(Val::Bool(false)), some(s_val(0, false)), ok(Val::Int(1))),
        ]);
    }
    v
}

pub const BATCH: usize = 200;

pub fn batch_text(progs: &[&Program], base: usize, with_probe: bool) -> String {
    let mut s = String::with_capacity(progs.len() * 160 + 1024);
    if with_probe {
        s.push_str("use probe\n");
    }
    s.push_str(PRELUDE);
    s.push_str(gen::HELPERS);
    for (k, p) in progs.iter().enumerate() {
        let mut d = p.def.clone();
        d.name = format!("f{}", base + k);
        s.push_str(&print_fn(&d));
        s.push('\n');
    }
    s
}

pub fn fn_table(progs: &[&Program], base: usize) -> BTreeMap<String, Callable> {
    let mut fns: BTreeMap<String, Callable> = BTreeMap::new();
    for h in gen::helper_defs() {
        fns.insert(h.name.clone(), Callable::Pure(h));
    }
    for (k, p) in progs.iter().enumerate() {
        let mut d = p.def.clone();
        d.name = format!("f{}", base + k);
        fns.insert(d.name.clone(), Callable::Pure(d));
    }
    fns
}

pub fn globals() -> BTreeMap<String, Val> {
    [("g".to_string(), Val::Int(7))].into_iter().collect()
}

#[derive(Clone, Copy, PartialEq, Eq)]
pub enum Mode {
    /// compare value / panic with the reference interpreter (C22)
    Semantics,
    /// only classify the way the run ended (C24)
    GoesWrong,
}

/// Kinds of `MachineError` that C24's statement forbids for compiler-accepted code.
pub fn internal_kind(kind: &str) -> bool {
    matches!(
        kind,
        "InvalidType"
            | "UnresolvedTarget"
            | "InvalidAddress"
            | "StackUnderflow"
            | "NotDefined"
            | "AlreadyDefined"
            | "InvalidStructMember"
            | "InvalidSchema"
            | "BadState"
            | "CallStack"
            | "InvalidInstruction"
            | "Bug"
    )
}

/// Compile a batch; if the front end rejects it, fall back to per-function compilation so that the
/// rejected programs are identified (and counted) and the others still run.
pub fn compile_batch<'p>(
    rep: &mut Report,
    progs: &[&'p Program],
    base: usize,
    ffi: Ffi,
) -> Vec<(Vec<&'p Program>, usize, Machine, String)> {
    let text = batch_text(progs, base, ffi == Ffi::Probe);
    match vmrun::compile_text(&text, ffi) {
        Ok(m) => {
            rep.count("documents_compiled", 1);
            let machine = Machine::from_module(m).unwrap_or_else(|_| mcx::machinery_error("module version"));
            vec![(progs.to_vec(), base, machine, text)]
        }
        Err(_) if progs.len() > 1 => {
            let mid = progs.len() / 2;
            let mut v = compile_batch(rep, &progs[..mid], base, ffi);
            v.extend(compile_batch(rep, &progs[mid..], base + mid, ffi));
            v
        }
        Err(e) => {
            rep.count("rejected_by_front_end", 1);
            rep.outcome("front_end_rejected", 1);
            if std::env::var_os("POL_DEBUG").is_some() {
                eprintln!("REJECTED {} :: {}", e, progs[0].key.split(") ").skip(1).collect::<Vec<_>>().join(") "));
            }
            rep.sample(json!({"rejected_by_front_end": progs[0].key, "message": e}));
            vec![]
        }
    }
}

pub fn run_batch(rep: &mut Report, progs: &[&Program], base: usize, tuples: &[Vec<Val>], vm_tuples: &[Vec<Value>], mode: Mode) {
    let globals = globals();
    let recalls = BTreeMap::new();
    for (progs, base, machine, _text) in compile_batch(rep, progs, base, Ffi::None) {
        let fns = fn_table(&progs, base);
        for (k, p) in progs.iter().enumerate() {
            rep.count("programs", 1);
            rep.count(&format!("programs_{}", p.family), 1);
            let name = format!("f{}", base + k);
            for (ti, (tup, vtup)) in tuples.iter().zip(vm_tuples).enumerate() {
                let mut io = RecIo::new();
                let mut steps = 0u64;
                let out = vmrun::run_function(&machine, &mut io, &name, vtup, &mut steps);
                rep.count("transitions", steps);
                rep.count("traces_validated_against_impl", 1);
                rep.count("states", 1);
                let replay = || json!({"program": p.key, "tuple": ti, "family": p.family});
                if !io.log.is_empty() {
                    rep.violation(p.key.clone(), "pure function performed fact/effect I/O", replay());
                }
                match mode {
                    Mode::GoesWrong => {
                        match &out {
                            Outcome::Error(kind, msg) => {
                                rep.outcome(&format!("error_{kind}"), 1);
                                if internal_kind(kind) {
                                    rep.violation(
                                        p.key.clone(),
                                        format!("accepted program went wrong on tuple {ti}: {kind}: {msg}"),
                                        replay(),
                                    );
                                }
                            }
                            Outcome::Horizon => {
                                rep.outcome("horizon", 1);
                                rep.count("horizon_hits", 1);
                            }
                            o => rep.outcome(o.class(), 1),
                        }
                        rep.count("disagreements_checked", 1);
                    }
                    Mode::Semantics => {
                        let mut it = Interp::new(&fns, &globals, &recalls);
                        let want = it.call_fn(&name, tup.clone());
                        rep.count("disagreements_checked", 1);
                        match (&want, &out) {
                            (Ok(v), Outcome::Normal(Some(got))) if &vmrun::to_value(v) == got => {
                                rep.outcome(&format!("value_{:?}", p.def.ret), 1);
                                rep.count("agree_value", 1);
                            }
                            (Err(Stop::Panic), Outcome::Panic) => {
                                rep.outcome("panic", 1);
                                rep.count("agree_panic", 1);
                            }
                            (Err(Stop::Unmodelled(why)), _) => {
                                rep.count("unmodelled", 1);
                                rep.sample(json!({"unmodelled": why, "program": p.key}));
                            }
                            (want, got) => {
                                rep.outcome("disagreement", 1);
                                rep.violation(
                                    p.key.clone(),
                                    format!(
                                        "tuple {ti} ({}): semantics says {}, VM gave {:?}",
                                        tuple_text(tup),
                                        match want {
                                            Ok(v) => format!("value {v:?}"),
                                            Err(s) => format!("{s:?}"),
                                        },
                                        got
                                    ),
                                    replay(),
                                );
                            }
                        }
                    }
                }
            }
        }
    }
}

pub fn tuple_text(t: &[Val]) -> String {
    PARAMS.iter().zip(t).map(|((n, _), v)| format!("{n}={}", val_text(v))).collect::<Vec<_>>().join(" ")
}

pub fn tuple_text_named(sig: &[(&str, Ty)], t: &[Val]) -> String {
    sig.iter().zip(t).map(|((n, _), v)| format!("{n}={}", val_text(v))).collect::<Vec<_>>().join(" ")
}

pub fn val_text(v: &Val) -> String {
    match v {
        Val::Int(n) => n.to_string(),
        Val::Bool(b) => b.to_string(),
        Val::Str(s) => format!("{s:?}"),
        Val::Id(k) => format!("id{k}"),
        Val::Enum(k) => format!("E::{}", ENUM_VARIANTS[*k as usize]),
        Val::Struct(n, f) => format!(
            "{n}{{{}}}",
            f.iter().map(|(k, v)| format!("{k}:{}", val_text(v))).collect::<Vec<_>>().join(",")
        ),
        Val::Opt(None) => "None".into(),
        Val::Opt(Some(v)) => format!("Some({})", val_text(v)),
        Val::Res(Ok(v)) => format!("Ok({})", val_text(v)),
        Val::Res(Err(v)) => format!("Err({})", val_text(v)),
    }
}

pub fn run_corpus(rep: &mut Report, programs: &[Program], tuples: &[Vec<Val>], mode: Mode) {
    let vm_tuples: Vec<Vec<Value>> = tuples.iter().map(|t| t.iter().map(vmrun::to_value).collect()).collect();
    let refs: Vec<&Program> = programs.iter().collect();
    let chunks: Vec<(usize, &[&Program])> = refs.chunks(BATCH).enumerate().map(|(i, c)| (i * BATCH, c)).collect();
    let workers: Vec<Report> = chunks
        .par_iter()
        .map(|(base, chunk)| {
            let mut w = rep.worker();
            run_batch(&mut w, chunk, *base, tuples, &vm_tuples, mode);
            w
        })
        .collect();
    for w in workers {
        rep.absorb(w);
    }
}

/// Generate the corpus in bounded chunks and run each chunk in parallel (memory stays bounded).
pub fn run_streamed(rep: &mut Report, tier: Tier, tuples: &[Vec<Val>], mode: Mode) {
    const CHUNK: usize = BATCH * 128;
    let mut pending: Vec<Program> = Vec::with_capacity(CHUNK);
    let mut total = 0usize;
    // samples: one program per family, the first seen
    let mut sampled: BTreeSet<&'static str> = BTreeSet::new();
    let rep_cell = std::cell::RefCell::new(rep);
    for_each_program(tier, &mut |p| {
        if sampled.insert(p.family) {
            rep_cell.borrow_mut().sample(json!({"program": p.key, "family": p.family}));
        }
        pending.push(p);
        total += 1;
        if pending.len() >= CHUNK {
            run_corpus(&mut rep_cell.borrow_mut(), &pending, tuples, mode);
            pending.clear();
        }
    });
    if !pending.is_empty() {
        run_corpus(&mut rep_cell.borrow_mut(), &pending, tuples, mode);
    }
}

pub fn run(args: &Args) {
    let mut rep = Report::new(args, Level::ModelChecking);
    rep.set_max_samples(12);
    if let Some(path) = &args.replay {
        return replay(args, rep, path);
    }
    let tuples = arg_tuples(args.tier);
    run_streamed(&mut rep, args.tier, &tuples, Mode::Semantics);
    finish_common(&mut rep, args, tuples.len());
    if rep.counter("unmodelled") > 0 {
        mcx::machinery_error("generator produced programs the reference interpreter does not model");
    }
    rep.require_nonzero("agree_value");
    rep.require_nonzero("agree_panic");
    rep.finish()
}

pub fn finish_common(rep: &mut Report, args: &Args, ntuples: usize) {
    rep.set("exhaustive", true);
    rep.set("argument_tuples", ntuples as u64);
    rep.set("batch_size", BATCH as u64);
    rep.set(
        "bounds",
        match args.tier {
            Tier::Quick => "expression depth 2 (full1 + spine2 + square2 + never) and statement templates over depth-1 holes",
            Tier::Thorough => "expression depth 3 (quick + every operator around every depth-2 expression) and statement templates over depth-2 holes",
        },
    );
    rep.assume("the reference interpreter in harness/pol-check/src/lang.rs is the language semantics (built from grammar and compiler comments only)");
    rep.assume("programs are produced by the harness enumerator; spine shapes (one complex operand per node) bound the tree shapes beyond depth 1");
}

fn replay(args: &Args, mut rep: Report, path: &std::path::Path) {
    let body: mcx::Value = std::fs::read_to_string(path)
        .ok()
        .and_then(|s| mcx::serde_json::from_str(&s).ok())
        .unwrap_or_else(|| mcx::machinery_error("cannot read replay file"));
    let key = body["replay"]["program"].as_str().unwrap_or("").to_string();
    let mut programs: Vec<Program> = Vec::new();
    for_each_program(Tier::Thorough, &mut |p| {
        if p.key == key && programs.is_empty() {
            programs.push(p);
        }
    });
    if programs.is_empty() {
        mcx::machinery_error("replay program is not in the corpus of either tier");
    }
    let tuples = arg_tuples(Tier::Thorough);
    let mode = if args.prop == "C24" { Mode::GoesWrong } else { Mode::Semantics };
    run_corpus(&mut rep, &programs, &tuples, mode);
    rep.set("exhaustive", false);
    rep.finish()
}
