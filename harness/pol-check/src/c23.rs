//! C23 — untaken operands and branches are never evaluated.
//!
//! Programs are built from *constructs with an untaken position* (`&&`, `||`, `or`, `if` expression
//! and statement, `match` expression and statement incl. `|` alternatives, default and bindings,
//! `check … else`).  Every selector value (taken/untaken assignment) is enumerated; every live
//! slot holds a logging foreign call `probe::hit(k)` / `probe::hitb(k, v)`; every dead slot holds
//! one of the fillers {todo(), test_fail(), helper with a failing check, foreign call, helper that
//! falls off its match ("unwrap" of None), `return -999`}.  One further construct is nested in
//! each slot in turn (live or dead), so dead code two levels deep is covered.
//!
//! Oracles (all must hold):
//!  (a) statement: VM(P) == VM(P') where P' is P with every dead slot replaced by a constant —
//!      same result, same foreign-call log;
//!  (b) the log is exactly the live probes in source order, and the result is the value of the
//!      live slot (both known by construction);
//!  (c) VM(P) equals the reference interpreter on P (result and log).

use std::collections::BTreeMap;

use aranya_policy_vm::{Machine, Value};
use mcx::{json, rayon::prelude::*, Args, Level, Report, Tier};

use crate::{
    lang::*,
    vmrun::{self, Ffi, Outcome, RecIo},
};

#[derive(Clone, Copy, Debug, PartialEq, Eq)]
enum VT {
    Int,
    Bool,
}

#[derive(Clone, Copy, Debug, PartialEq, Eq)]
enum K {
    And,
    Or,
    And3,
    OrAnd,
    Coal,
    IfE(VT),
    MatchInt(VT),
    MatchBool(VT),
    MatchOpt(VT),
    MatchOptLit(VT),
    MatchEnum(VT),
    // statement-level (outermost only)
    IfS,
    IfElseIfS,
    MatchS,
    MatchOptS,
    CheckS,
}

#[derive(Clone, Copy, Debug, PartialEq, Eq)]
enum Sel {
    B(bool),
    N(i64),
    O(Option<i64>),
    E(u8),
}

#[derive(Clone, Copy, Debug, PartialEq, Eq)]
enum Fill {
    Todo,
    TestFail,
    FailingCheck,
    ForeignCall,
    Unwrap,
    Return,
}
const FILLS: [Fill; 6] = [Fill::Todo, Fill::TestFail, Fill::FailingCheck, Fill::ForeignCall, Fill::Unwrap, Fill::Return];

#[derive(Clone, Debug)]
enum Node {
    Probe(VT, i64),
    /// dead slot: filler kind, type (None = never-typed position), probe id used by the filler
    Dead(Fill, Option<VT>, i64),
    C { k: K, sel: Sel, literal_sel: bool, level: u8, slots: Vec<Node>, binder: u32 },
}

#[derive(Clone, Copy, Debug, PartialEq, Eq)]
enum KV {
    I(i64),
    B(bool),
    /// the function returned from inside this node (check-else / return statements)
    Ret(i64),
}

impl K {
    fn ty(self) -> VT {
        match self {
            K::And | K::Or | K::And3 | K::OrAnd => VT::Bool,
            K::Coal => VT::Int,
            K::IfE(t) | K::MatchInt(t) | K::MatchBool(t) | K::MatchOpt(t) | K::MatchOptLit(t) | K::MatchEnum(t) => t,
            K::IfS | K::IfElseIfS | K::MatchS | K::MatchOptS | K::CheckS => VT::Int,
        }
    }
    fn is_stmt(self) -> bool {
        matches!(self, K::IfS | K::IfElseIfS | K::MatchS | K::MatchOptS | K::CheckS)
    }
    fn sels(self) -> Vec<Sel> {
        match self {
            K::And | K::Or | K::And3 | K::OrAnd | K::IfE(_) | K::MatchBool(_) | K::IfS | K::IfElseIfS | K::CheckS => {
                vec![Sel::B(true), Sel::B(false)]
            }
            K::Coal | K::MatchOpt(_) | K::MatchOptS => vec![Sel::O(Some(5)), Sel::O(None)],
            K::MatchOptLit(_) => vec![Sel::O(Some(1)), Sel::O(Some(5)), Sel::O(None)],
            K::MatchInt(_) | K::MatchS => vec![Sel::N(0), Sel::N(1), Sel::N(2), Sel::N(7)],
            K::MatchEnum(_) => vec![Sel::E(0), Sel::E(1), Sel::E(2)],
        }
    }
    fn inner_kinds(t: VT) -> Vec<K> {
        let mut v = vec![K::IfE(t), K::MatchInt(t), K::MatchBool(t), K::MatchOpt(t), K::MatchOptLit(t), K::MatchEnum(t)];
        match t {
            VT::Bool => v.extend([K::And, K::Or, K::And3, K::OrAnd]),
            VT::Int => v.push(K::Coal),
        }
        v
    }
    fn outer_kinds() -> Vec<K> {
        let mut v = K::inner_kinds(VT::Int);
        v.extend(K::inner_kinds(VT::Bool));
        v.extend([K::IfS, K::IfElseIfS, K::MatchS, K::MatchOptS, K::CheckS]);
        v
    }
    /// slot types in source order (None = never-typed position)
    fn slot_types(self) -> Vec<Option<VT>> {
        let b = Some(VT::Bool);
        let i = Some(VT::Int);
        match self {
            K::And | K::Or => vec![b],
            K::And3 | K::OrAnd => vec![b, b],
            K::Coal => vec![i],
            K::IfE(t) | K::MatchBool(t) | K::MatchOpt(t) | K::MatchEnum(t) => vec![Some(t), Some(t)],
            K::MatchInt(t) | K::MatchOptLit(t) => vec![Some(t), Some(t), Some(t)],
            K::IfS => vec![i, i],
            K::IfElseIfS => vec![i, b, i, i],
            K::MatchS => vec![i, i, i],
            K::MatchOptS => vec![i, i],
            K::CheckS => vec![None, i],
        }
    }
}

struct Ctx {
    next_id: i64,
    fill: Fill,
    payload: bool,
    next_binder: u32,
}

/// nested: (slot index, kind, selector) of the one inner construct, if any
fn build(k: K, sel: Sel, literal_sel: bool, live: bool, level: u8, ctx: &mut Ctx, nested: Option<(usize, K, Sel)>) -> (Node, Option<KV>, Vec<i64>) {
    let types = k.slot_types();
    let mut slots: Vec<Node> = Vec::new();
    let mut vals: Vec<Option<KV>> = Vec::new();
    let mut log: Vec<i64> = Vec::new();
    let binder = ctx.next_binder;
    ctx.next_binder += 1;
    let sb = matches!(sel, Sel::B(true));
    for (idx, ty) in types.iter().enumerate() {
        // liveness of this slot given the selector and the values of earlier slots
        let prev_b = |j: usize| matches!(vals.get(j), Some(Some(KV::B(true))));
        let prev_returned = vals.iter().any(|v| matches!(v, Some(KV::Ret(_))));
        let slot_live = live
            && !prev_returned
            && match k {
                K::And => sb,
                K::Or => !sb,
                // (S && B1) && B2
                K::And3 => {
                    if idx == 0 {
                        sb
                    } else {
                        sb && prev_b(0)
                    }
                }
                // (S || B1) && B2
                K::OrAnd => {
                    if idx == 0 {
                        !sb
                    } else {
                        sb || prev_b(0)
                    }
                }
                K::Coal => sel == Sel::O(None),
                K::IfE(_) | K::MatchBool(_) | K::IfS => (idx == 0) == sb,
                K::MatchOpt(_) | K::MatchOptS => (idx == 0) == matches!(sel, Sel::O(Some(_))),
                K::MatchOptLit(_) => match sel {
                    Sel::O(Some(1)) => idx == 0,
                    Sel::O(None) => idx == 1,
                    _ => idx == 2,
                },
                K::MatchInt(_) | K::MatchS => match sel {
                    Sel::N(0) => idx == 0,
                    Sel::N(1) | Sel::N(2) => idx == 1,
                    _ => idx == 2,
                },
                K::MatchEnum(_) => (idx == 0) == (sel == Sel::E(0)),
                // if S0 { return A } else if S1 { return B } else { return D }
                K::IfElseIfS => match idx {
                    0 => sb,
                    1 => !sb,
                    2 => !sb && prev_b(1),
                    _ => !sb && !prev_b(1),
                },
                // check S else <never>   return A
                K::CheckS => {
                    if idx == 0 {
                        !sb
                    } else {
                        sb
                    }
                }
            };
        let (node, val, l) = match nested {
            Some((ni, nk, nsel)) if ni == idx => build(nk, nsel, false, slot_live, level + 1, ctx, None),
            _ => {
                let id = ctx.next_id;
                ctx.next_id += 1;
                if slot_live {
                    match ty {
                        Some(VT::Int) => (Node::Probe(VT::Int, id), Some(KV::I(id)), vec![id]),
                        Some(VT::Bool) => (Node::Probe(VT::Bool, id), Some(KV::B(ctx.payload)), vec![id]),
                        // live never-typed slot: `return probe::hit(id)`
                        None => (Node::Probe(VT::Int, id), Some(KV::Ret(id)), vec![id]),
                    }
                } else {
                    (Node::Dead(ctx.fill, *ty, id), None, vec![])
                }
            }
        };
        slots.push(node);
        vals.push(if slot_live { val } else { None });
        log.extend(l);
    }
    // value of the construct
    let live_val = vals.iter().flatten().next().copied();
    let returned = vals.iter().flatten().find(|v| matches!(v, KV::Ret(_))).copied();
    let value = if !live {
        None
    } else if let Some(r) = returned {
        Some(r)
    } else {
        let b_of = |j: usize| match vals[j] {
            Some(KV::B(b)) => b,
            _ => false,
        };
        match k {
            K::And => Some(KV::B(sb && b_of(0))),
            K::Or => Some(KV::B(sb || b_of(0))),
            K::And3 => Some(KV::B(sb && b_of(0) && b_of(1))),
            K::OrAnd => Some(KV::B((sb || b_of(0)) && b_of(1))),
            K::Coal => match sel {
                Sel::O(Some(n)) => Some(KV::I(n)),
                _ => live_val,
            },
            // statement kinds return the live slot's value from the function
            K::IfS | K::MatchS | K::MatchOptS => match live_val {
                Some(KV::I(n)) => Some(KV::Ret(n)),
                other => other,
            },
            K::IfElseIfS => match vals.iter().enumerate().filter(|(j, _)| *j != 1).find_map(|(_, v)| *v) {
                Some(KV::I(n)) => Some(KV::Ret(n)),
                other => other,
            },
            K::CheckS => match vals[1] {
                Some(KV::I(n)) => Some(KV::Ret(n)),
                other => other,
            },
            _ => live_val,
        }
    };
    (Node::C { k, sel, literal_sel, level, slots, binder }, value, log)
}

fn bx(e: Expr) -> Box<Expr> {
    Box::new(e)
}
fn var(s: String) -> Expr {
    Expr::Var(s)
}

fn sel_expr(sel: Sel, literal: bool, level: u8) -> Expr {
    if literal {
        match sel {
            Sel::B(b) => Expr::Bool(b),
            Sel::N(n) => Expr::Int(n),
            Sel::O(None) => Expr::None_,
            Sel::O(Some(n)) => Expr::Some_(bx(Expr::Int(n))),
            Sel::E(k) => Expr::EnumLit(k),
        }
    } else {
        match sel {
            Sel::B(_) => var(format!("b{level}")),
            Sel::N(_) => var(format!("n{level}")),
            Sel::O(_) => var(format!("o{level}")),
            Sel::E(_) => var(format!("e{level}")),
        }
    }
}

// Expression for a node; `replace` = build P' (dead slots become constants).
thread_local! {
    /// while set, every probe / filler slot is wrapped as `{ debug_assert(true) :slot }`
    static WRAP_SLOTS: std::cell::Cell<bool> = const { std::cell::Cell::new(false) };
}

fn expr_of(n: &Node, replace: bool, never_pos: bool) -> Expr {
    let e = expr_of_inner(n, replace, never_pos);
    if !never_pos && WRAP_SLOTS.with(|w| w.get()) && matches!(n, Node::Probe(..) | Node::Dead(..)) {
        return Expr::Block(vec![Stmt::DebugAssert(Expr::Bool(true))], bx(e));
    }
    e
}

fn expr_of_inner(n: &Node, replace: bool, never_pos: bool) -> Expr {
    match n {
        Node::Probe(VT::Int, id) => {
            let call = Expr::Ffi("probe", "hit", vec![Expr::Int(*id)]);
            if never_pos {
                Expr::Ret(bx(call))
            } else {
                call
            }
        }
        Node::Probe(VT::Bool, id) => Expr::Ffi("probe", "hitb", vec![Expr::Int(*id), Expr::Var("payload".into())]),
        Node::Dead(fill, ty, id) => {
            if replace {
                return match ty {
                    Some(VT::Int) => Expr::Int(-5),
                    Some(VT::Bool) => Expr::Bool(false),
                    // a never-typed position needs a diverging expression; it is dead, so any will do
                    None => Expr::Ret(bx(Expr::Int(-6))),
                };
            }
            let e = match (fill, ty) {
                (Fill::Todo, _) => return Expr::Todo,
                (Fill::TestFail, _) => return Expr::TestFail,
                (Fill::Return, _) => return Expr::Ret(bx(Expr::Int(-999))),
                (Fill::FailingCheck, Some(VT::Bool)) => Expr::Call("boomb_check".into(), vec![Expr::Int(*id)]),
                (Fill::FailingCheck, _) => Expr::Call("boom_check".into(), vec![Expr::Int(*id)]),
                (Fill::ForeignCall, Some(VT::Bool)) => Expr::Ffi("probe", "hitb", vec![Expr::Int(*id), Expr::Bool(true)]),
                (Fill::ForeignCall, _) => Expr::Ffi("probe", "hit", vec![Expr::Int(*id)]),
                (Fill::Unwrap, Some(VT::Bool)) => Expr::Call("boomb_unwrap".into(), vec![Expr::None_]),
                (Fill::Unwrap, _) => Expr::Call("boom_unwrap".into(), vec![Expr::None_]),
            };
            if ty.is_none() {
                Expr::Ret(bx(e))
            } else {
                e
            }
        }
        Node::C { k, sel, literal_sel, level, slots, binder } => {
            let s = sel_expr(*sel, *literal_sel, *level);
            let sl = |i: usize| expr_of(&slots[i], replace, false);
            let bind = format!("m{binder}");
            match k {
                K::And => Expr::Bin(Bin::And, bx(s), bx(sl(0))),
                K::Or => Expr::Bin(Bin::Or, bx(s), bx(sl(0))),
                K::And3 => Expr::Bin(Bin::And, bx(Expr::Bin(Bin::And, bx(s), bx(sl(0)))), bx(sl(1))),
                K::OrAnd => Expr::Bin(Bin::And, bx(Expr::Bin(Bin::Or, bx(s), bx(sl(0)))), bx(sl(1))),
                K::Coal => Expr::Bin(Bin::Coalesce, bx(s), bx(sl(0))),
                K::IfE(_) => Expr::If(bx(s), bx(sl(0)), bx(sl(1))),
                K::MatchInt(_) => Expr::Match(
                    bx(s),
                    vec![
                        (Pat::Vals(vec![PatVal::Lit(Expr::Int(0))]), sl(0)),
                        (Pat::Vals(vec![PatVal::Lit(Expr::Int(1)), PatVal::Lit(Expr::Int(2))]), sl(1)),
                        (Pat::Default, sl(2)),
                    ],
                ),
                K::MatchBool(_) => Expr::Match(
                    bx(s),
                    vec![
                        (Pat::Vals(vec![PatVal::Lit(Expr::Bool(true))]), sl(0)),
                        (Pat::Vals(vec![PatVal::Lit(Expr::Bool(false))]), sl(1)),
                    ],
                ),
                K::MatchOpt(_) => Expr::Match(
                    bx(s),
                    vec![
                        (Pat::Vals(vec![PatVal::SomeBind(bind)]), sl(0)),
                        (Pat::Vals(vec![PatVal::Lit(Expr::None_)]), sl(1)),
                    ],
                ),
                K::MatchOptLit(_) => Expr::Match(
                    bx(s),
                    vec![
                        (Pat::Vals(vec![PatVal::Lit(Expr::Some_(bx(Expr::Int(1))))]), sl(0)),
                        (Pat::Vals(vec![PatVal::Lit(Expr::None_)]), sl(1)),
                        (Pat::Default, sl(2)),
                    ],
                ),
                K::MatchEnum(_) => Expr::Match(
                    bx(s),
                    vec![
                        (Pat::Vals(vec![PatVal::Lit(Expr::EnumLit(0))]), sl(0)),
                        (Pat::Vals(vec![PatVal::Lit(Expr::EnumLit(1)), PatVal::Lit(Expr::EnumLit(2))]), sl(1)),
                    ],
                ),
                _ => unreachable!("statement kinds are printed by body_of"),
            }
        }
    }
}

/// Function body for the outermost node.
fn body_of(n: &Node, replace: bool) -> Vec<Stmt> {
    let Node::C { k, sel, literal_sel, level, slots, binder } = n else { unreachable!() };
    let s = sel_expr(*sel, *literal_sel, *level);
    let sl = |i: usize| expr_of(&slots[i], replace, false);
    match k {
        K::IfS => vec![Stmt::If(vec![(s, vec![Stmt::Return(sl(0))])], Some(vec![Stmt::Return(sl(1))]))],
        K::IfElseIfS => vec![Stmt::If(
            vec![(s, vec![Stmt::Return(sl(0))]), (sl(1), vec![Stmt::Return(sl(2))])],
            Some(vec![Stmt::Return(sl(3))]),
        )],
        K::MatchS => vec![Stmt::Match(
            s,
            vec![
                (Pat::Vals(vec![PatVal::Lit(Expr::Int(0))]), vec![Stmt::Return(sl(0))]),
                (Pat::Vals(vec![PatVal::Lit(Expr::Int(1)), PatVal::Lit(Expr::Int(2))]), vec![Stmt::Return(sl(1))]),
                (Pat::Default, vec![Stmt::Return(sl(2))]),
            ],
        )],
        K::MatchOptS => vec![Stmt::Match(
            s,
            vec![
                (Pat::Vals(vec![PatVal::SomeBind(format!("m{binder}"))]), vec![Stmt::Return(sl(0))]),
                (Pat::Vals(vec![PatVal::Lit(Expr::None_)]), vec![Stmt::Return(sl(1))]),
            ],
        )],
        K::CheckS => vec![Stmt::Check(s, expr_of(&slots[0], replace, true)), Stmt::Return(sl(1))],
        _ => {
            let e = expr_of(n, replace, false);
            match k.ty() {
                VT::Int => vec![Stmt::Return(e)],
                // bool constructs: 1 / 0 so that the `return -999` filler is always distinguishable
                VT::Bool => vec![Stmt::Return(Expr::If(bx(e), bx(Expr::Int(1)), bx(Expr::Int(0))))],
            }
        }
    }
}

const HELPERS: &str = "\
function boom_check(v int) int { check v < 0 else test_fail(\"boom\") return v }
function boomb_check(v int) bool { check v < 0 else test_fail(\"boom\") return true }
function boom_unwrap(o option[int]) int { match o { Some(w) => { return w } None => { } } }
function boomb_unwrap(o option[int]) bool { match o { Some(w) => { return w == 0 } None => { } } }
";

fn helper_defs() -> Vec<FnDef> {
    let v = |n: &str| Expr::Var(n.to_string());
    let chk = |name: &str, ret: Ty, r: Expr| FnDef {
        name: name.into(),
        params: vec![("v".into(), Ty::Int)],
        ret,
        body: vec![Stmt::Check(Expr::Bin(Bin::Lt, bx(v("v")), bx(Expr::Int(0))), Expr::TestFail), Stmt::Return(r)],
    };
    let unw = |name: &str, ret: Ty, r: Expr| FnDef {
        name: name.into(),
        params: vec![("o".into(), Ty::OptInt)],
        ret,
        body: vec![Stmt::Match(
            v("o"),
            vec![
                (Pat::Vals(vec![PatVal::SomeBind("w".into())]), vec![Stmt::Return(r)]),
                (Pat::Vals(vec![PatVal::Lit(Expr::None_)]), vec![]),
            ],
        )],
    };
    vec![
        chk("boom_check", Ty::Int, v("v")),
        chk("boomb_check", Ty::Bool, Expr::Bool(true)),
        unw("boom_unwrap", Ty::Int, v("w")),
        unw("boomb_unwrap", Ty::Bool, Expr::Bin(Bin::Eq, bx(v("w")), bx(Expr::Int(0)))),
    ]
}

const SIG: [(&str, Ty); 9] = [
    ("b0", Ty::Bool),
    ("b1", Ty::Bool),
    ("n0", Ty::Int),
    ("n1", Ty::Int),
    ("o0", Ty::OptInt),
    ("o1", Ty::OptInt),
    ("e0", Ty::EnumE),
    ("e1", Ty::EnumE),
    ("payload", Ty::Bool),
];

struct Case {
    p: FnDef,
    p_replaced: FnDef,
    key: String,
    args: Vec<Val>,
    want: KV,
    want_log: Vec<i64>,
    dead_slots: usize,
    nested: bool,
    /// condition-shape family: no separate replaced program (oracles (b) and (c) only)
    cond_family: bool,
}

fn args_for(outer: Sel, inner: Option<Sel>, payload: bool) -> Vec<Val> {
    let mut b = [false, false];
    let mut n = [9i64, 9];
    let mut o: [Option<i64>; 2] = [None, None];
    let mut e = [0u8, 0];
    for (lvl, s) in [(0usize, Some(outer)), (1, inner)] {
        match s {
            Some(Sel::B(v)) => b[lvl] = v,
            Some(Sel::N(v)) => n[lvl] = v,
            Some(Sel::O(v)) => o[lvl] = v,
            Some(Sel::E(v)) => e[lvl] = v,
            None => {}
        }
    }
    let opt = |v: Option<i64>| Val::Opt(v.map(|n| Box::new(Val::Int(n))));
    vec![
        Val::Bool(b[0]),
        Val::Bool(b[1]),
        Val::Int(n[0]),
        Val::Int(n[1]),
        opt(o[0]),
        opt(o[1]),
        Val::Enum(e[0]),
        Val::Enum(e[1]),
        Val::Bool(payload),
    ]
}

fn count_dead(n: &Node) -> usize {
    match n {
        Node::Dead(..) => 1,
        Node::Probe(..) => 0,
        Node::C { slots, .. } => slots.iter().map(count_dead).sum(),
    }
}

fn has_bool_probe(n: &Node) -> bool {
    match n {
        Node::Probe(VT::Bool, _) => true,
        Node::C { slots, .. } => slots.iter().any(has_bool_probe),
        _ => false,
    }
}

fn cases(tier: Tier) -> Vec<Case> {
    let mut out = Vec::new();
    let params: Vec<(String, Ty)> = SIG.iter().map(|(n, t)| (n.to_string(), *t)).collect();
    let mut emit = |k: K, sel: Sel, literal: bool, nested: Option<(usize, K, Sel)>, fill: Fill, payload: bool| {
        let mut ctx = Ctx { next_id: 1, fill, payload, next_binder: 0 };
        let (node, val, log) = build(k, sel, literal, true, 0, &mut ctx, nested);
        if !payload && !has_bool_probe(&node) {
            return; // payload irrelevant: already covered with payload = true
        }
        let dead = count_dead(&node);
        if dead == 0 {
            return;
        }
        let want = match val {
            Some(KV::B(b)) => KV::I(b as i64),
            Some(KV::Ret(n)) => KV::I(n),
            Some(v) => v,
            None => return,
        };
        let p = FnDef { name: String::new(), params: params.clone(), ret: Ty::Int, body: body_of(&node, false) };
        let p_replaced = FnDef { name: String::new(), params: params.clone(), ret: Ty::Int, body: body_of(&node, true) };
        let mut keyed = p.clone();
        keyed.name = "f".into();
        let args = args_for(sel, nested.map(|n| n.2), payload);
        let key = format!("{} :: {}", print_fn(&keyed), crate::c22::tuple_text_named(&SIG, &args));
        out.push(Case { p, p_replaced, key, args: args.clone(), want, want_log: log.clone(), dead_slots: dead, nested: nested.is_some(), cond_family: false });
        // straight-line statements before the construct, and debug_assert inside every slot
        if !matches!(fill, Fill::Todo | Fill::ForeignCall) || literal {
            return;
        }
        let n0 = || Expr::Var("n0".into());
        let mut prefixes: Vec<Vec<Stmt>> = vec![vec![Stmt::DebugAssert(Expr::Bool(true))]];
        if nested.is_none() {
            prefixes.extend([
                vec![Stmt::DebugAssert(Expr::Bin(Bin::Eq, bx(n0()), bx(n0())))],
                vec![Stmt::Let("z9".into(), Expr::Builtin(Builtin::SatAdd, bx(n0()), bx(Expr::Int(1))))],
                vec![Stmt::Check(Expr::Bool(true), Expr::Ret(bx(Expr::Int(-998))))],
                vec![Stmt::Let("z9".into(), Expr::Call("boom_check".into(), vec![Expr::Int(-1)]))],
                vec![Stmt::DebugAssert(Expr::Bool(true)), Stmt::Let("z9".into(), Expr::Int(1)), Stmt::DebugAssert(Expr::Bin(Bin::Gt, bx(Expr::Var("z9".into())), bx(Expr::Int(0))))],
            ]);
        }
        let mut variants: Vec<(Vec<Stmt>, Vec<Stmt>)> = Vec::new();
        for pre in prefixes {
            let mut b = pre.clone();
            b.extend(body_of(&node, false));
            let mut r = pre;
            r.extend(body_of(&node, true));
            variants.push((b, r));
        }
        WRAP_SLOTS.with(|w| w.set(true));
        variants.push((body_of(&node, false), body_of(&node, true)));
        WRAP_SLOTS.with(|w| w.set(false));
        for (b, r) in variants {
            let p = FnDef { name: String::new(), params: params.clone(), ret: Ty::Int, body: b };
            let p_replaced = FnDef { name: String::new(), params: params.clone(), ret: Ty::Int, body: r };
            let mut keyed = p.clone();
            keyed.name = "f".into();
            let key = format!("{} :: {}", print_fn(&keyed), crate::c22::tuple_text_named(&SIG, &args));
            out.push(Case { p, p_replaced, key, args: args.clone(), want, want_log: log.clone(), dead_slots: dead, nested: nested.is_some(), cond_family: false });
        }
    };
    for k in K::outer_kinds() {
        for sel in k.sels() {
            for fill in FILLS {
                for payload in [true, false] {
                    // all-leaf, selector as parameter and as literal
                    emit(k, sel, false, None, fill, payload);
                    if tier == Tier::Thorough || fill == Fill::Todo || fill == Fill::ForeignCall {
                        emit(k, sel, true, None, fill, payload);
                    }
                    // one nested construct in each slot in turn
                    for (idx, ty) in k.slot_types().iter().enumerate() {
                        let Some(ty) = ty else { continue };
                        for ik in K::inner_kinds(*ty) {
                            for isel in ik.sels() {
                                emit(k, sel, false, Some((idx, ik, isel)), fill, payload);
                            }
                        }
                    }
                }
            }
        }
    }
    let _ = K::is_stmt;
    out.extend(cond_cases(tier));
    out
}

// ---------------------------------------------------------------------------------------------
// Condition positions: every conditional construct whose CONDITION is a short-circuit expression
// over comparison / negation forms, under every boolean assignment.

#[derive(Clone, Copy, Debug, PartialEq, Eq)]
enum At {
    Eq,
    Ne,
    Lt,
    Gt,
    Le,
    Ge,
    NotB,
    B,
    IsNone,
    IsSome,
    True,
    False,
    Probe(bool),
}

#[derive(Clone, Debug)]
enum Cd {
    A(At, i64),
    And(Box<Cd>, Box<Cd>),
    Or(Box<Cd>, Box<Cd>),
    Not(Box<Cd>),
}

#[derive(Clone, Copy)]
struct Asg {
    n0: i64,
    n1: i64,
    b0: bool,
    o0: Option<i64>,
}

fn at_value(a: At, g: &Asg) -> bool {
    match a {
        At::Eq => g.n0 == g.n1,
        At::Ne => g.n0 != g.n1,
        At::Lt => g.n0 < g.n1,
        At::Gt => g.n0 > g.n1,
        At::Le => g.n0 <= g.n1,
        At::Ge => g.n0 >= g.n1,
        At::NotB => !g.b0,
        At::B => g.b0,
        At::IsNone => g.o0.is_none(),
        At::IsSome => g.o0.is_some(),
        At::True => true,
        At::False => false,
        At::Probe(v) => v,
    }
}

fn at_expr(a: At, id: i64) -> Expr {
    let n0 = || bx(var("n0".into()));
    let n1 = || bx(var("n1".into()));
    match a {
        At::Eq => Expr::Bin(Bin::Eq, n0(), n1()),
        At::Ne => Expr::Bin(Bin::Ne, n0(), n1()),
        At::Lt => Expr::Bin(Bin::Lt, n0(), n1()),
        At::Gt => Expr::Bin(Bin::Gt, n0(), n1()),
        At::Le => Expr::Bin(Bin::Le, n0(), n1()),
        At::Ge => Expr::Bin(Bin::Ge, n0(), n1()),
        At::NotB => Expr::Not(bx(var("b0".into()))),
        At::B => var("b0".into()),
        At::IsNone => Expr::Is(bx(var("o0".into())), false),
        At::IsSome => Expr::Is(bx(var("o0".into())), true),
        At::True => Expr::Bool(true),
        At::False => Expr::Bool(false),
        At::Probe(v) => Expr::Ffi("probe", "hitb", vec![Expr::Int(id), Expr::Bool(v)]),
    }
}

fn cd_expr(c: &Cd) -> Expr {
    match c {
        Cd::A(a, id) => at_expr(*a, *id),
        Cd::And(a, b) => Expr::Bin(Bin::And, bx(cd_expr(a)), bx(cd_expr(b))),
        Cd::Or(a, b) => Expr::Bin(Bin::Or, bx(cd_expr(a)), bx(cd_expr(b))),
        Cd::Not(a) => Expr::Not(bx(cd_expr(a))),
    }
}

/// Short-circuit evaluation by construction: value, probes logged, operands skipped.
fn cd_eval(c: &Cd, g: &Asg, live: bool, log: &mut Vec<i64>, skipped: &mut usize) -> bool {
    match c {
        Cd::A(a, id) => {
            if !live {
                *skipped += 1;
            } else if matches!(a, At::Probe(_)) {
                log.push(*id);
            }
            at_value(*a, g)
        }
        Cd::And(a, b) => {
            let l = cd_eval(a, g, live, log, skipped);
            let r = cd_eval(b, g, live && l, log, skipped);
            l && r
        }
        Cd::Or(a, b) => {
            let l = cd_eval(a, g, live, log, skipped);
            let r = cd_eval(b, g, live && !l, log, skipped);
            l || r
        }
        Cd::Not(a) => !cd_eval(a, g, live, log, skipped),
    }
}

fn number(c: &mut Cd, next: &mut i64) {
    match c {
        Cd::A(_, id) => {
            *id = *next;
            *next += 1;
        }
        Cd::And(a, b) | Cd::Or(a, b) => {
            number(a, next);
            number(b, next);
        }
        Cd::Not(a) => number(a, next),
    }
}

fn cond_cases(tier: Tier) -> Vec<Case> {
    let full = [
        At::Eq, At::Ne, At::Lt, At::Gt, At::Le, At::Ge, At::NotB, At::B, At::IsNone, At::IsSome, At::True, At::False, At::Probe(true),
        At::Probe(false),
    ];
    let small: Vec<At> = match tier {
        Tier::Quick => vec![At::Ne, At::Ge, At::NotB, At::IsNone, At::Eq, At::Probe(true), At::Probe(false)],
        Tier::Thorough => full.to_vec(),
    };
    let a = |x: At| Box::new(Cd::A(x, 0));
    let mut conds: Vec<Cd> = Vec::new();
    for x in full {
        for y in full {
            conds.push(Cd::And(a(x), a(y)));
            conds.push(Cd::Or(a(x), a(y)));
            conds.push(Cd::Not(Box::new(Cd::And(a(x), a(y)))));
            conds.push(Cd::Not(Box::new(Cd::Or(a(x), a(y)))));
        }
    }
    for x in &small {
        for y in &small {
            for z in &small {
                let (x, y, z) = (*x, *y, *z);
                conds.push(Cd::And(Box::new(Cd::And(a(x), a(y))), a(z)));
                conds.push(Cd::Or(Box::new(Cd::Or(a(x), a(y))), a(z)));
                conds.push(Cd::Or(Box::new(Cd::And(a(x), a(y))), a(z)));
                conds.push(Cd::And(Box::new(Cd::Or(a(x), a(y))), a(z)));
                conds.push(Cd::And(a(x), Box::new(Cd::Or(a(y), a(z)))));
                conds.push(Cd::Or(a(x), Box::new(Cd::And(a(y), a(z)))));
            }
        }
    }
    let mut asgs = Vec::new();
    for (n0, n1) in [(1, 2), (2, 2), (3, 2)] {
        for b0 in [true, false] {
            for o0 in [None, Some(5)] {
                asgs.push(Asg { n0, n1, b0, o0 });
            }
        }
    }
    let params: Vec<(String, Ty)> = SIG.iter().map(|(n, t)| (n.to_string(), *t)).collect();
    let hit = |id: i64| Expr::Ffi("probe", "hit", vec![Expr::Int(id)]);
    let mut out = Vec::new();
    for mut cd in conds {
        let mut next = 2i64; // id 1 is the first branch of the else-if position
        number(&mut cd, &mut next);
        let (ida, idb) = (next, next + 1);
        let c = cd_expr(&cd);
        // positions: (name, body)
        let positions: Vec<Vec<Stmt>> = vec![
            vec![Stmt::If(vec![(c.clone(), vec![Stmt::Return(hit(ida))])], Some(vec![Stmt::Return(hit(idb))]))],
            vec![Stmt::If(vec![(c.clone(), vec![Stmt::Return(hit(ida))])], None), Stmt::Return(hit(idb))],
            vec![Stmt::If(
                vec![(var("b1".into()), vec![Stmt::Return(hit(1))]), (c.clone(), vec![Stmt::Return(hit(ida))])],
                Some(vec![Stmt::Return(hit(idb))]),
            )],
            vec![Stmt::Return(Expr::If(bx(c.clone()), bx(hit(ida)), bx(hit(idb))))],
            vec![Stmt::Check(c.clone(), Expr::Ret(bx(hit(idb)))), Stmt::Return(hit(ida))],
            vec![Stmt::Return(Expr::Match(
                bx(c.clone()),
                vec![
                    (Pat::Vals(vec![PatVal::Lit(Expr::Bool(true))]), hit(ida)),
                    (Pat::Vals(vec![PatVal::Lit(Expr::Bool(false))]), hit(idb)),
                ],
            ))],
        ];
        // distinct behaviours of the condition over the assignments
        let mut seen: Vec<(bool, Vec<i64>, usize)> = Vec::new();
        let mut chosen: Vec<(Asg, bool, Vec<i64>, usize)> = Vec::new();
        for g in &asgs {
            let mut log = Vec::new();
            let mut skipped = 0usize;
            let v = cd_eval(&cd, g, true, &mut log, &mut skipped);
            let sig = (v, log.clone(), skipped);
            if !seen.contains(&sig) {
                seen.push(sig);
                chosen.push((*g, v, log, skipped));
            }
        }
        for body in positions {
            let p = FnDef { name: String::new(), params: params.clone(), ret: Ty::Int, body };
            let mut keyed = p.clone();
            keyed.name = "f".into();
            let text = print_fn(&keyed);
            for (g, v, log, skipped) in &chosen {
                let taken = if *v { ida } else { idb };
                let mut want_log = log.clone();
                want_log.push(taken);
                let opt = |v: Option<i64>| Val::Opt(v.map(|n| Box::new(Val::Int(n))));
                let args = vec![
                    Val::Bool(g.b0),
                    Val::Bool(false),
                    Val::Int(g.n0),
                    Val::Int(g.n1),
                    opt(g.o0),
                    opt(None),
                    Val::Enum(0),
                    Val::Enum(0),
                    Val::Bool(true),
                ];
                let key = format!("{text} :: {}", crate::c22::tuple_text_named(&SIG, &args));
                out.push(Case {
                    p: p.clone(),
                    p_replaced: p.clone(),
                    key,
                    args,
                    want: KV::I(taken),
                    want_log,
                    dead_slots: skipped + 1,
                    nested: false,
                    cond_family: true,
                });
            }
        }
    }
    out
}

fn doc_text(cases: &[&Case], base: usize) -> String {
    let mut s = String::from("use probe\n");
    s.push_str(PRELUDE);
    s.push_str(HELPERS);
    for (i, c) in cases.iter().enumerate() {
        for (j, f) in [&c.p, &c.p_replaced].into_iter().enumerate() {
            if j == 1 && c.cond_family {
                continue;
            }
            let mut d = f.clone();
            d.name = format!("f{}_{}", base + i, j);
            s.push_str(&print_fn(&d));
            s.push('\n');
        }
    }
    s
}

fn run_batch(rep: &mut Report, cases: &[&Case], base: usize) {
    let text = doc_text(cases, base);
    let machine = match vmrun::compile_text(&text, Ffi::Probe) {
        Ok(m) => Machine::from_module(m).unwrap_or_else(|_| mcx::machinery_error("module version")),
        Err(e) => {
            if cases.len() == 1 {
                rep.count("rejected_by_front_end", 1);
                rep.sample(json!({"rejected_by_front_end": cases[0].key, "message": e}));
                if std::env::var_os("POL_DEBUG").is_some() {
                    eprintln!("REJECTED {e} :: {}", cases[0].key);
                }
                return;
            }
            let mid = cases.len() / 2;
            run_batch(rep, &cases[..mid], base);
            run_batch(rep, &cases[mid..], base + mid);
            return;
        }
    };
    let mut fns: BTreeMap<String, Callable> = BTreeMap::new();
    for h in helper_defs() {
        fns.insert(h.name.clone(), Callable::Pure(h));
    }
    for (i, c) in cases.iter().enumerate() {
        let mut d = c.p.clone();
        d.name = format!("f{}_0", base + i);
        fns.insert(d.name.clone(), Callable::Pure(d));
    }
    let globals = crate::c22::globals();
    let recalls = BTreeMap::new();
    for (i, c) in cases.iter().enumerate() {
        rep.count("programs", 1);
        rep.count("states", 1);
        rep.count("dead_slots", c.dead_slots as u64);
        if c.nested {
            rep.count("programs_nested_two_deep", 1);
        }
        let vargs: Vec<Value> = c.args.iter().map(vmrun::to_value).collect();
        let mut steps = 0u64;
        let mut io_p = RecIo::new();
        let out_p = vmrun::run_function(&machine, &mut io_p, &format!("f{}_0", base + i), &vargs, &mut steps);
        let mut io_r = RecIo::new();
        let replaced_fn = if c.cond_family { format!("f{}_0", base + i) } else { format!("f{}_1", base + i) };
        let out_r = vmrun::run_function(&machine, &mut io_r, &replaced_fn, &vargs, &mut steps);
        if c.cond_family {
            rep.count("condition_shape_cases", 1);
        }
        rep.count("transitions", steps);
        rep.count("traces_validated_against_impl", 2);
        let log_p = io_p.ffi_log.borrow().clone();
        let log_r = io_r.ffi_log.borrow().clone();
        let replay = || json!({"case": c.key});
        rep.count("disagreements_checked", 3);
        // (a) the statement's oracle
        if out_p != out_r || log_p != log_r {
            rep.outcome("differs_from_replaced_program", 1);
            rep.violation(
                c.key.clone(),
                format!("dead code influenced the run: P gave {out_p:?} log {log_p:?}; with dead slots replaced by constants: {out_r:?} log {log_r:?}"),
                replay(),
            );
            continue;
        }
        // (b) by construction
        let KV::I(want) = c.want else { unreachable!() };
        if out_p != Outcome::Normal(Some(Value::Int(want))) || log_p != c.want_log {
            rep.outcome("differs_from_construction", 1);
            rep.violation(
                c.key.clone(),
                format!("expected value {want} with foreign-call log {:?}; VM gave {out_p:?} log {log_p:?}", c.want_log),
                replay(),
            );
            continue;
        }
        // (c) reference interpreter
        let mut it = Interp::new(&fns, &globals, &recalls);
        it.ffi = Some(vmrun::probe_model);
        let r = it.call_fn(&format!("f{}_0", base + i), c.args.clone());
        if r != Ok(Val::Int(want)) || it.ffi_log != c.want_log {
            rep.outcome("interpreter_differs", 1);
            rep.violation(
                c.key.clone(),
                format!("reference interpreter gives {r:?} log {:?}, construction says {want} {:?}", it.ffi_log, c.want_log),
                replay(),
            );
            continue;
        }
        rep.count("agree", 1);
        rep.outcome(&format!("live_probes_{}", c.want_log.len()), 1);
    }
}

/// Every `stride`-th C23 batch document (used by C28 as corpus).
pub fn corpus_docs(stride: usize) -> Vec<String> {
    let all = cases(Tier::Quick);
    let refs: Vec<&Case> = all.iter().collect();
    refs.chunks(100).enumerate().filter(|(i, _)| i % stride == 0).map(|(i, c)| doc_text(c, i * 100)).collect()
}

pub fn run(args: &Args) {
    let mut rep = Report::new(args, Level::ModelChecking);
    rep.set_max_samples(8);
    let mut all = cases(args.tier);
    if let Some(path) = &args.replay {
        let body: mcx::Value = std::fs::read_to_string(path)
            .ok()
            .and_then(|s| mcx::serde_json::from_str(&s).ok())
            .unwrap_or_else(|| mcx::machinery_error("cannot read replay file"));
        let key = body["key"].as_str().unwrap_or("").to_string();
        all = cases(Tier::Thorough).into_iter().filter(|c| c.key == key).collect();
        if all.is_empty() {
            mcx::machinery_error("replay case is not in the enumerated space");
        }
    }
    for c in all.iter().step_by((all.len() / 6).max(1)).take(6) {
        rep.sample(json!({"case": c.key, "expected_value": format!("{:?}", c.want), "expected_log": c.want_log}));
    }
    let refs: Vec<&Case> = all.iter().collect();
    const B: usize = 100;
    let chunks: Vec<(usize, &[&Case])> = refs.chunks(B).enumerate().map(|(i, c)| (i * B, c)).collect();
    let workers: Vec<Report> = chunks
        .par_iter()
        .map(|(base, chunk)| {
            let mut w = rep.worker();
            run_batch(&mut w, chunk, *base);
            w
        })
        .collect();
    for w in workers {
        rep.absorb(w);
    }
    rep.set("exhaustive", args.replay.is_none());
    rep.set("fillers", "todo(), test_fail(), helper with failing check, foreign call probe::hit, helper falling off a match on None, return -999");
    rep.set("condition_shapes", "conditions X&&Y, X||Y, !(X&&Y), !(X||Y) over 14 atoms (==, !=, <, >, <=, >=, !b, b, is None, is Some, true, false, probe true/false) and six three-operand nestings over 7 (thorough 14) atoms, in the condition of if-else, if without else, else-if, if-expression, check and match-on-bool, under every distinct behaviour of 12 argument assignments; both branches are probes");
    rep.set("bounds", "every construct kind × every selector value × {selector as parameter, as literal} × every slot holding one nested construct (every kind × selector) × 6 fillers × bool payload");
    rep.assume("the harness FFI module `probe` logs exactly the foreign calls the VM makes (MachineIO::call)");
    if args.replay.is_none() {
        rep.require_nonzero("agree");
        rep.require_nonzero("programs_nested_two_deep");
        rep.require_nonzero("dead_slots");
        rep.require_nonzero("condition_shape_cases");
    }
    rep.finish()
}
