//! C24 — policies the compiler accepts do not go wrong.
//!
//! Space: (1) the whole C22 program corpus; (2) *edge* families that are not required to be
//! well-typed by the harness — the compiler decides, and whatever it accepts is run on every
//! argument tuple: match patterns (every ordered choice of 1–2 alternatives per arm from a
//! per-type pattern alphabet incl. bindings, literals, None, default; as expression and statement;
//! binders used or not), diverging / `None` / `return` operands in every operand position of every
//! operator, every operator over every pair of differently-typed operands, struct composition
//! with every source, scoping shapes, fact queries / counts / map loops over three fact schemas
//! and four stores, actions with publish and action calls; (3) the C30 command policies
//! (policy/recall/finish) as programs.
//!
//! Oracle: the run ends Normal / Check / Panic / Yield or with an I/O-class error; a MachineError
//! of kind InvalidType, UnresolvedTarget, InvalidAddress, StackUnderflow, NotDefined,
//! AlreadyDefined, InvalidStructMember, InvalidSchema, BadState, CallStack, InvalidInstruction or
//! Bug is a violation (StackOverflow is excepted by the statement).

use aranya_policy_vm::{ident, FactKey, FactValue, HashableValue, Machine, Value};
use mcx::{json, rayon::prelude::*, Args, Level, Report, Tier};

use crate::{
    c22::{self, Mode},
    c30,
    gen::{self, Gen},
    lang::*,
    vmrun::{self, Ffi, Outcome, RecIo},
};

struct Edge {
    /// declarations besides PRELUDE/HELPERS
    extra_decls: &'static str,
    /// full text of `function f(...) … { … }` or an action named `f`
    text: String,
    family: &'static str,
    kind: EdgeKind,
    /// For the pattern family: the shape of the first arm that mixes a binding pattern with other
    /// alternatives (literals abstracted). Violations of such programs are keyed by this shape —
    /// one stable key per root cause instead of one per enumerated program.
    class_key: Option<String>,
}

#[derive(Clone, PartialEq)]
enum EdgeKind {
    Function,
    /// action f(x int, s string, b bool)
    Action,
    /// function f(<own parameters>) run on each of these argument lists
    FunctionArgs(Vec<Vec<Value>>),
    /// action f() without parameters
    Action0,
    /// command Cmd { fields { x int } … } run with this.x = 0 and 1
    Command,
}

fn sig() -> String {
    PARAMS.iter().map(|(n, t)| format!("{n} {}", t.text())).collect::<Vec<_>>().join(", ")
}

fn fun(ret: &str, body: &str, family: &'static str) -> Edge {
    Edge { extra_decls: "", text: format!("function f({}) {ret} {{ {body} }}", sig()), family, kind: EdgeKind::Function, class_key: None }
}

// ---------------------------------------------------------------------------------------------
// E1: match patterns

struct PatAlpha {
    scrutinee: &'static str,
    /// (pattern text, binder introduced)
    pats: Vec<(&'static str, Option<&'static str>)>,
}

fn pattern_alphabets() -> Vec<PatAlpha> {
    vec![
        PatAlpha {
            scrutinee: "oi",
            pats: vec![("Some(v)", Some("v")), ("Some(w)", Some("w")), ("Some(1)", None), ("Some(2)", None), ("None", None)],
        },
        PatAlpha {
            scrutinee: "ob",
            pats: vec![("Some(v)", Some("v")), ("Some(true)", None), ("Some(false)", None), ("None", None)],
        },
        PatAlpha {
            scrutinee: "os",
            pats: vec![("Some(v)", Some("v")), ("Some(S { a: 1, b: false })", None), ("None", None)],
        },
        PatAlpha {
            scrutinee: "r",
            pats: vec![
                ("Ok(v)", Some("v")),
                ("Ok(w)", Some("w")),
                ("Ok(1)", None),
                ("Err(v)", Some("v")),
                ("Err(u)", Some("u")),
                ("Err(true)", None),
                ("Err(false)", None),
            ],
        },
        PatAlpha { scrutinee: "x", pats: vec![("0", None), ("1", None), ("-1", None), ("g", None), ("v", Some("v"))] },
        PatAlpha { scrutinee: "e", pats: vec![("E::A", None), ("E::B", None), ("E::C", None)] },
        PatAlpha { scrutinee: "b", pats: vec![("true", None), ("false", None)] },
        PatAlpha {
            scrutinee: "st",
            pats: vec![("S { a: 1, b: false }", None), ("S { b: false, a: 1 }", None), ("S { a: x, b: true }", None)],
        },
        PatAlpha { scrutinee: "None", pats: vec![("Some(v)", Some("v")), ("Some(1)", None), ("None", None)] },
        PatAlpha { scrutinee: "Some(x)", pats: vec![("Some(v)", Some("v")), ("Some(1)", None), ("None", None)] },
        PatAlpha { scrutinee: "Ok(x)", pats: vec![("Ok(v)", Some("v")), ("Ok(1)", None), ("Err(u)", Some("u")), ("Err(true)", None)] },
        PatAlpha { scrutinee: "Err(b)", pats: vec![("Ok(v)", Some("v")), ("Ok(1)", None), ("Err(u)", Some("u")), ("Err(true)", None)] },
        // the same never-typed scrutinee types, but computed or let-bound instead of literal
        PatAlpha { scrutinee: "(if b { :Err(true) } else { :Err(false) })", pats: vec![("Ok(v)", Some("v")), ("Ok(1)", None), ("Err(u)", Some("u")), ("Err(true)", None), ("Err(false)", None)] },
        PatAlpha { scrutinee: "{ let r9 = if b { :Err(true) } else { :Err(false) } :r9 }", pats: vec![("Ok(v)", Some("v")), ("Err(u)", Some("u")), ("Err(true)", None), ("Err(false)", None)] },
        PatAlpha { scrutinee: "(if b { :None } else { :None })", pats: vec![("Some(v)", Some("v")), ("Some(1)", None), ("None", None)] },
        PatAlpha { scrutinee: "todo()", pats: vec![("Some(v)", Some("v")), ("None", None), ("1", None)] },
    ]
}

fn pat_shape(p: &str, binder: bool) -> String {
    // abstract literals and binder names: Some(v) -> Some(<bind>), Some(1) -> Some(<lit>)
    match p.find('(') {
        Some(i) if p.ends_with(')') && !p.starts_with("S ") => {
            format!("{}({})", &p[..i], if binder { "<bind>" } else { "<lit>" })
        }
        _ if binder => "<bind>".to_string(),
        _ if p == "None" => "None".to_string(),
        _ => "<lit>".to_string(),
    }
}

fn e1_patterns(out: &mut Vec<Edge>, tier: Tier) {
    for a in pattern_alphabets() {
        // arm alternatives: ordered selections of 1..=2 distinct patterns
        let mut arms: Vec<Vec<usize>> = Vec::new();
        for i in 0..a.pats.len() {
            arms.push(vec![i]);
            for j in 0..a.pats.len() {
                if i != j {
                    arms.push(vec![i, j]);
                }
            }
        }
        let mut arm_lists: Vec<Vec<&Vec<usize>>> = Vec::new();
        for a1 in &arms {
            arm_lists.push(vec![a1]);
            for a2 in &arms {
                // quick: at most one arm of the two has alternatives
                if tier == Tier::Quick && a1.len() > 1 && a2.len() > 1 {
                    continue;
                }
                arm_lists.push(vec![a1, a2]);
            }
        }
        for al in &arm_lists {
            for default in [false, true] {
                // body modes: 0 = constants, 1 = use first binder of the arm, 2 = use last binder
                for mode in 0..3 {
                    let mut uses_binder = false;
                    let mut arm_texts_e = Vec::new();
                    let mut arm_texts_s = Vec::new();
                    for (k, arm) in al.iter().enumerate() {
                        let pat = arm.iter().map(|i| a.pats[*i].0).collect::<Vec<_>>().join(" | ");
                        let binders: Vec<&str> = arm.iter().filter_map(|i| a.pats[*i].1).collect();
                        let b = match mode {
                            1 => binders.first(),
                            2 => binders.last(),
                            _ => None,
                        };
                        let body = match b {
                            Some(v) => {
                                uses_binder = true;
                                format!("(if {v} == {v} {{ :{k} }} else {{ :9 }})")
                            }
                            None => format!("{k}"),
                        };
                        arm_texts_e.push(format!("{pat} => {body}"));
                        arm_texts_s.push(format!("{pat} => {{ return {body} }}"));
                    }
                    if mode > 0 && !uses_binder {
                        continue;
                    }
                    if default {
                        arm_texts_e.push("_ => 7".into());
                        arm_texts_s.push("_ => { return 7 }".into());
                    }
                    let mixed = al.iter().find(|arm| arm.len() > 1 && arm.iter().any(|i| a.pats[*i].1.is_some())).map(|arm| {
                        arm.iter().map(|i| pat_shape(a.pats[*i].0, a.pats[*i].1.is_some())).collect::<Vec<_>>().join(" | ")
                    });
                    let has_binder = al.iter().any(|arm| arm.iter().any(|i| a.pats[*i].1.is_some()));
                    // scrutinees with a never-typed component are keyed by the literal of the same type,
                    // so that computed forms map to the same root-cause key
                    let never_class = match a.scrutinee {
                        "None" | "Some(x)" | "Ok(x)" | "Err(b)" => Some(a.scrutinee),
                        sc if sc.contains(":Err(true)") => Some("Err(b)"),
                        sc if sc.contains(":None") => Some("None"),
                        _ => None,
                    };
                    let literal_scrutinee = never_class.is_some();
                    let class_key = match mixed {
                        Some(shape) => {
                            let _ = shape;
                            Some("match arm whose `|` alternation contains a binding pattern".to_string())
                        }
                        None if has_binder && literal_scrutinee && !default => Some(format!(
                            "match on `{}` with a binding pattern accepted although no arm covers every value",
                            never_class.unwrap_or(a.scrutinee)
                        )),
                        None => None,
                    };
                    let mut e = fun("int", &format!("return match {} {{ {} }}", a.scrutinee, arm_texts_e.join(" ")), "match_expr_patterns");
                    e.class_key = class_key.clone();
                    out.push(e);
                    let mut e = fun("int", &format!("match {} {{ {} }} return 8", a.scrutinee, arm_texts_s.join(" ")), "match_stmt_patterns");
                    e.class_key = class_key;
                    out.push(e);
                }
            }
        }
    }
}

// ---------------------------------------------------------------------------------------------
// E2: diverging / None / return operands in every position of every operator

fn e2_positions(out: &mut Vec<Edge>) {
    let g = Gen::new();
    let names = gen::Names::new_at(900_000);
    for o in &g.ops {
        for pos in 0..o.args.len() {
            let fillers = vec![
                Expr::Todo,
                Expr::None_,
                Expr::Some_(Box::new(Expr::Todo)),
                Expr::Some_(Box::new(Expr::None_)),
                Expr::Ok_(Box::new(Expr::Todo)),
                Expr::Ret(Box::new(Expr::Todo)),
                Expr::Block(vec![Stmt::Let("zz".into(), Expr::Todo)], Box::new(Expr::Var("zz".into()))),
            ];
            for f in fillers {
                let mut args = Vec::new();
                let mut ok = true;
                for (k, t) in o.args.iter().enumerate() {
                    if k == pos {
                        args.push(f.clone());
                    } else {
                        match gen::small_leaves(*t).first() {
                            Some(l) => args.push(l.clone()),
                            None => ok = false,
                        }
                    }
                }
                if !ok {
                    continue;
                }
                let e = (o.build)(&names, args);
                let def = FnDef {
                    name: "f".into(),
                    params: PARAMS.iter().map(|(n, t)| (n.to_string(), *t)).collect(),
                    ret: o.ret,
                    body: vec![Stmt::Return(e)],
                };
                out.push(Edge { extra_decls: "", text: print_fn(&def), family: "operand_positions", kind: EdgeKind::Function, class_key: None });
            }
        }
    }
}

// ---------------------------------------------------------------------------------------------
// E3: every operator over every pair of operand kinds

fn e3_cross_types(out: &mut Vec<Edge>) {
    let leaves: Vec<&str> = vec![
        "x", "b", "s", "i", "e", "st", "(st as S2)", "tt", "oi", "ob", "os", "r", "None", "Ok(1)", "Err(true)", "todo()", "Some(None)", "g",
    ];
    for a in &leaves {
        for op in ["!{a}", "{a} is Some", "{a} is None", "{a}.a", "{a}.c", "{a} substruct S", "{a} substruct T", "{a} substruct S2", "{a} as S", "{a} as S2", "{a} as T", "h_int({a})", "h_neg({a})", "Some({a})", "Ok({a})", "Err({a})", "E::A == {a}"] {
            let e = op.replace("{a}", a);
            out.push(fun("int", &format!("let v = {e} return 0"), "unary_any_type"));
        }
        for ret in Ty::ALL {
            out.push(fun(ret.text(), &format!("return {a}"), "return_any_type"));
        }
        for b in &leaves {
            for op in [
                "{a} == {b}", "{a} != {b}", "{a} < {b}", "{a} >= {b}", "{a} && {b}", "{a} || {b}", "{a} or {b}", "add({a}, {b})",
                "saturating_sub({a}, {b})", "h_s({a}, {b})", "if b { :{a} } else { :{b} }", "match x { 0 => {a} _ => {b} }",
                "S { a: {a}, b: {b} }", "if {a} { :{b} } else { :{b} }",
            ] {
                let e = op.replace("{a}", a).replace("{b}", b);
                out.push(fun("int", &format!("let v = {e} return 0"), "binary_any_types"));
            }
        }
    }
    // struct composition with every variable as a source, one or two sources, overlapping or not
    let vars: Vec<&str> = PARAMS.iter().map(|(n, _)| *n).chain(["g"]).collect();
    for base in ["S { ", "S { a: 1, ", "S { a: 1, b: true, ", "T { ", "T { c: \"a\", ", "T { a: 1, b: true, ", "S2 { b: true, "] {
        for v1 in &vars {
            out.push(fun("int", &format!("let v = {base}...{v1} }} return 0"), "struct_composition"));
            for v2 in ["st", "tt"] {
                out.push(fun("int", &format!("let v = {base}...{v1}, ...{v2} }} return 0"), "struct_composition"));
            }
        }
    }
    // struct literals that leave fields out, and what can then be done with the value
    for lit in ["S { }", "S { a: 1 }", "S { b: true }", "T { a: 1 }", "T { c: s, b: b }", "S2 { a: x }"] {
        for usage in [
            "return v.a", "if v.b { return 1 } return 0", "let w = v substruct S return 0", "let w = v substruct S2 return 0",
            "let w = v as S2 return 0", "let w = v as S return 0", "if v == st { return 1 } return 0", "let w = T { c: s, ...v } return w.a",
            "let w = S { ...v } if w.b { return 1 } return 0", "let w = Some(v) match w { Some(q) => { return q.a } None => { return 0 } }",
            "return h_int(v.a)",
        ] {
            let mut e = fun("int", &format!("let v = {lit} {usage}"), "struct_literal_missing_fields");
            e.class_key = Some("struct literal that omits declared fields".to_string());
            out.push(e);
        }
    }
    // two and three sources over structs with disjoint fields, every order, complete and incomplete
    for srcs in ["...pa, ...qb", "...qb, ...pa", "...pa, ...qb, ...rc", "...rc, ...qb, ...pa", "...qb, ...rc, ...pa", "...pa, ...pa", "...pa, ...st"] {
        for base in ["W { z: 1, ", "W { r: s, z: 1, ", "W { ", "W { p: 1, z: 1, "] {
            out.push(fun(
                "int",
                &format!("let pa = P {{ p: x }} let qb = Q {{ q: b }} let rc = R {{ r: s }} let v = {base}{srcs} }} return saturating_add(v.p, v.z)"),
                "struct_composition",
            ));
        }
    }
    // a global constant struct that leaves a field out
    for usage in ["return gs.a", "if gs.b { return 1 } return 0", "let w = gs substruct S2 return 0"] {
        out.push(Edge {
            extra_decls: "let gs = S { a: 1 }\n",
            text: format!("function f({}) int {{ {usage} }}", sig()),
            family: "struct_literal_missing_fields",
            kind: EdgeKind::Function,
            class_key: Some("struct literal that omits declared fields".to_string()),
        });
    }
    out.push(fun("int", "let w = st as S2 let v = S { ...w } return v.a", "struct_composition"));
    out.push(fun("int", "let w = st as S2 let v = T { c: s, ...w } return v.a", "struct_composition"));
}

// ---------------------------------------------------------------------------------------------
// E4: scoping shapes

fn e4_scoping(out: &mut Vec<Edge>) {
    let bodies = [
        "let v = 1 let v = 2 return v",
        "let x = 1 return x",
        "let g = 1 return g",
        "if b { let v = 1 } let v = 2 return v",
        "if b { let v = 1 } else { let v = 2 } return 0",
        "if b { let v = 1 } return v",
        "let v = 1 if b { let v = 2 return v } return v",
        "let v = { let w = 1 :w } let w = 2 return saturating_add(v, w)",
        "let w = 2 let v = { let w = 1 :w } return v",
        "let v = { let w = 1 :w } return w",
        "let v = { let w = { let u = 1 :u } :w } let u = 3 return saturating_add(u, v)",
        "match oi { Some(v) => { let w = v } None => { let w = 0 } } let w = 5 return w",
        "match oi { Some(v) => { return v } None => { } } return v",
        "match oi { Some(x) => { return x } None => { } } return 0",
        "match oi { Some(g) => { return g } None => { } } return 0",
        "let v = 1 match oi { Some(v) => { return v } None => { } } return v",
        "match oi { Some(v) => { match ob { Some(v) => { return 1 } None => { } } } None => { } } return 0",
        "match oi { Some(v) => { match r { Ok(w) => { return saturating_add(v, w) } Err(u) => { return v } } } None => { } } return 0",
        "let v = match oi { Some(v) => v None => 0 } return v",
        "let v = match oi { Some(w) => w None => 0 } let w = 1 return saturating_add(v, w)",
        "let v = match oi { Some(w) => w None => 0 } return w",
        "let v = if b { :{ let w = 1 :w } } else { :{ let w = 2 :w } } return v",
        "let v = if b { :{ let w = 1 :w } } else { :w } return v",
        "return { let v = 1 :{ let v = 2 :v } }",
        "return { let v = 1 :{ let w = v :w } }",
        "check b else return { let v = 1 :v } let v = 2 return v",
        "let v = h_int({ let k = 1 :k }) let k = 2 return saturating_add(v, k)",
        "let v = h_early({ let k = 0 :k }) return v",
        "if b { return 1 } else if c { let v = 2 return v } else { let v = 3 return v }",
        "match x { 0 => { let v = 1 return v } 1 => { let v = 2 return v } _ => { let v = 3 return v } }",
        "let v = 1 let u = { let t1 = v :{ let t2 = t1 :t2 } } return u",
        "let this = 1 return this",
        "let envelope = 1 return envelope",
        "return this",
        "return envelope",
        "debug_assert({ let v = b :v }) let v = 1 return v",
        "let v = add(x, y) match v { Some(n) => { return n } None => { return 0 } }",
        "match add(x, y) { Some(v) | None => { return 1 } }",
        "let v = h_chain(h_chain(h_chain(x))) return v",
        "return h_int(h_int(h_int(h_int(h_int(h_int(h_int(h_int(x))))))))",
    ];
    for b in bodies {
        let mut e = fun("int", b, "scoping");
        if b.contains("Some(v) | None") {
            e.class_key = Some("match arm whose `|` alternation contains a binding pattern".to_string());
        }
        out.push(e);
    }
    // a binding used inside the header of the very construct that introduces it
    let self_ref = [
        "let v = h_int(v) return v",
        "let v = saturating_add(v, 1) return v",
        "let v = { let w = v :w } return v",
        "let v = { let v = 1 :v } return v",
        "let v = if b { :v } else { :1 } return v",
        "let v = match oi { Some(q) => q None => v } return v",
        "let v = S { a: 1, ...v } return v.a",
        "let v = Some(v) return 0",
        "return { let w = w :1 }",
        "match v { Some(v) => { return v } None => { return 0 } }",
        "match Some(v) { Some(v) => { return v } None => { return 0 } }",
        "match oi { Some(v) => { return v } Some(v) => { return 1 } None => { return 0 } }",
        "return match q { Some(q) => q None => 0 }",
        "return match (q) or (1) { 0 => 0 _ => 1 }",
        "match r { Ok(v) => { return v } Err(u) => { return v } }",
        "match r { Ok(v) => { return 0 } Err(v) => { if v { return 1 } return 2 } }",
        "return match oi { Some(v) => 0 None => v }",
        "if v == 1 { let v = 1 return v } return 0",
        "check v == 1 else return 0 let v = 1 return v",
        "let w = v let v = 1 return w",
    ];
    for b in self_ref {
        out.push(fun("int", b, "self_referential_bindings"));
    }
    for (lit, body) in [
        ("F[k: q.v]", "publish Cmd { a: q.v }"),
        ("F[k: q.k]", "publish Cmd { a: q.v }"),
        ("F[k: ?]=>{v: q.v}", "publish Cmd { a: q.v }"),
        ("F[k: saturating_add(q.v, 1)]", "publish Cmd { a: 1 }"),
        ("G[k: q.s, n: ?]", "publish Cmd { a: q.n }"),
        ("G[k: s, n: q.n]", "publish Cmd { a: q.n }"),
        ("G[k: s, n: ?]=>{w: q.w, s: ?}", "publish Cmd { a: 1 }"),
        ("H[e: q.e, i: ?]", "publish Cmd { a: 1 }"),
        ("F[k: ?]", "map F[k: q2.v] as q2 { publish Cmd { a: q2.v } }"),
        ("F[k: ?]", "map F[k: q.v] as q2 { publish Cmd { a: q2.v } }"),
        ("F[k: ?]", "map F[k: q.v] as q { publish Cmd { a: q.v } }"),
        ("F[k: x]", "let q3 = query F[k: q3.v] publish Cmd { a: 1 }"),
        ("F[k: x]", "match query F[k: z.v] { Some(z) => { publish Cmd { a: z.v } } None => { } }"),
        ("F[k: x]", "if exists F[k: q.v] { publish Cmd { a: 1 } }"),
    ] {
        out.push(Edge {
            extra_decls: FACT_DECLS,
            text: format!("action f(x int, s string, b bool) {{ map {lit} as q {{ {body} }} }}"),
            family: "self_referential_bindings",
            kind: EdgeKind::Action,
            class_key: None,
        });
        out.push(Edge {
            extra_decls: FACT_DECLS,
            text: format!("action f(x int, s string, b bool) {{ map {lit} as q {{ {body} }} map {lit} as q {{ {body} }} }}"),
            family: "self_referential_bindings",
            kind: EdgeKind::Action,
            class_key: None,
        });
    }
    // the same name as a function parameter of a called function, recursion-free chains
    out.push(Edge {
        extra_decls: "function k1(v int) int { let w = k2(v) return w }\nfunction k2(v int) int { let w = k3(v) return w }\nfunction k3(w int) int { return w }\n",
        text: format!("function f({}) int {{ let w = k1(x) let v = k1(w) return v }}", sig()),
        family: "scoping",
        kind: EdgeKind::Function,
        class_key: None,
    });
    // direct and mutual recursion (accepted; ends by argument or by stack exhaustion, which the statement excepts)
    out.push(Edge {
        extra_decls: "function down(v int) int { if v <= 0 { return 0 } return down(saturating_sub(v, 1)) }\n",
        text: format!("function f({}) int {{ return down(if x > 50 {{ :50 }} else {{ :x }}) }}", sig()),
        family: "scoping",
        kind: EdgeKind::Function,
        class_key: None,
    });
}

// ---------------------------------------------------------------------------------------------
// E5: facts, queries, counts, map, actions with publish

const FACT_DECLS: &str = "\
fact F[k int]=>{v int}
fact G[k string, n int]=>{w bool, s string}
fact H[e enum E, i id]=>{o option[int], t struct S}
effect Eff { a int }
command Cmd { fields { a int } seal { return todo() } open { return todo() } policy { finish { emit Eff { a: this.a } } } }
ephemeral command ECmd { fields { a int } seal { return todo() } open { return todo() } policy { finish { } } }
action other(n int) { publish Cmd { a: n } }
";

fn e5_facts(out: &mut Vec<Edge>) {
    let lits = [
        "F[k: x]", "F[k: ?]", "F[k: x]=>{v: ?}", "F[k: x]=>{v: y}", "F[k: ?]=>{v: 1}", "F[k: 1]=>{v: ?}", "F[k: todo()]", "F[k: s]", "F[k: None]",
        "F[k: x]=>{v: None}", "F[]", "F[k: x, k: x]", "F[v: x]",
        "G[k: s, n: x]", "G[k: s, n: ?]", "G[k: ?, n: ?]", "G[k: ?, n: x]", "G[k: s, n: ?]=>{w: b, s: ?}", "G[k: s, n: x]=>{w: ?, s: s}",
        "G[k: s, n: x]=>{s: s, w: b}", "G[k: s]", "G[n: x, k: s]", "G[k: x, n: s]",
        "H[e: e, i: i]", "H[e: e, i: ?]", "H[e: ?, i: ?]", "H[e: E::A, i: i]=>{o: oi, t: st}", "H[e: e, i: i]=>{o: None, t: ?}",
        "H[e: e, i: i]=>{o: Some(1), t: S { a: 1, b: true }}", "H[e: 0, i: i]", "H[e: e, i: x]", "H[e: e, i: i]=>{o: x, t: ?}", "H[e: e, i: i]=>{o: ?, t: tt}",
        "Nope[k: x]",
    ];
    let ret_of = |fact: &str| match fact.chars().next() {
        Some('F') => ("(q.v)", "F"),
        Some('G') => ("(if q.w { :1 } else { :0 })", "G"),
        _ => ("((q.o) or (q.t.a))", "H"),
    };
    for l in lits {
        let (use_q, _) = ret_of(l);
        out.push(Edge { extra_decls: FACT_DECLS, text: format!("function f({}) int {{ let r0 = query {l} match r0 {{ Some(q) => {{ return {use_q} }} None => {{ return -1 }} }} }}", sig()), family: "fact_queries", kind: EdgeKind::Function, class_key: None });
        out.push(Edge { extra_decls: FACT_DECLS, text: format!("function f({}) int {{ if exists {l} {{ return 1 }} return 0 }}", sig()), family: "fact_queries", kind: EdgeKind::Function, class_key: None });
        for n in ["1", "2", "0", "-1", "9223372036854775807"] {
            out.push(Edge { extra_decls: FACT_DECLS, text: format!("function f({}) int {{ return count_up_to {n} {l} }}", sig()), family: "fact_counts", kind: EdgeKind::Function, class_key: None });
            for c in ["at_least", "at_most", "exactly"] {
                out.push(Edge { extra_decls: FACT_DECLS, text: format!("function f({}) int {{ if {c} {n} {l} {{ return 1 }} return 0 }}", sig()), family: "fact_counts", kind: EdgeKind::Function, class_key: None });
            }
        }
        // map loops in actions (action parameters: x int, s string, b bool)
        let la = l.replace("y", "x").replace("oi", "None").replace("st", "S { a: 1, b: true }").replace("tt", "S { a: 1, b: true }").replace("e:", "e: E::A,").replace("e: E::A, e", "e: E::A").replace("i: i", "i: ?");
        for body in [
            format!("map {la} as q {{ publish Cmd {{ a: 1 }} }}"),
            format!("map {la} as q {{ let t = q publish Cmd {{ a: x }} }}"),
            format!("map {la} as q {{ map F[k: ?] as q2 {{ publish Cmd {{ a: q2.v }} }} }}"),
            format!("map {la} as q {{ map F[k: ?] as q {{ publish Cmd {{ a: 1 }} }} }}"),
            format!("map {la} as q {{ action other(x) }}"),
            format!("map {la} as q {{ if b {{ publish Cmd {{ a: 1 }} }} }} publish Cmd {{ a: 2 }}"),
        ] {
            out.push(Edge { extra_decls: FACT_DECLS, text: format!("action f(x int, s string, b bool) {{ {body} }}"), family: "map_loops", kind: EdgeKind::Action, class_key: None });
        }
    }
    for body in [
        "publish Cmd { a: x }",
        "publish Cmd { a: x } publish Cmd { a: 2 }",
        "publish ECmd { a: x }",
        "publish Eff { a: x }",
        "publish S { a: x, b: b }",
        "publish Cmd { a: s }",
        "publish Cmd { }",
        "publish todo()",
        "let c = Cmd { a: x } publish c",
        "action other(x)",
        "action other(s)",
        "action other(x, x)",
        "action f(x, s, b)",
        "action nope(x)",
        "if b { action other(x) } else { publish Cmd { a: 0 } }",
        "match x { 0 => { publish Cmd { a: 0 } } _ => { action other(x) } }",
        "check b else todo() publish Cmd { a: 1 }",
        "let q = query F[k: x] match q { Some(z) => { publish Cmd { a: z.v } } None => { } }",
        "return Ok(Unit)",
        "return 1",
        "finish { }",
        "emit Eff { a: 1 }",
        "create F[k: 1]=>{v: 1}",
    ] {
        let ck = if body == "publish Cmd { }" { Some("struct literal that omits declared fields".to_string()) } else { None };
        out.push(Edge { extra_decls: FACT_DECLS, text: format!("action f(x int, s string, b bool) {{ {body} }}"), family: "actions", kind: EdgeKind::Action, class_key: ck.clone() });
        out.push(Edge {
            extra_decls: FACT_DECLS,
            text: format!("action f(x int, s string, b bool) result[unit, int] {{ {body} return Ok(Unit) }}"),
            family: "actions",
            kind: EdgeKind::Action,
            class_key: ck,
        });
        out.push(Edge {
            extra_decls: FACT_DECLS,
            text: format!("ephemeral action f(x int, s string, b bool) {{ {body} }}"),
            family: "actions",
            kind: EdgeKind::Action,
            class_key: None,
        });
    }
}

// ---------------------------------------------------------------------------------------------
// E6: several arms binding the same variant under different names, over finite scrutinee types

fn e6_binding_arms(out: &mut Vec<Edge>, tier: Tier) {
    let unit = Value::Unit;
    let b = Value::Bool;
    let some = |v: Value| Value::Option(Some(Box::new(v)));
    let ok = |v: Value| Value::Result(Ok(Box::new(v)));
    let err = |v: Value| Value::Result(Err(Box::new(v)));
    let en = |k: i64| Value::Enum(ident!("E"), k);
    // (type text, patterns (text, binder), all argument values)
    let types: Vec<(&str, Vec<(&str, Option<&str>)>, Vec<Value>)> = vec![
        (
            "option[bool]",
            vec![("Some(x)", Some("x")), ("Some(y)", Some("y")), ("Some(z)", Some("z")), ("Some(true)", None), ("Some(false)", None), ("None", None)],
            vec![Value::Option(None), some(b(true)), some(b(false))],
        ),
        ("option[unit]", vec![("Some(x)", Some("x")), ("Some(y)", Some("y")), ("Some(Unit)", None), ("None", None)], vec![Value::Option(None), some(unit.clone())]),
        (
            "option[enum E]",
            vec![("Some(x)", Some("x")), ("Some(y)", Some("y")), ("Some(z)", Some("z")), ("Some(w)", Some("w")), ("Some(E::A)", None), ("None", None)],
            vec![Value::Option(None), some(en(0)), some(en(2))],
        ),
        (
            "result[unit, unit]",
            vec![("Ok(x)", Some("x")), ("Ok(y)", Some("y")), ("Err(x)", Some("x")), ("Err(e)", Some("e")), ("Ok(Unit)", None), ("Err(Unit)", None)],
            vec![ok(unit.clone()), err(unit.clone())],
        ),
        (
            "result[bool, unit]",
            vec![("Ok(x)", Some("x")), ("Ok(y)", Some("y")), ("Ok(z)", Some("z")), ("Err(e)", Some("e")), ("Ok(true)", None), ("Err(Unit)", None)],
            vec![ok(b(true)), ok(b(false)), err(unit.clone())],
        ),
        (
            "result[bool, bool]",
            vec![("Ok(x)", Some("x")), ("Ok(y)", Some("y")), ("Err(e)", Some("e")), ("Err(d)", Some("d")), ("Ok(true)", None), ("Err(false)", None)],
            vec![ok(b(true)), ok(b(false)), err(b(true)), err(b(false))],
        ),
    ];
    let max_arms = tier.pick(3, 4);
    for (ty, pats, vals) in &types {
        let args: Vec<Vec<Value>> = vals.iter().map(|v| vec![v.clone()]).collect();
        // all sequences of 1..=max_arms single-pattern arms
        let mut seqs: Vec<Vec<usize>> = vec![vec![]];
        let mut all: Vec<Vec<usize>> = Vec::new();
        for _ in 0..max_arms {
            let mut next = Vec::new();
            for sq in &seqs {
                for i in 0..pats.len() {
                    let mut n = sq.clone();
                    n.push(i);
                    next.push(n);
                }
            }
            all.extend(next.iter().cloned());
            seqs = next;
        }
        for sq in &all {
            // only sequences with at least two binders (the single-binder space is in E1)
            if sq.iter().filter(|i| pats[**i].1.is_some()).count() < 2 {
                continue;
            }
            for default in [false, true] {
                let mut arms_e = Vec::new();
                let mut arms_s = Vec::new();
                for (k, i) in sq.iter().enumerate() {
                    let (p, bind) = pats[*i];
                    let body = match bind {
                        Some(v) => format!("(if {v} == {v} {{ :{k} }} else {{ :9 }})"),
                        None => format!("{k}"),
                    };
                    arms_e.push(format!("{p} => {body}"));
                    arms_s.push(format!("{p} => {{ return {body} }}"));
                }
                if default {
                    arms_e.push("_ => 7".into());
                    arms_s.push("_ => { return 7 }".into());
                }
                // same variant bound twice under different names?
                let variant = |p: &str| p.split('(').next().unwrap_or("").to_string();
                let mut dup = false;
                for (a, i) in sq.iter().enumerate() {
                    for j in &sq[..a] {
                        if pats[*i].1.is_some() && pats[*j].1.is_some() && variant(pats[*i].0) == variant(pats[*j].0) {
                            dup = true;
                        }
                    }
                }
                let ck = if dup && !default {
                    Some("=match arms that bind the same variant under different names are counted as distinct values by the exhaustiveness test".to_string())
                } else {
                    None
                };
                for (text, family) in [
                    (format!("function f(p {ty}) int {{ return match p {{ {} }} }}", arms_e.join(" ")), "binding_arms_expr"),
                    (format!("function f(p {ty}) int {{ match p {{ {} }} return 8 }}", arms_s.join(" ")), "binding_arms_stmt"),
                ] {
                    out.push(Edge { extra_decls: "", text, family, kind: EdgeKind::FunctionArgs(args.clone()), class_key: ck.clone() });
                }
            }
        }
    }
}

// ---------------------------------------------------------------------------------------------
// E6b: every subset of the patterns of a finite option/result type as arms (one pattern per arm),
// without and with a default arm; accepted programs are run on EVERY value of the type

fn e6b_pattern_subsets(out: &mut Vec<Edge>) {
    let unit = Value::Unit;
    let b = Value::Bool;
    let some = |v: Value| Value::Option(Some(Box::new(v)));
    let ok = |v: Value| Value::Result(Ok(Box::new(v)));
    let err = |v: Value| Value::Result(Err(Box::new(v)));
    let en = |k: i64| Value::Enum(ident!("E"), k);
    let ens = || vec![en(0), en(1), en(2)];
    let bools = || vec![b(true), b(false)];
    // (type, binding patterns, literal patterns, all values)
    type Row = (&'static str, Vec<(&'static str, &'static str)>, Vec<&'static str>, Vec<Value>);
    let rows: Vec<Row> = vec![
        ("option[bool]", vec![("Some(x)", "x")], vec!["Some(true)", "Some(false)", "None"], [vec![Value::Option(None)], bools().into_iter().map(some).collect()].concat()),
        ("option[enum E]", vec![("Some(x)", "x")], vec!["Some(E::A)", "Some(E::B)", "Some(E::C)", "None"], [vec![Value::Option(None)], ens().into_iter().map(some).collect()].concat()),
        ("option[unit]", vec![("Some(x)", "x")], vec!["Some(Unit)", "None"], vec![Value::Option(None), some(unit.clone())]),
        ("result[unit, unit]", vec![("Ok(x)", "x"), ("Err(e)", "e")], vec!["Ok(Unit)", "Err(Unit)"], vec![ok(unit.clone()), err(unit.clone())]),
        ("result[unit, enum E]", vec![("Ok(x)", "x"), ("Err(e)", "e")], vec!["Ok(Unit)", "Err(E::A)", "Err(E::B)", "Err(E::C)"], [vec![ok(unit.clone())], ens().into_iter().map(err).collect()].concat()),
        ("result[enum E, unit]", vec![("Ok(x)", "x"), ("Err(e)", "e")], vec!["Ok(E::A)", "Ok(E::B)", "Ok(E::C)", "Err(Unit)"], [ens().into_iter().map(ok).collect(), vec![err(unit.clone())]].concat()),
        ("result[bool, enum E]", vec![("Ok(x)", "x"), ("Err(e)", "e")], vec!["Ok(true)", "Ok(false)", "Err(E::A)", "Err(E::B)", "Err(E::C)"], [bools().into_iter().map(ok).collect::<Vec<_>>(), ens().into_iter().map(err).collect()].concat()),
        ("result[enum E, bool]", vec![("Ok(x)", "x"), ("Err(e)", "e")], vec!["Ok(E::A)", "Ok(E::B)", "Ok(E::C)", "Err(true)", "Err(false)"], [ens().into_iter().map(ok).collect::<Vec<_>>(), bools().into_iter().map(err).collect()].concat()),
        ("result[bool, bool]", vec![("Ok(x)", "x"), ("Err(e)", "e")], vec!["Ok(true)", "Ok(false)", "Err(true)", "Err(false)"], [bools().into_iter().map(ok).collect::<Vec<_>>(), bools().into_iter().map(err).collect()].concat()),
    ];
    for (ty, binds, lits, vals) in &rows {
        let args: Vec<Vec<Value>> = vals.iter().map(|v| vec![v.clone()]).collect();
        let nb = binds.len();
        let nl = lits.len();
        for bmask in 0u32..(1 << nb) {
            for lmask in 0u32..(1 << nl) {
                if bmask == 0 && lmask == 0 {
                    continue;
                }
                let bsel: Vec<(String, Option<&str>)> = (0..nb).filter(|i| bmask >> i & 1 == 1).map(|i| (binds[i].0.to_string(), Some(binds[i].1))).collect();
                let lsel: Vec<(String, Option<&str>)> = (0..nl).filter(|i| lmask >> i & 1 == 1).map(|i| (lits[i].to_string(), None)).collect();
                // bindings first (as the first arm) and bindings last
                let orders = [[bsel.clone(), lsel.clone()].concat(), [lsel.clone(), bsel.clone()].concat()];
                for (oi, arms) in orders.iter().enumerate() {
                    if oi == 1 && (bsel.is_empty() || lsel.is_empty()) {
                        continue;
                    }
                    for default in [false, true] {
                        let mut arms_e = Vec::new();
                        let mut arms_s = Vec::new();
                        for (k, (p, bind)) in arms.iter().enumerate() {
                            let body = match bind {
                                Some(v) => format!("(if {v} == {v} {{ :{k} }} else {{ :9 }})"),
                                None => format!("{k}"),
                            };
                            arms_e.push(format!("{p} => {body}"));
                            arms_s.push(format!("{p} => {{ return {body} }}"));
                        }
                        if default {
                            arms_e.push("_ => 7".into());
                            arms_s.push("_ => { return 7 }".into());
                        }
                        out.push(Edge {
                            extra_decls: "",
                            text: format!("function f(p {ty}) int {{ return match p {{ {} }} }}", arms_e.join(" ")),
                            family: "pattern_subsets_expr",
                            kind: EdgeKind::FunctionArgs(args.clone()),
                            class_key: None,
                        });
                        out.push(Edge {
                            extra_decls: "",
                            text: format!("function f(p {ty}) int {{ match p {{ {} }} return 8 }}", arms_s.join(" ")),
                            family: "pattern_subsets_stmt",
                            kind: EdgeKind::FunctionArgs(args.clone()),
                            class_key: None,
                        });
                    }
                }
            }
        }
    }
}

// ---------------------------------------------------------------------------------------------
// E7: global let values of every constant-expression kind, used in every way

fn e7_globals(out: &mut Vec<Edge>) {
    // (global value text, is a struct literal with an ill-typed field)
    let values: Vec<(&str, bool)> = vec![
        ("1", false), ("true", false), ("\"a\"", false), ("E::B", false), ("E::Z", false), ("None", false), ("Some(1)", false), ("Some(None)", false),
        ("Ok(1)", false), ("Err(true)", false), ("Unit", false), ("todo()", false), ("x", false), ("g", false), ("g2", false),
        ("add(1, 2)", false), ("if true { :1 } else { :2 }", false), ("!true", false), ("1 == 1", false),
        ("S { a: 1, b: true }", false), ("S { b: true, a: 1 }", false),
        ("S { a: \"x\", b: true }", true), ("S { a: true, b: 1 }", true), ("S { a: None, b: true }", true), ("S { a: 1, b: Some(true) }", true),
        ("S { a: E::A, b: true }", true), ("S { a: S { a: 1, b: true }, b: true }", true), ("S { a: 1, b: true, c: 3 }", false),
        ("S { a: 1, a: 2, b: true }", false), ("S { a: g, b: true }", false), ("S { a: g2.a, b: g2.b }", false), ("S { a: g2.b, b: g2.a }", true),
        ("S { a: 1, ...g2 }", false), ("T { c: \"a\", ...g2 }", false), ("T { a: 1, b: true, c: 5 }", true), ("T { a: 1, b: true, c: Some(\"a\") }", true),
        ("Some(S { a: \"x\", b: true })", true), ("Ok(S { a: true, b: true })", true), ("Nope { a: 1 }", false), ("g2.a", false), ("g2.zz", false),
        ("Some(g2)", false), ("S2 { b: 1, a: true }", true),
    ];
    let usages = [
        "return saturating_add(gv.a, 1)", "if gv.b { return 1 } return 0", "if gv.c == \"a\" { return 1 } return 0", "return saturating_add(gv, 1)",
        "if gv { return 1 } return 0", "if gv == gv { return 1 } return 0", "if gv == st { return 1 } return 0", "let w = gv substruct S return w.a",
        "let w = gv as S2 return w.a", "return (gv) or (1)", "if gv is Some { return 1 } return 0",
        "match gv { Some(q) => { return saturating_add(q.a, 1) } None => { return 0 } }",
        "match gv { Ok(q) => { return saturating_add(q.a, 1) } Err(e) => { return 0 } }",
        "match gv { Some(q) => { return saturating_add(q, 1) } None => { return 0 } }", "return h_int(gv)", "let w = h_s(gv.a, gv.b) return w.a",
        "let w = T { c: \"a\", ...gv } return w.a", "match gv { E::A => { return 1 } _ => { return 0 } }", "let gv = 1 return gv", "return 0",
    ];
    for (val, ill) in values {
        for u in usages {
            // `g2` is a well-formed global struct the candidate may refer to; `gv` is the candidate
            let decls: &'static str = Box::leak(format!("let g2 = S {{ a: 2, b: false }}\nlet gv = {val}\n").into_boxed_str());
            out.push(Edge {
                extra_decls: decls,
                text: format!("function f({}) int {{ {u} }}", sig()),
                family: "global_lets",
                kind: EdgeKind::Function,
                class_key: if ill { Some("=global let struct literal whose field values are not type-checked".to_string()) } else { None },
            });
        }
    }
}

// ---------------------------------------------------------------------------------------------
// E8: calls of every kind with every arity 0..=n+1 and every argument kind

const CALL_DECLS: &str = "\
fact F[k int]=>{v int}
effect Eff { a int }
finish function ff(p int, q bool) { emit Eff { a: p } }
command Other { fields { a int } seal { return todo() } open { return todo() } policy { finish { } } }
action other(p int, q bool) { publish Other { a: p } }
";

fn e8_calls(out: &mut Vec<Edge>) {
    let atoms = ["1", "true", "\"s\"", "None", "todo()"];
    let mut lists: Vec<Vec<&str>> = vec![vec![]];
    let mut cur: Vec<Vec<&str>> = vec![vec![]];
    for _ in 0..3 {
        let mut next = Vec::new();
        for l in &cur {
            for a in atoms {
                let mut n = l.clone();
                n.push(a);
                next.push(n);
            }
        }
        lists.extend(next.iter().cloned());
        cur = next;
    }
    for l in &lists {
        let args = l.join(", ");
        let short = l.len() < 2;
        let recall_key = if short { Some("=recall call with fewer arguments than the recall block declares".to_string()) } else { None };
        let cmd = |policy: String| {
            format!("command Cmd {{ fields {{ x int }} seal {{ return todo() }} open {{ return todo() }} policy {{ {policy} }} recall r(p int, q bool) {{ let w = saturating_add(p, 1) finish {{ emit Eff {{ a: w }} }} }} recall r0() {{ finish {{ }} }} }}")
        };
        // recall, statement and expression form
        out.push(Edge { extra_decls: CALL_DECLS, text: cmd(format!("recall r({args})")), family: "call_arities", kind: EdgeKind::Command, class_key: recall_key.clone() });
        out.push(Edge { extra_decls: CALL_DECLS, text: cmd(format!("check this.x == 0 else recall r({args}) finish {{ }}")), family: "call_arities", kind: EdgeKind::Command, class_key: recall_key.clone() });
        out.push(Edge { extra_decls: CALL_DECLS, text: cmd(format!("check this.x == 0 else recall r0({args}) finish {{ }}")), family: "call_arities", kind: EdgeKind::Command, class_key: None });
        // finish function
        out.push(Edge { extra_decls: CALL_DECLS, text: cmd(format!("finish {{ ff({args}) }}")), family: "call_arities", kind: EdgeKind::Command, class_key: None });
        // action call
        out.push(Edge { extra_decls: CALL_DECLS, text: format!("action f(x int, s string, b bool) {{ action other({args}) }}"), family: "call_arities", kind: EdgeKind::Action, class_key: None });
        // pure function, builtin
        out.push(fun("int", &format!("let v = h_s({args}) return 0"), "call_arities"));
        out.push(fun("int", &format!("let v = add({args}) return 0"), "call_arities"));
        out.push(fun("int", &format!("let v = h_int({args}) return 0"), "call_arities"));
        // struct-typed and option-typed parameters
        out.push(Edge {
            extra_decls: "function k(p struct S, q option[int], r2 result[int, bool]) int { return saturating_add(p.a, (q) or (0)) }\n",
            text: format!("function f({}) int {{ return k({args}) }}", sig()),
            family: "call_arities",
            kind: EdgeKind::Function,
            class_key: None,
        });
    }
}

// ---------------------------------------------------------------------------------------------
// E9: early exits from inside map loops, at every nesting, in called actions

const MAP_DECLS: &str = "\
fact A[i int]=>{x int}
fact B[j int]=>{y int}
effect Eff { a int }
command Cmd { fields { a int } seal { return todo() } open { return todo() } policy { finish { } } }
";

fn e9_map_exits(out: &mut Vec<Edge>) {
    // bodies of the called (fallible) action `inner`
    let inners: Vec<(&str, bool)> = vec![
        ("return Ok(Unit)", false),
        ("map B[j: ?] as b { return Ok(Unit) } return Ok(Unit)", true),
        ("map B[j: ?] as b { check b.y == 2 else return Err(1) } return Ok(Unit)", true),
        ("map B[j: ?] as b { if b.y == 1 { return Ok(Unit) } } return Ok(Unit)", true),
        ("map B[j: ?] as b { match b.y { 2 => { return Err(2) } _ => { } } } return Ok(Unit)", true),
        ("map B[j: ?] as b { map A[i: ?] as a2 { return Ok(Unit) } } return Ok(Unit)", true),
        ("map B[j: ?] as b { map A[i: ?] as a2 { if a2.x == 2 { return Ok(Unit) } } } return Ok(Unit)", true),
        ("map B[j: ?] as b { publish Cmd { a: b.y } return Ok(Unit) }  return Ok(Unit)", true),
        ("map B[j: ?] as b { check b.y == 9 else todo() } return Ok(Unit)", false),
        ("map B[j: ?] as b { let t = b.y } return Ok(Unit)", false),
        ("map B[j: 1] as b { return Ok(Unit) } return Ok(Unit)", true),
        ("map A[i: ?] as a2 { return Ok(Unit) } return Ok(Unit)", true),
    ];
    let outers = [
        "map A[i: ?] as a { let before = a.x action inner() }",
        "map A[i: ?] as a { action inner() let after = a.x publish Cmd { a: after } }",
        "action inner() map A[i: ?] as a { publish Cmd { a: a.x } }",
        "map A[i: ?] as a { map B[j: ?] as b0 { action inner() publish Cmd { a: saturating_add(a.x, b0.y) } } }",
        "map A[i: ?] as a { action inner() } map B[j: ?] as b1 { publish Cmd { a: b1.y } }",
        "map A[i: ?] as a { action mid() let after = a.x }",
        "action inner() action inner() map A[i: ?] as a { let after = a.x }",
    ];
    for (inner, leaves) in &inners {
        for outer in outers {
            let decls: &'static str = Box::leak(
                format!("{MAP_DECLS}action inner() result[unit, int] {{ {inner} }}\naction mid() {{ map B[j: ?] as bm {{ action inner() let t = bm.y }} }}\n").into_boxed_str(),
            );
            out.push(Edge {
                extra_decls: decls,
                text: format!("action f() {{ {outer} }}"),
                family: "map_early_exits",
                kind: EdgeKind::Action0,
                class_key: if *leaves { Some("=return from inside a map loop leaves its query iterator on the stack of open queries".to_string()) } else { None },
            });
        }
    }
}

// ---------------------------------------------------------------------------------------------
// E10: a callee that returns early from inside nested operands, and a caller that uses the
// returned value in a type-sensitive way (batched: 100 callee/caller pairs per document)

fn e10_pairs() -> Vec<(String, String)> {
    // (callee body text with the function named `callee`, caller consumption)
    let g = Gen::new();
    let mut out = Vec::new();
    for (ty, e) in g.never_nested() {
        let consume = match ty {
            Ty::Int => "return saturating_add(v, 1)",
            Ty::Bool => "if !v { return 1 } return 0",
            Ty::S | Ty::S2 | Ty::T => "return saturating_add(v.a, 1)",
            Ty::OptInt => "match v { Some(q) => { return saturating_add(q, 1) } None => { return 0 } }",
            Ty::ResIB => "match v { Ok(q) => { return saturating_add(q, 1) } Err(w) => { if w { return 1 } return 0 } }",
            _ => continue,
        };
        let def = FnDef {
            name: "callee".into(),
            params: PARAMS.iter().map(|(n, t)| (n.to_string(), *t)).collect(),
            ret: ty,
            body: vec![Stmt::Return(e)],
        };
        out.push((print_fn(&def), consume.to_string()));
    }
    out
}

fn run_e10_batch(rep: &mut Report, pairs: &[(String, String)], tuples: &[Vec<Value>]) {
    let call_args = PARAMS.iter().map(|(n, _)| *n).collect::<Vec<_>>().join(", ");
    let mut text = format!("{PRELUDE}{}", gen::HELPERS);
    for (k, (callee, consume)) in pairs.iter().enumerate() {
        text.push_str(&callee.replacen("function callee(", &format!("function callee{k}("), 1));
        text.push('\n');
        text.push_str(&format!("function f{k}({}) int {{ let v = callee{k}({call_args}) {consume} }}\n", sig()));
    }
    let machine = match vmrun::compile_text_quiet(&text, Ffi::None) {
        Ok(m) => Machine::from_module(m).unwrap_or_else(|_| mcx::machinery_error("module version")),
        Err(_) => {
            if pairs.len() == 1 {
                rep.count("edge_candidates", 1);
                rep.count("edge_rejected_by_compiler", 1);
                return;
            }
            let mid = pairs.len() / 2;
            run_e10_batch(rep, &pairs[..mid], tuples);
            run_e10_batch(rep, &pairs[mid..], tuples);
            return;
        }
    };
    for (k, (callee, consume)) in pairs.iter().enumerate() {
        rep.count("edge_candidates", 1);
        rep.count("edge_accepted", 1);
        rep.count("programs", 1);
        rep.count("accepted_early_return_callees", 1);
        for (ti, t) in tuples.iter().enumerate() {
            let mut io = RecIo::new();
            let mut steps = 0u64;
            let out = vmrun::run_function(&machine, &mut io, &format!("f{k}"), t, &mut steps);
            rep.count("transitions", steps);
            rep.count("states", 1);
            rep.count("traces_validated_against_impl", 1);
            rep.count("disagreements_checked", 1);
            match &out {
                Outcome::Error(kind, msg) => {
                    rep.outcome(&format!("error_{kind}"), 1);
                    if c22::internal_kind(kind) {
                        let prog = format!("{callee} function f({}) int {{ let v = callee({call_args}) {consume} }}", sig());
                        rep.violation(
                            prog.clone(),
                            format!("accepted program went wrong (tuple {ti}): {kind}: {msg}"),
                            json!({"program": prog, "tuple": ti, "family": "early_return_callees"}),
                        );
                    }
                }
                o => rep.outcome(o.class(), 1),
            }
        }
    }
}

fn stores() -> Vec<RecIo> {
    let fkey = |k: i64| vec![FactKey::new(ident!("k"), HashableValue::Int(k))];
    let fval = |v: i64| vec![FactValue::new(ident!("v"), Value::Int(v))];
    let gkey = |k: &str, n: i64| {
        vec![FactKey::new(ident!("k"), HashableValue::String(vmrun::text_of(k))), FactKey::new(ident!("n"), HashableValue::Int(n))]
    };
    let gval = |w: bool, s: &str| {
        vec![FactValue::new(ident!("w"), Value::Bool(w)), FactValue::new(ident!("s"), Value::String(vmrun::text_of(s)))]
    };
    let hkey = |e: i64, i: u8| {
        vec![FactKey::new(ident!("e"), HashableValue::Enum(ident!("E"), e)), FactKey::new(ident!("i"), HashableValue::Id(vmrun::id_of(i)))]
    };
    let hval = |o: Option<i64>| {
        vec![
            FactValue::new(ident!("o"), Value::Option(o.map(|n| Box::new(Value::Int(n))))),
            FactValue::new(ident!("t"), vmrun::to_value(&Val::strukt("S", &[("a", Val::Int(4)), ("b", Val::Bool(true))]))),
        ]
    };
    let mut v = Vec::new();
    v.push(RecIo::new());
    let mut one = RecIo::new();
    one.facts.insert((ident!("F"), fkey(0)), fval(0));
    one.facts.insert((ident!("G"), gkey("", 0)), gval(true, ""));
    one.facts.insert((ident!("H"), hkey(0, 0)), hval(None));
    let akey = |n: &str, k: i64| vec![FactKey::new(vmrun::ident_of(n), HashableValue::Int(k))];
    let aval = |n: &str, v: i64| vec![FactValue::new(vmrun::ident_of(n), Value::Int(v))];
    one.facts.insert((ident!("A"), akey("i", 1)), aval("x", 1));
    one.facts.insert((ident!("B"), akey("j", 1)), aval("y", 1));
    v.push(one);
    let mut many = RecIo::new();
    for k in [-1, 0, 1, i64::MAX, i64::MIN] {
        many.facts.insert((ident!("F"), fkey(k)), fval(k));
        many.facts.insert((ident!("G"), gkey("a", k)), gval(k > 0, "a"));
        many.facts.insert((ident!("G"), gkey("", k)), gval(k > 0, ""));
    }
    for k in [1, 2, 3] {
        many.facts.insert((ident!("A"), akey("i", k)), aval("x", k));
        many.facts.insert((ident!("B"), akey("j", k)), aval("y", k));
    }
    for e in 0..3 {
        for i in 0..2 {
            many.facts.insert((ident!("H"), hkey(e, i)), hval(if e == 0 { None } else { Some(e) }));
        }
    }
    v.push(many);
    v
}

fn clone_store(s: &RecIo) -> RecIo {
    let mut n = RecIo::new();
    n.facts = s.facts.clone();
    n
}

fn run_edge(rep: &mut Report, e: &Edge, tuples: &[Vec<Value>], stores: &[RecIo]) {
    rep.count("edge_candidates", 1);
    // helper declarations only when the candidate mentions them (keeps the per-candidate compile small)
    let mentions = |t: &str| t.contains("h_") || t.contains("h3(") || t.contains("h4(");
    let helpers = if mentions(&e.text) || mentions(e.extra_decls) { gen::HELPERS } else { "" };
    let text = format!("{PRELUDE}{helpers}{}{}\n", e.extra_decls, e.text);
    let machine = match vmrun::compile_text_quiet(&text, Ffi::None) {
        Ok(m) => Machine::from_module(m).unwrap_or_else(|_| mcx::machinery_error("module version")),
        Err(panicked) => {
            if panicked {
                let msg = vmrun::compile_text(&text, Ffi::None).err().unwrap_or_default();
                // host panic of the compiler on source text: C27's subject; recorded, not judged here
                rep.count("front_end_panics", 1);
                rep.outcome("front_end_panic", 1);
                rep.sample(json!({"front_end_panic": e.text, "message": msg}));
            } else {
                rep.count("edge_rejected_by_compiler", 1);
                rep.outcome("front_end_rejected", 1);
            }
            return;
        }
    };
    rep.count("programs", 1);
    rep.count("edge_accepted", 1);
    rep.count(&format!("accepted_{}", e.family), 1);
    let uses_facts = !e.extra_decls.is_empty() && e.extra_decls.starts_with("fact");
    let store_list: Vec<&RecIo> = if uses_facts { stores.iter().collect() } else { stores.iter().take(1).collect() };
    for st in store_list {
        let tuple_list: Vec<Vec<Value>> = match &e.kind {
            EdgeKind::Function => tuples.to_vec(),
            EdgeKind::FunctionArgs(a) => a.clone(),
            EdgeKind::Action0 => vec![vec![]],
            EdgeKind::Command => vec![vec![Value::Int(0)], vec![Value::Int(1)]],
            EdgeKind::Action => vec![
                vec![Value::Int(0), Value::String(vmrun::text_of("")), Value::Bool(true)],
                vec![Value::Int(1), Value::String(vmrun::text_of("a")), Value::Bool(false)],
                vec![Value::Int(i64::MIN), Value::String(vmrun::text_of("a")), Value::Bool(true)],
            ],
        };
        for (ti, t) in tuple_list.iter().enumerate() {
            let mut io = clone_store(st);
            let mut steps = 0u64;
            let out = match &e.kind {
                EdgeKind::Function | EdgeKind::FunctionArgs(_) => vmrun::run_function(&machine, &mut io, "f", t, &mut steps),
                EdgeKind::Command => {
                    let this = aranya_policy_vm::Struct { name: ident!("Cmd"), fields: [(ident!("x"), t[0].clone())].into_iter().collect() };
                    vmrun::run_command(&machine, &mut io, this, &mut steps)
                }
                EdgeKind::Action | EdgeKind::Action0 => {
                    let mut published = Vec::new();
                    vmrun::run_action(&machine, &mut io, "f", t, &mut published, &mut steps)
                }
            };
            rep.count("transitions", steps);
            rep.count("states", 1);
            rep.count("traces_validated_against_impl", 1);
            rep.count("disagreements_checked", 1);
            match &out {
                Outcome::Error(kind, msg) => {
                    rep.outcome(&format!("error_{kind}"), 1);
                    if c22::internal_kind(kind) {
                        if std::env::var_os("POL_DEBUG").is_some() {
                            eprintln!("WRONG {kind}: {msg} :: {} :: {}", e.family, e.text.split(") ").skip(1).collect::<Vec<_>>().join(") "));
                        }
                        // class keys starting with '=' name one root cause whatever error kind it
                        // surfaces as; the older class keys carry the kind as a suffix
                        let key = match &e.class_key {
                            Some(k) if k.starts_with('=') => k[1..].to_string(),
                            Some(k) => format!("{k}: {kind}"),
                            None => e.text.clone(),
                        };
                        rep.violation(
                            key,
                            format!("accepted program went wrong (tuple {ti}, store of {} facts): {kind}: {msg}\nprogram: {}", st.facts.len(), e.text),
                            json!({"program": e.text, "decls": e.extra_decls, "tuple": ti, "family": e.family}),
                        );
                    }
                }
                Outcome::Horizon => {
                    rep.outcome("horizon", 1);
                    rep.count("horizon_hits", 1);
                }
                o => rep.outcome(o.class(), 1),
            }
        }
    }
}

fn edges(tier: Tier) -> Vec<Edge> {
    let mut v = Vec::new();
    e1_patterns(&mut v, tier);
    e2_positions(&mut v);
    e3_cross_types(&mut v);
    e4_scoping(&mut v);
    e5_facts(&mut v);
    e6_binding_arms(&mut v, tier);
    e6b_pattern_subsets(&mut v);
    e7_globals(&mut v);
    e8_calls(&mut v);
    e9_map_exits(&mut v);
    // identical candidates (e.g. "first binder" = "last binder") are run once
    let mut seen = std::collections::HashSet::new();
    v.retain(|e| seen.insert((e.extra_decls.to_string(), e.text.clone())));
    v
}

/// Full texts of the fact / action candidate documents (used by C28 as corpus; the compiler filters).
pub fn fact_docs() -> Vec<String> {
    let mut v = Vec::new();
    e5_facts(&mut v);
    let mut seen = std::collections::HashSet::new();
    v.into_iter()
        .map(|e| format!("{PRELUDE}{}{}\n", e.extra_decls, e.text))
        .filter(|t| seen.insert(t.clone()))
        .collect()
}

pub fn run(args: &Args) {
    let mut rep = Report::new(args, Level::ModelChecking);
    rep.set_max_samples(12);
    if args.replay.is_some() {
        return replay(args, rep);
    }
    let tuples = c22::arg_tuples(args.tier);
    // (1) the typed corpus
    c22::run_streamed(&mut rep, args.tier, &tuples, Mode::GoesWrong);
    rep.set("wall_typed_corpus_s", rep.elapsed().as_secs_f64());
    // (2) edge families
    let all = edges(args.tier);
    let vm_tuples: Vec<Vec<Value>> = c22::arg_tuples(Tier::Quick).iter().map(|t| t.iter().map(vmrun::to_value).collect()).collect();
    for e in all.iter().step_by((all.len() / 4).max(1)).take(4) {
        rep.sample(json!({"edge_candidate": e.text, "family": e.family}));
    }
    let chunks: Vec<&[Edge]> = all.chunks(256).collect();
    let workers: Vec<Report> = chunks
        .par_iter()
        .map(|chunk| {
            let mut w = rep.worker();
            let st = stores();
            for e in chunk.iter() {
                run_edge(&mut w, e, &vm_tuples, &st);
            }
            w
        })
        .collect();
    for w in workers {
        rep.absorb(w);
    }
    rep.set("wall_after_edges_s", rep.elapsed().as_secs_f64());
    // (2b) early-return callees, batched
    {
        let pairs = e10_pairs();
        let workers: Vec<Report> = pairs
            .par_chunks(100)
            .map(|chunk| {
                let mut w = rep.worker();
                run_e10_batch(&mut w, chunk, &vm_tuples);
                w
            })
            .collect();
        for w in workers {
            rep.absorb(w);
        }
    }
    // (3) command policies with policy / recall / finish
    let policies: Vec<Vec<Stmt>> = c30::corpus(Tier::Quick).into_iter().filter(|p| args.tier == Tier::Thorough || c30::stmt_size(p) <= 3).collect();
    c30::run_policies(&mut rep, &policies, true);
    c22::finish_common(&mut rep, args, tuples.len());
    rep.set("bounds", "C22 corpus of the tier + edge families (patterns: ≤2 arms × ≤2 alternatives + default; operand positions × 7 fillers; 18² operand pairs × 14 operators; composition sources; 42 scoping shapes; 34 fact literals × query/exists/4 counts × 5 limits × 3 stores; map loops; actions) + command policies of size ≤ 3 (thorough ≤ 4)");
    rep.assume("edge families are filtered by the real compiler: only accepted programs are run; rejected candidates are counted");
    rep.require_nonzero("edge_accepted");
    rep.require_nonzero("edge_rejected_by_compiler");
    rep.require_nonzero("accepted_match_expr_patterns");
    rep.require_nonzero("accepted_fact_queries");
    rep.require_nonzero("accepted_map_loops");
    rep.require_nonzero("accepted_actions");
    rep.require_nonzero("accepted_self_referential_bindings");
    rep.require_nonzero("accepted_early_return_callees");
    rep.require_nonzero("accepted_pattern_subsets_expr");
    rep.finish()
}

fn replay(args: &Args, mut rep: Report) {
    let path = args.replay.as_ref().unwrap();
    let body: mcx::Value = std::fs::read_to_string(path)
        .ok()
        .and_then(|s| mcx::serde_json::from_str(&s).ok())
        .unwrap_or_else(|| mcx::machinery_error("cannot read replay file"));
    let key = body["key"].as_str().unwrap_or("").to_string();
    let vm_tuples: Vec<Vec<Value>> = c22::arg_tuples(Tier::Quick).iter().map(|t| t.iter().map(vmrun::to_value).collect()).collect();
    let st = stores();
    let mut found = false;
    for e in edges(Tier::Thorough) {
        if e.text == key {
            run_edge(&mut rep, &e, &vm_tuples, &st);
            found = true;
            break;
        }
    }
    if !found {
        // a program of the typed corpus or a command policy
        let mut programs = Vec::new();
        c22::for_each_program(Tier::Thorough, &mut |p| {
            if p.key == key && programs.is_empty() {
                programs.push(p);
            }
        });
        if !programs.is_empty() {
            c22::run_corpus(&mut rep, &programs, &c22::arg_tuples(Tier::Thorough), Mode::GoesWrong);
        } else {
            let pols: Vec<Vec<Stmt>> = c30::corpus(Tier::Quick).into_iter().filter(|p| c30::policy_key(p) == key).collect();
            if pols.is_empty() {
                mcx::machinery_error("replay key not found in the enumerated space");
            }
            c30::run_policies(&mut rep, &pols, true);
        }
    }
    rep.set("exhaustive", false);
    rep.finish()
}
