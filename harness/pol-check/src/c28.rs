//! C28 — compiled modules are deterministic and survive serialization.
//!
//! Corpus: generated documents (C22 function batches, C23 probe batches, C30 command batches, the
//! fact/action documents of C24) plus every policy document of the repository that the compiler
//! accepts (markdown documents under crates/, `*.policy` files of the compiler's test data).
//!
//! For every document:
//!  * compile twice in this process (on different threads: fresh `HashMap` hasher states) and once
//!    in a child process; the three modules must be equal structurally (in-process) and as
//!    serialized bytes (postcard, CBOR, rkyv encodings, compared across the three compilations);
//!  * Module → CBOR → Module and Module → rkyv → Module must give back an equal module and an equal
//!    `Machine` (`Machine::from_module`);
//!  * every function / action / command is re-run on the machines loaded from the decoded modules
//!    and must give the same outcome, foreign-call log, fact/effect log and published commands as
//!    on the original machine; for C22 documents the outcome must also equal the reference
//!    interpreter's (the C22 oracle) on every argument tuple.

use std::collections::BTreeMap;

use aranya_policy_ast::{self as ast, Version};
use aranya_policy_lang::lang::{parse_policy_document, parse_policy_str};
use aranya_policy_vm::{BaseId, Machine, Module, Struct, TypeKind, Value};
use mcx::{json, rayon::prelude::*, Args, Level, Report, Tier};

use crate::{
    c22::{self, Program},
    c30,
    lang::*,
    vmrun::{self, Ffi, IoCall, Outcome, RecIo},
};

#[derive(Clone)]
struct Doc {
    id: String,
    text: String,
    markdown: bool,
    ffi: Ffi,
}

fn ffi_name(f: Ffi) -> &'static str {
    match f {
        Ffi::None => "none",
        Ffi::Probe => "probe",
        Ffi::Stub => "stub",
        Ffi::Real => "real",
    }
}

fn compile_doc(d: &Doc) -> Result<Module, String> {
    if d.markdown {
        vmrun::compile_markdown(&d.text, d.ffi)
    } else {
        vmrun::compile_text(&d.text, d.ffi)
    }
}

struct Encodings {
    postcard: Vec<u8>,
    cbor: Vec<u8>,
    rkyv: Vec<u8>,
}

fn encode(m: &Module) -> Result<Encodings, String> {
    let postcard = postcard::to_allocvec(m).map_err(|e| format!("postcard encode: {e}"))?;
    let mut cbor = Vec::new();
    ciborium::into_writer(m, &mut cbor).map_err(|e| format!("cbor encode: {e}"))?;
    let rkyv = rkyv::to_bytes::<rkyv::rancor::Error>(m).map_err(|e| format!("rkyv encode: {e}"))?.to_vec();
    Ok(Encodings { postcard, cbor, rkyv })
}

fn hashes(e: &Encodings) -> (u64, u64, u64) {
    (mcx::fnv64(&e.postcard), mcx::fnv64(&e.cbor), mcx::fnv64(&e.rkyv))
}

/// Child mode: compile every document of the file, print one line per document.
pub fn child(args: &Args) -> ! {
    let path = args.extra.get("docs").unwrap_or_else(|| mcx::machinery_error("--docs missing"));
    let docs: mcx::Value = std::fs::read_to_string(path)
        .ok()
        .and_then(|s| mcx::serde_json::from_str(&s).ok())
        .unwrap_or_else(|| mcx::machinery_error("cannot read docs file"));
    let docs: Vec<Doc> = docs
        .as_array()
        .unwrap_or_else(|| mcx::machinery_error("docs file is not a list"))
        .iter()
        .map(|d| Doc {
            id: d["id"].as_str().unwrap_or("").to_string(),
            text: d["text"].as_str().unwrap_or("").to_string(),
            markdown: d["md"].as_bool().unwrap_or(false),
            ffi: match d["ffi"].as_str() {
                Some("probe") => Ffi::Probe,
                Some("stub") => Ffi::Stub,
                Some("real") => Ffi::Real,
                _ => Ffi::None,
            },
        })
        .collect();
    let lines: Vec<String> = docs
        .par_iter()
        .map(|d| match compile_doc(d).and_then(|m| encode(&m)) {
            Ok(e) => {
                let (p, c, r) = hashes(&e);
                json!({"id": d.id, "ok": true, "postcard": format!("{p:016x}"), "cbor": format!("{c:016x}"), "rkyv": format!("{r:016x}")}).to_string()
            }
            Err(e) => json!({"id": d.id, "ok": false, "err": e}).to_string(),
        })
        .collect();
    for l in lines {
        println!("{l}");
    }
    std::process::exit(0)
}

// ---------------------------------------------------------------------------------------------
// generic exercise of a machine: every function, action and command with synthesized arguments

fn synth(kind: &TypeKind, machine: &Machine, variant: u8, depth: u32) -> Value {
    let one = variant == 1;
    match kind {
        TypeKind::Unit => Value::Unit,
        TypeKind::Int => Value::Int(if one { 1 } else { 0 }),
        TypeKind::Bool => Value::Bool(one),
        TypeKind::String => Value::String(vmrun::text_of(if one { "a" } else { "" })),
        TypeKind::Bytes => Value::Bytes(if one { vec![1, 2, 3] } else { vec![] }),
        TypeKind::Id => Value::Id(if one { vmrun::id_of(1) } else { BaseId::default() }),
        TypeKind::Never => Value::Unit,
        TypeKind::Struct(name) => {
            let mut fields = BTreeMap::new();
            if depth < 6 {
                if let Some(def) = machine.struct_defs.get(name) {
                    for f in &def.items {
                        fields.insert(f.name.clone(), synth(&f.ty, machine, variant, depth + 1));
                    }
                }
            }
            Value::Struct(Struct { name: name.clone(), fields })
        }
        TypeKind::Enum(name) => {
            let v = machine
                .enum_defs
                .get(name)
                .and_then(|d| if one { d.variants.last() } else { d.variants.first() }.map(|(_, v)| *v))
                .unwrap_or(0);
            Value::Enum(name.clone(), v)
        }
        TypeKind::Optional(inner) => {
            if one {
                Value::Option(Some(Box::new(synth(inner, machine, variant, depth + 1))))
            } else {
                Value::Option(None)
            }
        }
        TypeKind::Result(r) => {
            if one {
                Value::Result(Err(Box::new(synth(&r.err, machine, variant, depth + 1))))
            } else {
                Value::Result(Ok(Box::new(synth(&r.ok, machine, variant, depth + 1))))
            }
        }
    }
}

#[derive(Debug, PartialEq)]
struct Trace {
    what: String,
    outcome: Outcome,
    io: Vec<IoCall>,
    ffi: Vec<i64>,
    published: Vec<Value>,
}

fn exercise(policy: &ast::Policy, machine: &Machine, steps: &mut u64) -> Vec<Trace> {
    let mut out = Vec::new();
    for variant in 0..2u8 {
        for f in &policy.functions {
            let args: Vec<Value> = f.arguments.iter().map(|p| synth(&TypeKind::from(p.ty.inner.clone()), machine, variant, 0)).collect();
            let mut io = RecIo::new();
            let o = vmrun::run_function(machine, &mut io, f.identifier.as_str(), &args, steps);
            out.push(Trace { what: format!("function {} #{variant}", f.identifier), outcome: o, io: io.log, ffi: io.ffi_log.into_inner(), published: vec![] });
        }
        for a in &policy.actions {
            let args: Vec<Value> = a.arguments.iter().map(|p| synth(&TypeKind::from(p.ty.inner.clone()), machine, variant, 0)).collect();
            let mut io = RecIo::new();
            let mut published = Vec::new();
            let o = vmrun::run_action(machine, &mut io, a.identifier.as_str(), &args, &mut published, steps);
            out.push(Trace { what: format!("action {} #{variant}", a.identifier), outcome: o, io: io.log, ffi: io.ffi_log.into_inner(), published });
        }
        for c in &policy.commands {
            let this = synth(&TypeKind::Struct(c.identifier.inner.clone()), machine, variant, 0);
            let Value::Struct(this) = this else { continue };
            let mut io = RecIo::new();
            let o = vmrun::run_command(machine, &mut io, this, steps);
            out.push(Trace { what: format!("command {} #{variant}", c.identifier), outcome: o, io: io.log, ffi: io.ffi_log.into_inner(), published: vec![] });
        }
    }
    out
}

// ---------------------------------------------------------------------------------------------

enum Payload<'a> {
    /// a C22 batch: programs + base index (functions are named f{base+k})
    Typed(Vec<&'a Program>, usize),
    /// a C30 batch: policies + base (commands are named C{base+k})
    Commands(Vec<&'a Vec<Stmt>>, usize),
    /// anything else: exercised generically through the parsed AST
    Generic,
}

struct Job<'a> {
    doc: Doc,
    payload: Payload<'a>,
}

/// `None` = the compiler does not accept the document; `Some(None)` = accepted, but an in-process
/// comparison already failed (reported); `Some(Some(hashes))` = ready for the cross-process comparison.
fn check_doc(rep: &mut Report, job: &Job<'_>, tuples: &[Vec<Val>], vm_tuples: &[Vec<Value>]) -> Option<Option<(u64, u64, u64)>> {
    let d = &job.doc;
    let key = |what: &str| format!("{}: {what}", d.id);
    let replay = || json!({"doc": d.id, "text": d.text, "markdown": d.markdown, "ffi": ffi_name(d.ffi)});
    // two compilations; the second on another thread
    let m1 = match vmrun::compile_quiet(&d.text, d.markdown, d.ffi) {
        Ok(m) => m,
        Err(_) => {
            rep.count("documents_not_accepted", 1);
            rep.outcome("not_accepted", 1);
            if std::env::var_os("POL_DEBUG").is_some() {
                eprintln!("NOT-ACCEPTED {} :: {}", d.id, compile_doc(d).err().unwrap_or_default());
            }
            return None;
        }
    };
    rep.count("programs", 1);
    rep.count("documents", 1);
    let m2 = std::thread::scope(|s| s.spawn(|| compile_doc(d)).join()).ok().and_then(|r| r.ok());
    rep.count("disagreements_checked", 1);
    let Some(m2) = m2 else {
        rep.violation(key("second compilation failed"), "the same text compiled once and was rejected the second time", replay());
        return Some(None);
    };
    if m1 != m2 {
        rep.violation(key("two compilations differ structurally"), "Module != Module for two compilations of the same text in one process", replay());
        return Some(None);
    }
    let (e1, e2) = match (encode(&m1), encode(&m2)) {
        (Ok(a), Ok(b)) => (a, b),
        (Err(e), _) | (_, Err(e)) => {
            rep.violation(key("module does not encode"), e, replay());
            return Some(None);
        }
    };
    rep.count("disagreements_checked", 3);
    if e1.postcard != e2.postcard || e1.cbor != e2.cbor || e1.rkyv != e2.rkyv {
        rep.violation(key("two compilations differ in serialized bytes"), "postcard/CBOR/rkyv bytes of two in-process compilations differ", replay());
        return Some(None);
    }
    // round trips
    let machine = Machine::from_module(m1.clone()).unwrap_or_else(|_| mcx::machinery_error("module version"));
    let mut reloaded: Vec<(&'static str, Machine)> = Vec::new();
    rep.count("disagreements_checked", 4);
    match ciborium::from_reader::<Module, _>(&e1.cbor[..]) {
        Ok(m) => {
            if m != m1 {
                rep.violation(key("CBOR round trip changes the module"), "decode(encode(module)) != module (CBOR)", replay());
            }
            match Machine::from_module(m) {
                Ok(mm) => {
                    if mm != machine {
                        rep.violation(key("CBOR round trip changes the machine"), "Machine::from_module(decoded) != Machine::from_module(original)", replay());
                    }
                    reloaded.push(("cbor", mm));
                }
                Err(_) => rep.violation(key("CBOR-decoded module does not load"), "Machine::from_module failed", replay()),
            }
        }
        Err(e) => rep.violation(key("CBOR does not decode"), format!("{e}"), replay()),
    }
    match rkyv::from_bytes::<Module, rkyv::rancor::Error>(&e1.rkyv) {
        Ok(m) => {
            if m != m1 {
                rep.violation(key("rkyv round trip changes the module"), "decode(encode(module)) != module (rkyv)", replay());
            }
            match Machine::from_module(m) {
                Ok(mm) => {
                    if mm != machine {
                        rep.violation(key("rkyv round trip changes the machine"), "Machine::from_module(decoded) != Machine::from_module(original)", replay());
                    }
                    reloaded.push(("rkyv", mm));
                }
                Err(_) => rep.violation(key("rkyv-decoded module does not load"), "Machine::from_module failed", replay()),
            }
        }
        Err(e) => rep.violation(key("rkyv does not decode"), format!("{e}"), replay()),
    }
    // postcard: the module type cannot be decoded from postcard (serde internally tagged enum);
    // record whether that is still the case, never judge it
    match postcard::from_bytes::<Module>(&e1.postcard) {
        Ok(m) => {
            rep.count("postcard_decodes", 1);
            if m != m1 {
                rep.violation(key("postcard round trip changes the module"), "decode(encode(module)) != module (postcard)", replay());
            }
        }
        Err(_) => rep.count("postcard_decode_unsupported", 1),
    }
    rep.count("round_trips", reloaded.len() as u64);
    // re-execution
    let mut steps = 0u64;
    match &job.payload {
        Payload::Typed(progs, base) => {
            let fns = c22::fn_table(progs, *base);
            let globals = c22::globals();
            let recalls = BTreeMap::new();
            for (k, p) in progs.iter().enumerate() {
                let name = format!("f{}", base + k);
                for (ti, (tup, vtup)) in tuples.iter().zip(vm_tuples).enumerate() {
                    let mut io = RecIo::new();
                    let orig = vmrun::run_function(&machine, &mut io, &name, vtup, &mut steps);
                    rep.count("states", 1);
                    rep.count("traces_validated_against_impl", 1 + reloaded.len() as u64);
                    rep.count("disagreements_checked", 1 + reloaded.len() as u64);
                    let mut it = Interp::new(&fns, &globals, &recalls);
                    let want = it.call_fn(&name, tup.clone());
                    let agrees = match (&want, &orig) {
                        (Ok(v), Outcome::Normal(Some(got))) => &vmrun::to_value(v) == got,
                        (Err(Stop::Panic), Outcome::Panic) => true,
                        _ => false,
                    };
                    if !agrees {
                        rep.violation(p.key.clone(), format!("tuple {ti}: original machine disagrees with the semantics: {want:?} vs {orig:?}"), replay());
                        continue;
                    }
                    for (fmt, mm) in &reloaded {
                        let mut io2 = RecIo::new();
                        let again = vmrun::run_function(mm, &mut io2, &name, vtup, &mut steps);
                        if again != orig {
                            rep.violation(
                                format!("{} [{fmt}]", p.key),
                                format!("tuple {ti}: machine loaded from the {fmt}-decoded module gives {again:?}, the original gives {orig:?}"),
                                replay(),
                            );
                        } else {
                            rep.count("reruns_agree", 1);
                        }
                    }
                }
            }
        }
        Payload::Commands(policies, base) => {
            for (k, p) in policies.iter().enumerate() {
                let name = format!("C{}", base + k);
                for (x, y, b) in c30::inputs() {
                    let run = |mm: &Machine, steps: &mut u64| {
                        let mut io = c30::initial_io();
                        let o = vmrun::run_command(mm, &mut io, c30::this_struct(&name, x, y, b), steps);
                        (o, io.log)
                    };
                    let orig = run(&machine, &mut steps);
                    rep.count("states", 1);
                    rep.count("traces_validated_against_impl", 1 + reloaded.len() as u64);
                    rep.count("disagreements_checked", reloaded.len() as u64);
                    for (fmt, mm) in &reloaded {
                        let again = run(mm, &mut steps);
                        if again != orig {
                            rep.violation(
                                format!("{} [{fmt}]", c30::policy_key(p)),
                                format!("x={x} y={y} b={b}: reloaded ({fmt}) machine gives {again:?}, original {orig:?}"),
                                replay(),
                            );
                        } else {
                            rep.count("reruns_agree", 1);
                        }
                    }
                }
            }
        }
        Payload::Generic => {
            let policy = if d.markdown { parse_policy_document(&d.text) } else { parse_policy_str(&d.text, Version::V2) };
            if let Ok(policy) = policy {
                let orig = exercise(&policy, &machine, &mut steps);
                rep.count("states", orig.len() as u64);
                rep.count("traces_validated_against_impl", (orig.len() * (1 + reloaded.len())) as u64);
                for t in &orig {
                    rep.outcome(&format!("generic_{}", t.outcome.class()), 1);
                }
                for (fmt, mm) in &reloaded {
                    let again = exercise(&policy, mm, &mut steps);
                    rep.count("disagreements_checked", again.len() as u64);
                    for (a, o) in again.iter().zip(&orig) {
                        if a != o {
                            rep.violation(
                                format!("{}: {} [{fmt}]", d.id, o.what),
                                format!("reloaded ({fmt}) machine gives {a:?}, original {o:?}"),
                                replay(),
                            );
                        } else {
                            rep.count("reruns_agree", 1);
                        }
                    }
                }
            }
        }
    }
    rep.count("transitions", steps.max(1));
    Some(Some(hashes(&e1)))
}

/// Struct literals with two and three composition sources over structs with disjoint fields, in
/// function, finish-function, action and command bodies and nested in other expressions.
fn composition_doc() -> String {
    let mut s = String::from(
        "struct P { p int }\nstruct Q { q bool }\nstruct R { r string }\nstruct W { p int, q bool, r string, z int }\n\
         struct V { p int, q bool }\nfact F[k int]=>{v int}\neffect Eff { p int, q bool, r string, z int }\n\
         command Cmd { fields { p int, q bool, r string, z int } seal { return todo() } open { return todo() } policy {\n\
           let a = P { p: this.p } let b = Q { q: this.q } let c = R { r: this.r }\n\
           let w = W { z: 1, ...a, ...b, ...c }\n\
           check w.q else recall again()\n\
           finish { emit Eff { z: 2, ...c, ...b, ...a } create F[k: w.p]=>{v: w.z} } }\n\
           recall again() { let a = P { p: this.p } let b = Q { q: true } let c = R { r: \"x\" } finish { emit Eff { z: 3, ...b, ...c, ...a } } } }\n\
         action act(p int, q bool, r string) {\n\
           let a = P { p: p } let b = Q { q: q } let c = R { r: r }\n\
           publish Cmd { z: 0, ...a, ...b, ...c }\n\
           if q { publish Cmd { z: 1, ...c, ...a, ...b } }\n\
           match p { 0 => { publish Cmd { r: r, z: 2, ...b, ...a } } _ => { } } }\n",
    );
    // functions: every order of 2 and 3 sources, nested in calls / comparisons / if / match / option
    let orders3 = [["a", "b", "c"], ["a", "c", "b"], ["b", "a", "c"], ["b", "c", "a"], ["c", "a", "b"], ["c", "b", "a"]];
    let mut k = 0;
    for o in orders3 {
        let src = o.iter().map(|x| format!("...{x}")).collect::<Vec<_>>().join(", ");
        for body in [
            format!("return W {{ z: p, {src} }}"),
            format!("let w = Some(W {{ z: 1, {src} }}) match w {{ Some(v) => {{ return v }} None => {{ return W {{ z: 2, {src} }} }} }}"),
            format!("if q {{ return W {{ z: saturating_add(p, 1), {src} }} }} return if (W {{ z: 0, {src} }}) == (W {{ z: 0, {src} }}) {{ :W {{ z: 5, {src} }} }} else {{ :W {{ z: 6, {src} }} }}"),
        ] {
            s.push_str(&format!(
                "function c3_{k}(p int, q bool, r string) struct W {{ let a = P {{ p: p }} let b = Q {{ q: q }} let c = R {{ r: r }} {body} }}\n"
            ));
            k += 1;
        }
    }
    for (i, src) in ["...a, ...b", "...b, ...a"].iter().enumerate() {
        s.push_str(&format!(
            "function c2_{i}(p int, q bool) struct V {{ let a = P {{ p: p }} let b = Q {{ q: q }} return V {{ {src} }} }}\n\
             function c2w_{i}(p int, q bool, r string) int {{ let a = P {{ p: p }} let b = Q {{ q: q }} return (W {{ r: r, z: c2_{i}(p, q).p, {src} }}).z }}\n"
        ));
    }
    s
}

fn repo_docs() -> Vec<Doc> {
    let root = std::env::var("VERIF_REPO").unwrap_or_else(|_| "/repo".into());
    let mut out = Vec::new();
    let mut stack = vec![std::path::PathBuf::from(&root).join("crates")];
    let mut files = Vec::new();
    while let Some(dir) = stack.pop() {
        let Ok(rd) = std::fs::read_dir(&dir) else { continue };
        for e in rd.flatten() {
            let p = e.path();
            let name = p.file_name().and_then(|n| n.to_str()).unwrap_or("").to_string();
            if p.is_dir() {
                if name != "target" && !name.starts_with('.') {
                    stack.push(p);
                }
            } else if name.ends_with(".md") || name.ends_with(".policy") {
                files.push(p);
            }
        }
    }
    files.sort();
    for p in files {
        let Ok(text) = std::fs::read_to_string(&p) else { continue };
        let md = p.extension().is_some_and(|e| e == "md");
        if md && !text.contains("policy-version") {
            continue;
        }
        let id = p.strip_prefix(&root).unwrap_or(&p).display().to_string();
        // documents importing the repository's FFI modules get the real schemas; the rest is
        // compiled with stubbed FFI (only matters for `use` of modules the harness does not know)
        let real = ["crypto", "device", "envelope", "idam", "perspective"];
        let uses: Vec<&str> = text.lines().filter_map(|l| l.trim().strip_prefix("use ")).map(str::trim).collect();
        let ffi = if !uses.is_empty() && uses.iter().all(|u| real.contains(u)) { Ffi::Real } else { Ffi::Stub };
        out.push(Doc { id: id.clone(), text: text.clone(), markdown: md, ffi });
        if ffi == Ffi::Real {
            // also as a stubbed document (different code: every foreign call becomes a panic)
            out.push(Doc { id: format!("{id} [stub-ffi]"), text, markdown: md, ffi: Ffi::Stub });
        }
    }
    out
}

pub fn run(args: &Args) {
    if args.extra.get("child").map(String::as_str) == Some("compile") {
        child(args);
    }
    let mut rep = Report::new(args, Level::ModelChecking);
    rep.set_max_samples(8);
    let tier = args.tier;
    // ---- build the corpus
    let programs = c22::corpus(Tier::Quick);
    let typed_stride = tier.pick(8, 1);
    let policies = c30::corpus(Tier::Quick);
    let cmd_stride = tier.pick(24, 1);
    let mut jobs: Vec<Job<'_>> = Vec::new();
    let refs: Vec<&Program> = programs.iter().collect();
    for (i, chunk) in refs.chunks(c22::BATCH).enumerate() {
        if i % typed_stride != 0 {
            continue;
        }
        let base = i * c22::BATCH;
        jobs.push(Job {
            doc: Doc { id: format!("typed-batch-{i}"), text: c22::batch_text(chunk, base, false), markdown: false, ffi: Ffi::None },
            payload: Payload::Typed(chunk.to_vec(), base),
        });
    }
    let prefs: Vec<&Vec<Stmt>> = policies.iter().collect();
    for (i, chunk) in prefs.chunks(100).enumerate() {
        if i % cmd_stride != 0 {
            continue;
        }
        let base = i * 100;
        jobs.push(Job {
            doc: Doc { id: format!("command-batch-{i}"), text: c30::doc_text(chunk, base), markdown: false, ffi: Ffi::None },
            payload: Payload::Commands(chunk.to_vec(), base),
        });
    }
    for (i, text) in crate::c23::corpus_docs(tier.pick(40, 1)).into_iter().enumerate() {
        jobs.push(Job { doc: Doc { id: format!("probe-batch-{i}"), text, markdown: false, ffi: Ffi::Probe }, payload: Payload::Generic });
    }
    let fact_docs: Vec<String> = crate::c24::fact_docs()
        .into_par_iter()
        .filter(|t| vmrun::compile_text_quiet(t, Ffi::None).is_ok())
        .collect::<Vec<_>>()
        .into_iter()
        .step_by(tier.pick(6, 1))
        .collect();
    for (i, text) in fact_docs.into_iter().enumerate() {
        jobs.push(Job { doc: Doc { id: format!("fact-doc-{i}"), text, markdown: false, ffi: Ffi::None }, payload: Payload::Generic });
    }
    jobs.push(Job {
        doc: Doc { id: "composition-doc".into(), text: composition_doc(), markdown: false, ffi: Ffi::None },
        payload: Payload::Generic,
    });
    let n_generated = jobs.len();
    for d in repo_docs() {
        jobs.push(Job { doc: d, payload: Payload::Generic });
    }
    rep.set("generated_documents", n_generated as u64);
    rep.set("repository_candidates", (jobs.len() - n_generated) as u64);

    // ---- child process: compile everything once more
    let scratch = mcx::Scratch::new("c28");
    let docs_json: Vec<mcx::Value> =
        jobs.iter().map(|j| json!({"id": j.doc.id, "text": j.doc.text, "md": j.doc.markdown, "ffi": ffi_name(j.doc.ffi)})).collect();
    let path = scratch.path().join("docs.json");
    std::fs::write(&path, mcx::serde_json::to_string(&docs_json).unwrap()).unwrap_or_else(|e| mcx::machinery_error(&format!("write docs: {e}")));
    let child_args: Vec<String> = ["--prop", "C28", "--tier", tier.as_str(), "--child", "compile", "--docs"]
        .iter()
        .map(|s| s.to_string())
        .chain([path.display().to_string()])
        .collect();
    let child = std::thread::spawn(move || mcx::child::run_self(&child_args, &[], std::time::Duration::from_secs(1500)));

    // ---- in-process checks
    let tuples = c22::arg_tuples(Tier::Quick);
    let vm_tuples: Vec<Vec<Value>> = tuples.iter().map(|t| t.iter().map(vmrun::to_value).collect()).collect();
    let results: Vec<(Report, Option<Option<(u64, u64, u64)>>)> = jobs
        .par_iter()
        .map(|j| {
            let mut w = rep.worker();
            let h = check_doc(&mut w, j, &tuples, &vm_tuples);
            (w, h)
        })
        .collect();
    let mut in_proc: BTreeMap<String, Option<Option<(u64, u64, u64)>>> = BTreeMap::new();
    for ((w, h), j) in results.into_iter().zip(&jobs) {
        rep.absorb(w);
        in_proc.insert(j.doc.id.clone(), h);
        if h.is_some() && !j.doc.id.contains("batch") && !j.doc.id.starts_with("fact-doc") && j.doc.id != "composition-doc" {
            rep.count("repository_documents", 1);
            rep.sample(json!({"repository_document": j.doc.id}));
        }
    }
    if let Some(j) = jobs.first() {
        rep.sample(json!({"generated_document": j.doc.id, "first_lines": j.doc.text.lines().skip(12).take(2).collect::<Vec<_>>()}));
    }

    // ---- compare with the child
    let out = child.join().unwrap_or_else(|_| mcx::machinery_error("child thread"));
    if !out.clean() {
        mcx::machinery_error(&format!("child compilation process failed: code {:?} signal {:?} {}", out.code, out.signal, out.stderr.lines().last().unwrap_or("")));
    }
    let mut seen = 0u64;
    for line in out.stdout.lines() {
        let Ok(v) = mcx::serde_json::from_str::<mcx::Value>(line) else { continue };
        let id = v["id"].as_str().unwrap_or("").to_string();
        let Some(mine) = in_proc.get(&id) else { continue };
        seen += 1;
        rep.count("disagreements_checked", 1);
        let text_of = |id: &str| jobs.iter().find(|j| j.doc.id == id).map(|j| j.doc.text.clone()).unwrap_or_default();
        match (mine, v["ok"].as_bool().unwrap_or(false)) {
            (None, false) => {}
            // already reported by the in-process comparison
            (Some(None), _) => {}
            (Some(Some((p, c, r))), true) => {
                let theirs = (v["postcard"].as_str().unwrap_or(""), v["cbor"].as_str().unwrap_or(""), v["rkyv"].as_str().unwrap_or(""));
                if theirs != (format!("{p:016x}").as_str(), format!("{c:016x}").as_str(), format!("{r:016x}").as_str()) {
                    rep.violation(
                        format!("{id}: compilation in a second process differs"),
                        format!("serialized module hashes differ between processes: here {p:016x}/{c:016x}/{r:016x}, child {theirs:?}"),
                        json!({"doc": id, "text": text_of(&id)}),
                    );
                } else {
                    rep.count("cross_process_equal", 1);
                }
            }
            _ => rep.violation(
                format!("{id}: accepted in one process, rejected in the other"),
                "acceptance differs between processes",
                json!({"doc": id, "text": text_of(&id)}),
            ),
        }
    }
    if seen != jobs.len() as u64 {
        mcx::machinery_error(&format!("child reported {seen} documents, expected {}", jobs.len()));
    }
    rep.set("exhaustive", true);
    rep.set("bounds", format!("every {typed_stride}th C22 quick batch, every {cmd_stride}th C30 quick batch, C23 batches, C24 fact/action documents, all repository *.md / *.policy documents the compiler accepts (FFI stubbed); 9 argument tuples / 12 command inputs / 2 synthesized argument sets"));
    rep.assume("serialized forms = CBOR (what policy-compiler writes) and rkyv (derived on Module); postcard encodes Module but cannot decode it (serde internally tagged enum), so postcard is used for byte comparison only");
    rep.assume("repository documents are compiled with Compiler::stub_ffi(true): foreign calls become panics, FFI-defined structs are unavailable; documents that do not compile that way are counted, not judged");
    rep.require_nonzero("documents");
    rep.require_nonzero("repository_documents");
    rep.require_nonzero("cross_process_equal");
    rep.require_nonzero("round_trips");
    rep.require_nonzero("reruns_agree");
    rep.finish()
}
