//! C30 — facts and effects change only inside finish blocks.
//!
//! Space: every command policy body of total statement size ≤ N (quick 4, thorough 5) over
//!   simple:   let / let with a panicking helper call / check … else recall r0() /
//!             check … else recall r1(arg) / check … else recall r2() / check … else todo()
//!   compound: if c { B }, if c { B } else { B }, match this.x { 0 => { B } _ => { B } }
//!   terminal: finish { F* } with F ∈ {create, create(existing), update, update-with-expected,
//!             delete, emit ×2, finish function call, nested finish function call}
//! with three recall blocks that themselves finish / fall through / panic, run on every input
//! `this = {x ∈ 0..2, y ∈ 0..1, b}` with a recording MachineIO.
//!
//! Oracles: (1) the statement's clauses, read directly off the VM run: Panic ⇒ zero
//! fact_insert/fact_delete/effect calls; Check without a recall ⇒ zero calls; every effect of a
//! run that recalled carries recalled = true (and only those); (2) exit reason and the complete
//! I/O log equal the reference interpreter's; (3) every variant of a generated policy that puts a
//! finish-only statement outside finish (policy body, if/match branch, recall block, pure function,
//! action) is rejected by the compiler.

use std::collections::BTreeMap;

use aranya_policy_vm::{ident, FactKey, FactValue, HashableValue, KVPair, Machine, Struct, Value};
use mcx::{json, rayon::prelude::*, Args, Level, Report, Tier};

use crate::{
    lang::*,
    vmrun::{self, ident_of, Ffi, IoCall, Outcome, RecIo},
};

fn bx(e: Expr) -> Box<Expr> {
    Box::new(e)
}
fn this(f: &'static str) -> Expr {
    Expr::Dot(bx(Expr::Var("this".into())), f)
}
fn flit(k: Expr, v: Option<Expr>) -> FactLit {
    FactLit { name: "F", keys: vec![("k", k)], vals: v.map(|v| vec![("v", v)]) }
}

/// finish-only statements
fn fstmts() -> Vec<Stmt> {
    vec![
        Stmt::Create(flit(this("x"), Some(this("y")))),
        // F[k:1] exists initially: an I/O error inside finish
        Stmt::Create(flit(Expr::Int(1), Some(Expr::Int(1)))),
        Stmt::Update(flit(Expr::Int(1), None), vec![("v", this("x"))]),
        Stmt::Update(flit(Expr::Int(1), Some(this("y"))), vec![("v", Expr::Int(9))]),
        Stmt::Delete(flit(Expr::Int(1), None)),
        Stmt::Emit(Expr::StructLit("Eff", vec![("a", this("x")), ("b", this("b"))], vec![])),
        Stmt::Emit(Expr::StructLit("Eff2", vec![("a", Expr::Int(3))], vec![])),
        Stmt::CallStmt("ff".into(), vec![this("y")]),
        Stmt::CallStmt("ff2".into(), vec![this("x")]),
        // a statement the compiler accepts in every context, finish included
        Stmt::DebugAssert(this("b")),
    ]
}

/// Statement context of a generated block.
#[derive(Clone, Copy, PartialEq, Eq, PartialOrd, Ord)]
pub enum Ctx {
    Policy,
    /// inside a recall block: `recall` is not available, `check` can only diverge with todo()
    Recall,
}

fn simple_stmts_in(ctx: Ctx) -> Vec<Stmt> {
    let mut n = 0u32;
    let all = simple_stmts(&mut n);
    match ctx {
        Ctx::Policy => all,
        Ctx::Recall => all
            .into_iter()
            .filter(|s| match s {
                Stmt::Recall(..) => false,
                Stmt::Check(_, e) => !matches!(e, Expr::RecallE(..)),
                _ => true,
            })
            .collect(),
    }
}

fn simple_stmts(names: &mut u32) -> Vec<Stmt> {
    let mut fresh = || {
        *names += 1;
        format!("v{}", *names)
    };
    let recall = |n: &str, args: Vec<Expr>| Expr::RecallE(n.into(), args);
    vec![
        Stmt::Let(fresh(), Expr::Builtin(Builtin::SatAdd, bx(this("x")), bx(Expr::Int(1)))),
        Stmt::Let(fresh(), Expr::Call("hpanic".into(), vec![this("x")])),
        Stmt::Check(this("b"), recall("r0", vec![])),
        Stmt::Check(Expr::Bin(Bin::Gt, bx(this("x")), bx(Expr::Int(0))), recall("r1", vec![this("y")])),
        Stmt::Check(Expr::Call("helper".into(), vec![this("x")]), recall("r2", vec![])),
        Stmt::Check(Expr::Bin(Bin::Eq, bx(this("y")), bx(Expr::Int(0))), Expr::Todo),
        // statement form of recall
        Stmt::Recall("r1".into(), vec![this("x")]),
    ]
}

/// The statements that are valid only inside finish (debug_assert is valid everywhere).
fn finish_only_stmts() -> Vec<Stmt> {
    fstmts().into_iter().filter(|s| !matches!(s, Stmt::DebugAssert(_))).collect()
}

fn conds() -> Vec<Expr> {
    vec![this("b"), Expr::Bin(Bin::Eq, bx(this("x")), bx(Expr::Int(1)))]
}

/// All finish-statement lists of exactly `n` statements.
fn flists(n: usize) -> Vec<Vec<Stmt>> {
    let mut out = vec![vec![]];
    for _ in 0..n {
        let mut next = Vec::new();
        for l in &out {
            for f in fstmts() {
                let mut l2 = l.clone();
                l2.push(f);
                next.push(l2);
            }
        }
        out = next;
    }
    out
}

/// All policy blocks of total size exactly `n`. `finish` may only end a block.
type Memo = BTreeMap<(usize, u32, Ctx), Vec<Vec<Stmt>>>;

fn blocks(n: usize, depth: u32, ctx: Ctx, memo: &mut Memo) -> Vec<Vec<Stmt>> {
    if n == 0 {
        return vec![vec![]];
    }
    if let Some(v) = memo.get(&(n, depth, ctx)) {
        return v.clone();
    }
    let mut out: Vec<Vec<Stmt>> = Vec::new();
    // terminal finish taking the whole remaining size
    for fl in flists(n - 1) {
        out.push(vec![Stmt::Finish(fl)]);
    }
    // first statement simple
    let simples = simple_stmts_in(ctx);
    for rest in blocks(n - 1, depth, ctx, memo) {
        for s in &simples {
            if matches!(s, Stmt::Recall(..)) && !rest.is_empty() {
                continue; // code after an unconditional recall is dead; keep it as a last statement only
            }
            let mut b = vec![s.clone()];
            b.extend(rest.iter().cloned());
            out.push(b);
        }
    }
    // first statement compound
    if depth > 0 {
        for inner in 0..n {
            // sizes: 1 (the compound) + inner + rest
            let rest_size = n - 1 - inner;
            let rests = blocks(rest_size, depth, ctx, memo);
            // if c { B }
            for b1 in blocks(inner, depth - 1, ctx, memo) {
                for c in conds() {
                    for rest in &rests {
                        let mut b = vec![Stmt::If(vec![(c.clone(), b1.clone())], None)];
                        b.extend(rest.iter().cloned());
                        out.push(b);
                    }
                }
            }
            // if c { B1 } else { B2 }  and  match this.x { 0 => { B1 } _ => { B2 } }
            for i1 in 0..=inner {
                let b1s = blocks(i1, depth - 1, ctx, memo);
                let b2s = blocks(inner - i1, depth - 1, ctx, memo);
                for b1 in &b1s {
                    for b2 in &b2s {
                        for rest in &rests {
                            let mut b = vec![Stmt::If(vec![(conds()[0].clone(), b1.clone())], Some(b2.clone()))];
                            b.extend(rest.iter().cloned());
                            out.push(b);
                            let mut m = vec![Stmt::Match(
                                this("x"),
                                vec![
                                    (Pat::Vals(vec![PatVal::Lit(Expr::Int(0))]), b1.clone()),
                                    (Pat::Default, b2.clone()),
                                ],
                            )];
                            m.extend(rest.iter().cloned());
                            out.push(m);
                        }
                    }
                }
            }
        }
    }
    memo.insert((n, depth, ctx), out.clone());
    out
}

/// Make let-bound names unique along the whole body (the language forbids shadowing).
fn uniquify(stmts: &mut [Stmt], n: &mut u32) {
    for s in stmts {
        match s {
            Stmt::Let(name, _) => {
                *n += 1;
                *name = format!("w{n}");
            }
            Stmt::If(bs, fb) => {
                for (_, b) in bs {
                    uniquify(b, n);
                }
                if let Some(fb) = fb {
                    uniquify(fb, n);
                }
            }
            Stmt::Match(_, arms) => {
                for (_, b) in arms {
                    uniquify(b, n);
                }
            }
            _ => {}
        }
    }
}

const SHARED: &str = "\
fact F[k int]=>{v int}
effect Eff { a int, b bool }
effect Eff2 { a int }
function helper(v int) bool { return v > 0 }
function hpanic(v int) int { if v == 0 { return todo() } return v }
function h_off(v int) int { if v > 0 { return v } }
finish function ff(p int) { create F[k: 5]=>{v: p} emit Eff2 { a: p } }
finish function ff2(p int) { ff(p) delete F[k: 5] }
";

fn recall_defs() -> BTreeMap<String, (Vec<String>, Vec<Stmt>)> {
    let mut m = BTreeMap::new();
    // r0: finishes with an effect and a fact deletion
    m.insert(
        "r0".to_string(),
        (
            vec![],
            vec![Stmt::Finish(vec![
                Stmt::Emit(Expr::StructLit("Eff", vec![("a", this("x")), ("b", Expr::Bool(false))], vec![])),
                Stmt::Delete(flit(Expr::Int(1), None)),
            ])],
        ),
    );
    // r1(n): finishes only when n == 0, otherwise falls off the end of the recall block
    m.insert(
        "r1".to_string(),
        (
            vec!["n".to_string()],
            vec![Stmt::If(
                vec![(
                    Expr::Bin(Bin::Eq, bx(Expr::Var("n".into())), bx(Expr::Int(0))),
                    vec![Stmt::Finish(vec![
                        Stmt::Create(flit(Expr::Int(7), Some(Expr::Var("n".into())))),
                        Stmt::CallStmt("ff".into(), vec![Expr::Var("n".into())]),
                    ])],
                )],
                None,
            )],
        ),
    );
    // r2: may panic before its finish
    m.insert(
        "r2".to_string(),
        (
            vec![],
            vec![
                Stmt::Let("q".into(), Expr::Call("hpanic".into(), vec![this("y")])),
                Stmt::Finish(vec![Stmt::Emit(Expr::StructLit("Eff2", vec![("a", Expr::Var("q".into()))], vec![]))]),
            ],
        ),
    );
    m
}

fn recall_text() -> String {
    let mut s = String::new();
    for (name, (params, body)) in recall_defs() {
        let ps = params.iter().map(|p| format!("{p} int")).collect::<Vec<_>>().join(", ");
        s.push_str(&format!(" recall {name}({ps}) {{"));
        print_stmts(&mut s, &body);
        s.push_str(" }");
    }
    s
}

fn command_text(name: &str, policy: &[Stmt]) -> String {
    command_text_rg(name, policy, None)
}

fn command_text_rg(name: &str, policy: &[Stmt], rg: Option<&Vec<Stmt>>) -> String {
    let mut s = format!("command {name} {{ fields {{ x int, y int, b bool }} seal {{ return todo() }} open {{ return todo() }} policy {{");
    print_stmts(&mut s, policy);
    s.push_str(" }");
    s.push_str(&recall_text());
    if let Some(body) = rg {
        s.push_str(" recall rg() {");
        print_stmts(&mut s, body);
        s.push_str(" }");
    }
    s.push_str(" }\n");
    s
}

/// The policy every generated recall block `rg` is exercised through: recalled when `this.b` is
/// false, otherwise the command is accepted with an effect.
fn rg_policy() -> Vec<Stmt> {
    vec![
        Stmt::Check(this("b"), Expr::RecallE("rg".into(), vec![])),
        Stmt::Finish(vec![Stmt::Emit(Expr::StructLit("Eff2", vec![("a", Expr::Int(3))], vec![]))]),
    ]
}

/// A program of the space: a policy body, optionally with a generated recall block `rg`.
#[derive(Clone, Copy)]
pub struct Prog<'a> {
    pub policy: &'a Vec<Stmt>,
    pub rg: Option<&'a Vec<Stmt>>,
    /// generated finish function `name(p int, q bool) { body }` the policy calls
    pub fg: Option<(&'a str, &'a Vec<Stmt>)>,
}

pub fn prog_key(p: &Prog<'_>) -> String {
    let mut s = policy_key(p.policy);
    if let Some(body) = p.rg {
        s.push_str(" recall rg() {");
        print_stmts(&mut s, body);
        s.push_str(" }");
    }
    if let Some((name, body)) = p.fg {
        s.push_str(&format!(" finish function {name}(p int, q bool) {{"));
        print_stmts(&mut s, body);
        s.push_str(" }");
    }
    s
}

fn has_debug_assert_in_finish(stmts: &[Stmt]) -> bool {
    stmts.iter().any(|s| match s {
        Stmt::Finish(f) => f.iter().any(|x| matches!(x, Stmt::DebugAssert(_))),
        Stmt::If(bs, fb) => bs.iter().any(|(_, b)| has_debug_assert_in_finish(b)) || fb.as_ref().is_some_and(|b| has_debug_assert_in_finish(b)),
        Stmt::Match(_, arms) => arms.iter().any(|(_, b)| has_debug_assert_in_finish(b)),
        _ => false,
    })
}

fn callables() -> BTreeMap<String, Callable> {
    let v = |n: &str| Expr::Var(n.to_string());
    let mut m = BTreeMap::new();
    m.insert(
        "helper".to_string(),
        Callable::Pure(FnDef {
            name: "helper".into(),
            params: vec![("v".into(), Ty::Int)],
            ret: Ty::Bool,
            body: vec![Stmt::Return(Expr::Bin(Bin::Gt, bx(v("v")), bx(Expr::Int(0))))],
        }),
    );
    m.insert(
        "hpanic".to_string(),
        Callable::Pure(FnDef {
            name: "hpanic".into(),
            params: vec![("v".into(), Ty::Int)],
            ret: Ty::Int,
            body: vec![
                Stmt::If(vec![(Expr::Bin(Bin::Eq, bx(v("v")), bx(Expr::Int(0))), vec![Stmt::Return(Expr::Todo)])], None),
                Stmt::Return(v("v")),
            ],
        }),
    );
    m.insert(
        "ff".to_string(),
        Callable::Finish {
            params: vec!["p".into()],
            body: vec![
                Stmt::Create(flit(Expr::Int(5), Some(v("p")))),
                Stmt::Emit(Expr::StructLit("Eff2", vec![("a", v("p"))], vec![])),
            ],
        },
    );
    m.insert(
        "ff2".to_string(),
        Callable::Finish {
            params: vec!["p".into()],
            body: vec![Stmt::CallStmt("ff".into(), vec![v("p")]), Stmt::Delete(flit(Expr::Int(5), None))],
        },
    );
    m
}

pub fn inputs() -> Vec<(i64, i64, bool)> {
    let mut v = Vec::new();
    for x in 0..3 {
        for y in 0..2 {
            for b in [true, false] {
                v.push((x, y, b));
            }
        }
    }
    v
}

pub fn initial_io() -> RecIo {
    let mut io = RecIo::new();
    io.facts.insert(
        (ident!("F"), vec![FactKey::new(ident!("k"), HashableValue::Int(1))]),
        vec![FactValue::new(ident!("v"), Value::Int(1))],
    );
    io
}

pub fn this_struct(name: &str, x: i64, y: i64, b: bool) -> Struct {
    Struct {
        name: ident_of(name),
        fields: [(ident!("x"), Value::Int(x)), (ident!("y"), Value::Int(y)), (ident!("b"), Value::Bool(b))].into_iter().collect(),
    }
}

pub fn doc_text(policies: &[&Vec<Stmt>], base: usize) -> String {
    let mut text = String::from(SHARED);
    for (i, p) in policies.iter().enumerate() {
        text.push_str(&command_text(&format!("C{}", base + i), p));
    }
    text
}

fn to_call(e: &IoEvent) -> IoCall {
    let key = |vals: &Vec<Val>| -> Vec<FactKey> {
        vals.iter()
            .map(|v| match v {
                Val::Int(n) => FactKey::new(ident!("k"), HashableValue::Int(*n)),
                _ => mcx::machinery_error("non-int fact key in model"),
            })
            .collect()
    };
    match e {
        IoEvent::Insert { fact, keys, vals } => IoCall::Insert(
            ident_of(fact),
            key(keys),
            vals.iter().map(|v| FactValue::new(ident!("v"), vmrun::to_value(v))).collect(),
        ),
        IoEvent::Delete { fact, keys } => IoCall::Delete(ident_of(fact), key(keys)),
        IoEvent::Effect { name, fields, recalled } => IoCall::Effect(
            ident_of(name),
            fields.iter().map(|(k, v)| KVPair::new(ident_of(k), vmrun::to_value(v))).collect(),
            *recalled,
        ),
    }
}

pub fn policy_key(policy: &[Stmt]) -> String {
    let mut s = String::from("policy {");
    print_stmts(&mut s, policy);
    s.push_str(" }");
    s
}

fn run_batch(rep: &mut Report, policies: &[&Vec<Stmt>], base: usize, goes_wrong_only: bool) {
    let progs: Vec<Prog<'_>> = policies.iter().map(|p| Prog { policy: p, rg: None, fg: None }).collect();
    run_progs(rep, &progs, base, goes_wrong_only)
}

fn run_progs(rep: &mut Report, progs: &[Prog<'_>], base: usize, goes_wrong_only: bool) {
    let mut text = String::from(SHARED);
    for (i, p) in progs.iter().enumerate() {
        if let Some((name, body)) = p.fg {
            text.push_str(&format!("finish function {name}(p int, q bool) {{"));
            print_stmts(&mut text, body);
            text.push_str(" }\n");
        }
        text.push_str(&command_text_rg(&format!("C{}", base + i), p.policy, p.rg));
    }
    let machine = match vmrun::compile_text(&text, Ffi::None) {
        Ok(m) => Machine::from_module(m).unwrap_or_else(|_| mcx::machinery_error("module version")),
        Err(e) => {
            if progs.len() == 1 {
                rep.count("rejected_by_front_end", 1);
                rep.sample(json!({"rejected_by_front_end": prog_key(&progs[0]), "message": e}));
                if std::env::var_os("POL_DEBUG").is_some() {
                    eprintln!("REJECTED {e} :: {}", prog_key(&progs[0]));
                }
                return;
            }
            let mid = progs.len() / 2;
            run_progs(rep, &progs[..mid], base, goes_wrong_only);
            run_progs(rep, &progs[mid..], base + mid, goes_wrong_only);
            return;
        }
    };
    let base_fns = callables();
    let globals = BTreeMap::new();
    let base_recalls = recall_defs();
    for (i, prog) in progs.iter().enumerate() {
        let p = prog.policy;
        let mut fns = base_fns.clone();
        if let Some((name, body)) = prog.fg {
            fns.insert(name.to_string(), Callable::Finish { params: vec!["p".into(), "q".into()], body: body.clone() });
            rep.count("programs_with_generated_finish_function", 1);
        }
        let mut recalls = base_recalls.clone();
        if let Some(body) = prog.rg {
            recalls.insert("rg".to_string(), (vec![], body.clone()));
            rep.count("programs_with_generated_recall_block", 1);
        }
        let dbg_in_finish = has_debug_assert_in_finish(p) || prog.rg.is_some_and(|b| has_debug_assert_in_finish(b));
        rep.count("programs", 1);
        let name = format!("C{}", base + i);
        for (x, y, b) in inputs() {
            rep.count("states", 1);
            rep.count("traces_validated_against_impl", 1);
            let this_vm = this_struct(&name, x, y, b);
            let mut io = initial_io();
            let mut steps = 0u64;
            let out = vmrun::run_command(&machine, &mut io, this_vm, &mut steps);
            rep.count("transitions", steps);
            let key = || prog_key(prog);
            let replay = || json!({"policy": prog_key(prog), "x": x, "y": y, "b": b});
            if goes_wrong_only {
                rep.count("disagreements_checked", 1);
                match &out {
                    Outcome::Error(kind, msg) => {
                        rep.outcome(&format!("command_error_{kind}"), 1);
                        if crate::c22::internal_kind(kind) {
                            rep.violation(key(), format!("accepted command policy went wrong on x={x} y={y} b={b}: {kind}: {msg}"), replay());
                        }
                    }
                    o => rep.outcome(&format!("command_{}", o.class()), 1),
                }
                continue;
            }
            // reference run
            let mut it = Interp::new(&fns, &globals, &recalls);
            it.facts.insert(("F", vec![Val::Int(1)]), vec![Val::Int(1)]);
            let this_ref = Val::strukt("C", &[("x", Val::Int(x)), ("y", Val::Int(y)), ("b", Val::Bool(b))]);
            let stop = it.run_policy(p, this_ref);
            let n_io = io.log.len();
            let effects: Vec<bool> = io.log.iter().filter_map(|c| if let IoCall::Effect(_, _, r) = c { Some(*r) } else { None }).collect();
            // (1) the statement's clauses
            rep.count("disagreements_checked", 2);
            match &out {
                Outcome::Panic => {
                    rep.count("runs_panic", 1);
                    if n_io != 0 {
                        // one root cause, one key: a failing debug_assert after writes inside finish
                        let k = if dbg_in_finish && matches!(stop, Stop::Panic) {
                            "debug_assert inside a finish block can panic after facts were written and effects emitted".to_string()
                        } else {
                            key()
                        };
                        rep.count("runs_panic_after_io", 1);
                        rep.violation(k, format!("x={x} y={y} b={b}: run ended in Panic after {n_io} fact/effect calls: {:?}\nprogram: {}", io.log, prog_key(prog)), replay());
                        continue;
                    }
                }
                Outcome::Check => {
                    rep.count("runs_check", 1);
                    if !it.recall_taken {
                        rep.count("runs_check_without_recall", 1);
                        if n_io != 0 {
                            rep.violation(key(), format!("x={x} y={y} b={b}: Check without recall after {n_io} fact/effect calls"), replay());
                            continue;
                        }
                    } else {
                        rep.count("runs_check_via_recall", 1);
                        if !effects.is_empty() {
                            rep.count("recall_runs_with_effects", 1);
                        }
                        if effects.iter().any(|r| !*r) {
                            rep.violation(key(), format!("x={x} y={y} b={b}: effect emitted while handling a recall is not marked recalled: {:?}", io.log), replay());
                            continue;
                        }
                    }
                }
                Outcome::Normal(_) => {
                    rep.count("runs_normal", 1);
                    if !effects.is_empty() {
                        rep.count("normal_runs_with_effects", 1);
                    }
                    if effects.iter().any(|r| *r) {
                        rep.violation(key(), format!("x={x} y={y} b={b}: effect of an accepted command marked recalled: {:?}", io.log), replay());
                        continue;
                    }
                }
                Outcome::Error(kind, _) => {
                    rep.count("runs_machine_error", 1);
                    rep.outcome(&format!("error_{kind}"), 1);
                }
                _ => {}
            }
            // (2) full agreement with the reference interpreter
            let want_log: Vec<IoCall> = it.io.iter().map(to_call).collect();
            let agree = match (&stop, &out) {
                (Stop::Exit(Exit::Normal), Outcome::Normal(_)) => true,
                (Stop::Exit(Exit::Check), Outcome::Check) => true,
                (Stop::Panic, Outcome::Panic) => true,
                (Stop::IoError(_), Outcome::Error(kind, _)) => kind == "IO" || kind == "InvalidFact",
                (Stop::Unmodelled(why), _) => {
                    rep.count("unmodelled", 1);
                    rep.sample(json!({"unmodelled": why, "policy": prog_key(prog)}));
                    true
                }
                _ => false,
            };
            if !agree || want_log != io.log {
                rep.outcome("disagreement", 1);
                rep.violation(
                    key(),
                    format!("x={x} y={y} b={b}: semantics says {stop:?} with I/O {want_log:?}; VM gave {out:?} with I/O {:?}", io.log),
                    replay(),
                );
                continue;
            }
            rep.count("agree", 1);
            rep.outcome(
                &format!(
                    "{}{}",
                    match &stop {
                        Stop::Exit(Exit::Normal) => "finish",
                        Stop::Exit(Exit::Check) => "recall_check",
                        Stop::Panic => "panic",
                        Stop::IoError(_) => "io_error_in_finish",
                        _ => "other",
                    },
                    if n_io > 0 { "_with_io" } else { "" }
                ),
                1,
            );
        }
    }
}

/// Variants of a policy with a finish-only statement outside finish; all must be rejected.
fn misplaced_variants(policy: &[Stmt]) -> Vec<(String, String)> {
    // returns (description, full document text)
    let mut out = Vec::new();
    for f in finish_only_stmts() {
        let mut ftxt = String::new();
        print_stmt(&mut ftxt, &f);
        // positions inside the policy body: before every top-level statement, and at the start of
        // every nested (non-finish) block
        let mut positions: Vec<Vec<Stmt>> = Vec::new();
        for at in 0..=policy.len() {
            if at == policy.len() && matches!(policy.last(), Some(Stmt::Finish(_))) {
                continue; // after finish is rejected for another reason (finish must be last)
            }
            let mut p = policy.to_vec();
            p.insert(at, f.clone());
            positions.push(p);
        }
        for (idx, s) in policy.iter().enumerate() {
            match s {
                Stmt::If(bs, fb) => {
                    for bi in 0..bs.len() {
                        let mut p = policy.to_vec();
                        if let Stmt::If(bs2, _) = &mut p[idx] {
                            bs2[bi].1.insert(0, f.clone());
                        }
                        positions.push(p);
                    }
                    if fb.is_some() {
                        let mut p = policy.to_vec();
                        if let Stmt::If(_, Some(fb2)) = &mut p[idx] {
                            fb2.insert(0, f.clone());
                        }
                        positions.push(p);
                    }
                }
                Stmt::Match(_, arms) => {
                    for ai in 0..arms.len() {
                        let mut p = policy.to_vec();
                        if let Stmt::Match(_, arms2) = &mut p[idx] {
                            arms2[ai].1.insert(0, f.clone());
                        }
                        positions.push(p);
                    }
                }
                _ => {}
            }
        }
        for p in positions {
            let mut t = String::from(SHARED);
            t.push_str(&command_text("C0", &p));
            out.push((format!("`{ftxt}` in {}", policy_key(&p)), t));
        }
    }
    out
}

/// Context variants independent of the policy: recall block, pure function, action, seal/open.
fn misplaced_in_other_contexts() -> Vec<(String, String)> {
    let mut out = Vec::new();
    for f in finish_only_stmts() {
        let mut ftxt = String::new();
        print_stmt(&mut ftxt, &f);
        // `this` is not in scope in functions/actions: use literals there
        let ftxt_lit = ftxt.replace("this.x", "1").replace("this.y", "2").replace("this.b", "true");
        let cmd = |policy: &str, recall: &str| {
            format!("{SHARED}command C0 {{ fields {{ x int, y int, b bool }} seal {{ return todo() }} open {{ return todo() }} policy {{ {policy} }} {recall} }}\n")
        };
        out.push((format!("`{ftxt}` in a recall block outside finish"), cmd("finish { }", &format!("recall r0() {{ {ftxt} finish {{ }} }}"))));
        out.push((format!("`{ftxt}` in a recall block without finish"), cmd("finish { }", &format!("recall r0() {{ {ftxt} }}"))));
        out.push((
            format!("`{ftxt_lit}` in a pure function"),
            format!("{SHARED}function bad(v int) int {{ {ftxt_lit} return v }}\n"),
        ));
        out.push((format!("`{ftxt_lit}` in an action"), format!("{SHARED}action bad(v int) {{ {ftxt_lit} }}\n")));
        out.push((format!("`{ftxt}` in a seal block"), cmd("finish { }", "").replace("seal { return todo() }", &format!("seal {{ {ftxt} return todo() }}"))));
        out.push((format!("`{ftxt}` in an open block"), cmd("finish { }", "").replace("open { return todo() }", &format!("open {{ {ftxt} return todo() }}"))));
        out.push((
            format!("`{ftxt_lit}` in a block expression inside a finish block"),
            cmd(&format!("finish {{ emit Eff2 {{ a: {{ {ftxt_lit} :1 }} }} }}"), ""),
        ));
    }
    // a finish block outside policy/recall
    out.push(("finish block in a pure function".into(), format!("{SHARED}function bad(v int) int {{ finish {{ }} return v }}\n")));
    out.push(("finish block in an action".into(), format!("{SHARED}action bad(v int) {{ finish {{ }} }}\n")));
    out.push((
        "finish function called from a policy body".into(),
        format!("{SHARED}command C0 {{ fields {{ x int, y int, b bool }} seal {{ return todo() }} open {{ return todo() }} policy {{ ff(1) finish {{ }} }} }}\n"),
    ));
    out.push((
        "finish function called as an expression".into(),
        format!("{SHARED}function bad(v int) int {{ let q = ff(v) return v }}\n"),
    ));
    out
}

/// Stream every policy body of total size exactly `n` (nesting ≤ 2) to `sink` without
/// materialising the top level; nested blocks and tails (all of size < n) come from `memo`.
fn for_each_block(n: usize, ctx: Ctx, memo: &mut Memo, sink: &mut dyn FnMut(Vec<Stmt>)) {
    let depth = 2u32;
    if n == 0 {
        return;
    }
    for fl in flists(n - 1) {
        sink(vec![Stmt::Finish(fl)]);
    }
    let simples = simple_stmts_in(ctx);
    for rest in blocks(n - 1, depth, ctx, memo) {
        for s in &simples {
            if matches!(s, Stmt::Recall(..)) && !rest.is_empty() {
                continue;
            }
            let mut b = vec![s.clone()];
            b.extend(rest.iter().cloned());
            sink(b);
        }
    }
    for inner in 0..n {
        let rests = blocks(n - 1 - inner, depth, ctx, memo);
        for b1 in blocks(inner, depth - 1, ctx, memo) {
            for c in conds() {
                for rest in &rests {
                    let mut b = vec![Stmt::If(vec![(c.clone(), b1.clone())], None)];
                    b.extend(rest.iter().cloned());
                    sink(b);
                }
            }
        }
        for i1 in 0..=inner {
            let b1s = blocks(i1, depth - 1, ctx, memo);
            let b2s = blocks(inner - i1, depth - 1, ctx, memo);
            for b1 in &b1s {
                for b2 in &b2s {
                    for rest in &rests {
                        let mut b = vec![Stmt::If(vec![(conds()[0].clone(), b1.clone())], Some(b2.clone()))];
                        b.extend(rest.iter().cloned());
                        sink(b);
                        let mut m = vec![Stmt::Match(
                            this("x"),
                            vec![(Pat::Vals(vec![PatVal::Lit(Expr::Int(0))]), b1.clone()), (Pat::Default, b2.clone())],
                        )];
                        m.extend(rest.iter().cloned());
                        sink(m);
                    }
                }
            }
        }
    }
}

/// Every policy of size 1..=max, streamed (same order and content as `blocks(n, 2)`).
pub fn for_each_policy(max: usize, sink: &mut dyn FnMut(Vec<Stmt>)) {
    for_each_body(max, Ctx::Policy, sink)
}

/// Every block of size 1..=max in the given statement context.
pub fn for_each_body(max: usize, ctx: Ctx, sink: &mut dyn FnMut(Vec<Stmt>)) {
    let mut memo = Memo::new();
    for n in 1..=max {
        for_each_block(n, ctx, &mut memo, &mut |mut b| {
            let mut k = 0;
            uniquify(&mut b, &mut k);
            sink(b);
        });
    }
}

pub fn corpus(tier: Tier) -> Vec<Vec<Stmt>> {
    let mut all = Vec::new();
    for_each_policy(tier.pick(4, 5), &mut |b| all.push(b));
    all
}

pub fn run_policies(rep: &mut Report, all: &[Vec<Stmt>], goes_wrong_only: bool) {
    let refs: Vec<&Vec<Stmt>> = all.iter().collect();
    const B: usize = 100;
    let chunks: Vec<(usize, &[&Vec<Stmt>])> = refs.chunks(B).enumerate().map(|(i, c)| (i * B, c)).collect();
    let workers: Vec<Report> = chunks
        .par_iter()
        .map(|(base, chunk)| {
            let mut w = rep.worker();
            run_batch(&mut w, chunk, *base, goes_wrong_only);
            w
        })
        .collect();
    for w in workers {
        rep.absorb(w);
    }
}

/// Statements of generated finish functions `fg(p int, q bool)`.
fn ffstmts() -> Vec<Stmt> {
    let p = || Expr::Var("p".into());
    let q = || Expr::Var("q".into());
    vec![
        Stmt::Create(flit(p(), Some(p()))),
        Stmt::Create(flit(Expr::Int(1), Some(p()))),
        Stmt::Update(flit(Expr::Int(1), None), vec![("v", p())]),
        Stmt::Delete(flit(Expr::Int(1), None)),
        Stmt::Emit(Expr::StructLit("Eff", vec![("a", p()), ("b", q())], vec![])),
        Stmt::Emit(Expr::StructLit("Eff2", vec![("a", Expr::Int(3))], vec![])),
        Stmt::CallStmt("ff".into(), vec![p()]),
    ]
}

/// Policies whose writes happen in a generated finish function: every body of 1..=3 statements
/// × three calling policies.
pub fn run_finish_functions(rep: &mut Report) {
    let mut bodies: Vec<Vec<Stmt>> = Vec::new();
    let mut cur: Vec<Vec<Stmt>> = vec![vec![]];
    for _ in 0..3 {
        let mut next = Vec::new();
        for b in &cur {
            for st in ffstmts() {
                let mut n = b.clone();
                n.push(st);
                next.push(n);
            }
        }
        bodies.extend(next.iter().cloned());
        cur = next;
    }
    let mut items: Vec<(String, Vec<Stmt>, Vec<Stmt>)> = Vec::new(); // (fn name, policy, body)
    for (i, body) in bodies.iter().enumerate() {
        let call = |n: &str, a: Expr, b: Expr| Stmt::CallStmt(n.to_string(), vec![a, b]);
        let shells: Vec<Box<dyn Fn(&str) -> Vec<Stmt>>> = vec![
            Box::new(move |n| vec![Stmt::Finish(vec![call(n, this("x"), this("b"))])]),
            Box::new(move |n| {
                vec![
                    Stmt::Check(this("b"), Expr::RecallE("r0".into(), vec![])),
                    Stmt::Finish(vec![
                        Stmt::Emit(Expr::StructLit("Eff2", vec![("a", Expr::Int(3))], vec![])),
                        call(n, this("y"), this("b")),
                    ]),
                ]
            }),
            Box::new(move |n| {
                vec![
                    Stmt::If(vec![(this("b"), vec![Stmt::Finish(vec![call(n, Expr::Int(1), Expr::Bool(true))])])], None),
                    Stmt::Finish(vec![call(n, this("x"), Expr::Bool(false)), Stmt::Delete(flit(Expr::Int(1), None))]),
                ]
            }),
        ];
        for (k, sh) in shells.iter().enumerate() {
            let name = format!("fg{i}x{k}");
            items.push((name.clone(), sh(&name), body.clone()));
        }
    }
    const B: usize = 100;
    let chunks: Vec<(usize, &[(String, Vec<Stmt>, Vec<Stmt>)])> = items.chunks(B).enumerate().map(|(i, c)| (i * B, c)).collect();
    let workers: Vec<Report> = chunks
        .par_iter()
        .map(|(base, chunk)| {
            let mut w = rep.worker();
            let progs: Vec<Prog<'_>> = chunk.iter().map(|(n, pol, body)| Prog { policy: pol, rg: None, fg: Some((n.as_str(), body)) }).collect();
            run_progs(&mut w, &progs, *base, false);
            w
        })
        .collect();
    for w in workers {
        rep.absorb(w);
    }
}

/// Expressions that are not allowed in finish context, placed in every expression slot of every
/// finish statement inside a finish FUNCTION body (directly, and in a finish function called from
/// another one) after an earlier write. The compiler is expected to reject them; whatever it
/// accepts is run on every input and judged by the statement's clauses.
fn finish_expression_variants() -> Vec<(String, String)> {
    let ints = [
        "saturating_add(p, 1)", "(add(p, 1)) or (0)", "hpanic(p)", "h_off(saturating_sub(p, 1))", "if q { :1 } else { :2 }", "match p { 0 => 1 _ => 2 }",
        "{ :p }", "{ let z = p :z }", "todo()", "count_up_to 1 F[k: p]", "(None) or (p)", "match query F[k: 1] { Some(f) => f.v None => 0 }",
        "(S9 { a: hpanic(p) }).a",
    ];
    let bools = ["helper(p)", "p == 1", "!q", "q && q", "exists F[k: p]", "at_least 1 F[k: p]", "(Some(p)) is Some", "helper(h_off(saturating_sub(p, 1)))"];
    let mut stmts: Vec<String> = Vec::new();
    for e in ints {
        for slot in [
            "create F[k: {E}]=>{v: 1}", "create F[k: 8]=>{v: {E}}", "update F[k: 1] to {v: {E}}", "update F[k: 1]=>{v: {E}} to {v: 2}", "delete F[k: {E}]",
            "emit Eff2 { a: {E} }", "emit Eff { a: {E}, b: q }", "ff({E})",
        ] {
            stmts.push(slot.replace("{E}", e));
        }
    }
    for e in bools {
        stmts.push(format!("emit Eff {{ a: p, b: {e} }}"));
    }
    let mut out = Vec::new();
    for st in stmts {
        let shells = [
            ("finish function", format!("finish function bad(p int, q bool) {{ create F[k: 7]=>{{v: p}} {st} }}\n")),
            (
                "finish function called from a finish function",
                format!("finish function inner9(p int, q bool) {{ {st} }}\nfinish function bad(p int, q bool) {{ emit Eff2 {{ a: 4 }} inner9(p, q) }}\n"),
            ),
        ];
        for (ctx, decl) in shells {
            let text = format!(
                "{SHARED}struct S9 {{ a int }}\n{decl}command C0 {{ fields {{ x int, y int, b bool }} seal {{ return todo() }} open {{ return todo() }} policy {{ finish {{ bad(this.x, this.b) }} }} }}\n"
            );
            out.push((format!("`{st}` in a {ctx}"), text));
        }
    }
    out
}

fn run_finish_expression_variants(rep: &mut Report) {
    let variants = finish_expression_variants();
    // vacuity guard: the same shells with an allowed expression must compile
    for (desc, text) in &variants {
        if desc.starts_with("`emit Eff2 { a: saturating_add(p, 1) }`") {
            let ok = text.replace("saturating_add(p, 1)", "p");
            if vmrun::compile_text_quiet(&ok, Ffi::None).is_err() {
                mcx::machinery_error("finish-function shell does not compile with an allowed expression: rejections would be vacuous");
            }
            rep.count("finish_expression_controls_accepted", 1);
        }
    }
    let results: Vec<(String, Option<Vec<String>>)> = variants
        .par_iter()
        .map(|(desc, text)| {
            let Ok(m) = vmrun::compile_text_quiet(text, Ffi::None) else { return (desc.clone(), None) };
            let machine = Machine::from_module(m).unwrap_or_else(|_| mcx::machinery_error("module version"));
            let mut bad = Vec::new();
            for (x, y, b) in inputs() {
                let mut io = initial_io();
                let mut steps = 0u64;
                let out = vmrun::run_command(&machine, &mut io, this_struct("C0", x, y, b), &mut steps);
                if matches!(out, Outcome::Panic | Outcome::Check) && !io.log.is_empty() {
                    bad.push(format!("x={x} y={y} b={b}: run ended in {out:?} after {} fact/effect calls: {:?}", io.log.len(), io.log));
                }
            }
            (desc.clone(), Some(bad))
        })
        .collect();
    for (desc, r) in results {
        rep.count("finish_expression_variants", 1);
        rep.count("disagreements_checked", 1);
        match r {
            None => {
                rep.count("finish_expression_variants_rejected", 1);
                rep.outcome("finish_expression_rejected", 1);
            }
            Some(bad) => {
                rep.count("finish_expression_variants_accepted", 1);
                rep.outcome("finish_expression_accepted", 1);
                rep.count("traces_validated_against_impl", 12);
                if let Some(first) = bad.first() {
                    rep.violation(desc.clone(), first.clone(), json!({"variant": desc}));
                }
            }
        }
    }
}

/// Generated recall blocks, each run through `rg_policy()`.
pub fn run_recall_bodies(rep: &mut Report, bodies: &[Vec<Stmt>]) {
    let policy = rg_policy();
    const B: usize = 100;
    let chunks: Vec<(usize, &[Vec<Stmt>])> = bodies.chunks(B).enumerate().map(|(i, c)| (i * B, c)).collect();
    let workers: Vec<Report> = chunks
        .par_iter()
        .map(|(base, chunk)| {
            let mut w = rep.worker();
            let progs: Vec<Prog<'_>> = chunk.iter().map(|b| Prog { policy: &policy, rg: Some(b), fg: None }).collect();
            run_progs(&mut w, &progs, *base, false);
            w
        })
        .collect();
    for w in workers {
        rep.absorb(w);
    }
}

pub fn run(args: &Args) {
    let mut rep = Report::new(args, Level::ModelChecking);
    rep.set_max_samples(8);
    let max = args.tier.pick(4usize, 5usize);
    let replay_key = args.replay.as_ref().map(|path| {
        let body: mcx::Value = std::fs::read_to_string(path)
            .ok()
            .and_then(|s| mcx::serde_json::from_str(&s).ok())
            .unwrap_or_else(|| mcx::machinery_error("cannot read replay file"));
        body["key"].as_str().unwrap_or("").to_string()
    });
    // policies are generated and run in bounded chunks; the small ones are kept for part (3)
    let misplaced_bound = args.tier.pick(2usize, 4usize);
    let mut small: Vec<Vec<Stmt>> = Vec::new();
    let mut pending: Vec<Vec<Stmt>> = Vec::new();
    let mut seen = 0u64;
    {
        let rep_cell = std::cell::RefCell::new(&mut rep);
        for_each_policy(if replay_key.is_some() { 5 } else { max }, &mut |p| {
            if let Some(k) = &replay_key {
                if &policy_key(&p) != k {
                    return;
                }
            }
            seen += 1;
            if seen % 20011 == 1 {
                rep_cell.borrow_mut().sample(json!({"policy": policy_key(&p)}));
            }
            if replay_key.is_none() && stmt_size(&p) <= misplaced_bound {
                small.push(p.clone());
            }
            pending.push(p);
            if pending.len() >= 100 * 256 {
                run_policies(&mut rep_cell.borrow_mut(), &pending, false);
                pending.clear();
            }
        });
        if !pending.is_empty() {
            run_policies(&mut rep_cell.borrow_mut(), &pending, false);
        }
    }
    // recall blocks generated with the same grammar (recall context: no nested recall, checks
    // diverge with todo()), exercised through `check this.b else recall rg()`
    {
        let mut pending: Vec<Vec<Stmt>> = Vec::new();
        let rg_prefix = format!("{} recall rg() {{", policy_key(&rg_policy()));
        let rep_cell = std::cell::RefCell::new(&mut rep);
        let mut n_rg = 0u64;
        for_each_body(if replay_key.is_some() { 5 } else { max }, Ctx::Recall, &mut |b| {
            if let Some(k) = &replay_key {
                let mut key = rg_prefix.clone();
                print_stmts(&mut key, &b);
                key.push_str(" }");
                if &key != k {
                    return;
                }
                seen += 1;
            }
            n_rg += 1;
            if n_rg % 5003 == 1 {
                let mut t = String::new();
                print_stmts(&mut t, &b);
                rep_cell.borrow_mut().sample(json!({"recall_block": t}));
            }
            pending.push(b);
            if pending.len() >= 100 * 256 {
                run_recall_bodies(&mut rep_cell.borrow_mut(), &pending);
                pending.clear();
            }
        });
        if !pending.is_empty() {
            run_recall_bodies(&mut rep_cell.borrow_mut(), &pending);
        }
    }
    if replay_key.is_none() {
        run_finish_functions(&mut rep);
        run_finish_expression_variants(&mut rep);
    }
    if replay_key.is_some() {
        if seen == 0 {
            mcx::machinery_error("replay policy is not in the enumerated space");
        }
        rep.set("exhaustive", false);
        rep.finish();
    }

    // (3) misplaced finish-only statements must be rejected
    let check_variants = |rep: &mut Report, variants: Vec<(String, String)>| {
        let results: Vec<bool> = variants.par_iter().map(|v| vmrun::compile_text_quiet(&v.1, Ffi::None).is_ok()).collect();
        for (accepted, (desc, _text)) in results.into_iter().zip(variants) {
            rep.count("misplaced_variants", 1);
            rep.count("disagreements_checked", 1);
            if accepted {
                rep.outcome("misplaced_accepted", 1);
                rep.violation(desc.clone(), "the compiler accepted a finish-only statement outside a finish block/function", json!({"variant": desc}));
            } else {
                rep.count("misplaced_rejected", 1);
                rep.outcome("misplaced_rejected", 1);
            }
        }
    };
    check_variants(&mut rep, misplaced_in_other_contexts());
    for chunk in small.chunks(2000) {
        let mut variants = Vec::new();
        for p in chunk {
            variants.extend(misplaced_variants(p));
        }
        check_variants(&mut rep, variants);
    }
    // sanity: the unmodified shared prelude + an empty-finish command must compile, otherwise the
    // rejections above would be vacuous
    let sane = format!("{SHARED}{}", command_text("C0", &[Stmt::Finish(vec![])]));
    if vmrun::compile_text(&sane, Ffi::None).is_err() {
        mcx::machinery_error("baseline command document does not compile: misplaced-statement rejections would be vacuous");
    }

    if rep.counter("unmodelled") > 0 {
        mcx::machinery_error("generator produced policies the reference interpreter does not model");
    }
    rep.set("exhaustive", args.replay.is_none());
    rep.set("max_policy_size", max as u64);
    rep.set("misplacement_checked_for_policies_up_to_size", misplaced_bound as u64);
    rep.set("inputs_per_policy", inputs().len() as u64);
    rep.set(
        "bounds",
        "all policy bodies of total statement size ≤ max_policy_size (nesting ≤ 2) over 7 simple statements, 3 compound forms, finish blocks over 10 finish statements (incl. debug_assert); 3 fixed recall blocks; plus every recall block body of the same size bound over the same grammar (recall context); 12 inputs",
    );
    rep.assume("a failed check without recall cannot be written in this language version (`check … else` needs a diverging expression: recall, todo, return); the clause is checked on every Check exit the interpreter attributes to no recall (count reported, expected 0)");
    rep.assume("the recording MachineIO sees every fact_insert / fact_delete / effect call the VM makes");
    rep.require_nonzero("agree");
    rep.require_nonzero("runs_panic");
    rep.require_nonzero("runs_check_via_recall");
    rep.require_nonzero("recall_runs_with_effects");
    rep.require_nonzero("normal_runs_with_effects");
    rep.require_nonzero("misplaced_rejected");
    rep.require_nonzero("programs_with_generated_recall_block");
    rep.require_nonzero("programs_with_generated_finish_function");
    rep.require_nonzero("finish_expression_variants_rejected");
    rep.require_nonzero("finish_expression_controls_accepted");
    rep.finish()
}

pub fn stmt_size(b: &[Stmt]) -> usize {
    b.iter()
        .map(|s| match s {
            Stmt::If(bs, fb) => 1 + bs.iter().map(|(_, b)| stmt_size(b)).sum::<usize>() + fb.as_ref().map_or(0, |b| stmt_size(b)),
            Stmt::Match(_, arms) => 1 + arms.iter().map(|(_, b)| stmt_size(b)).sum::<usize>(),
            Stmt::Finish(f) => 1 + f.len(),
            _ => 1,
        })
        .sum()
}
