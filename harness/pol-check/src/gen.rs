//! Type-directed exhaustive enumeration of well-typed expression trees and function bodies.
//!
//! Shapes (all deterministic, no sampling):
//!  * `full1`   — every operator applied to every combination of *rich* leaves (arity ≤ 2), or
//!                with one rich position at a time (arity ≥ 3);
//!  * `spine(d)`— every operator, every operand position, filled with every expression of
//!                `spine(d-1)` (resp. every depth-1 expression over *small* leaves for d = 2), the
//!                other positions running over all small-leaf combinations;
//!  * `square2` — every binary operator with both operands drawn from one representative depth-1
//!                expression per operator (two complex operands at once);
//!  * `never`   — every operator position that accepts a diverging operand filled with `todo()`,
//!                `test_fail()` and `return <leaf>`;
//!  * statement templates (let / if–else-if / match / check / debug_assert / fall-off) whose
//!    expression holes run over the depth-≤1 expressions.

use std::cell::Cell;
use std::collections::BTreeMap;

use crate::lang::*;

type Build = Box<dyn Fn(&Names, Vec<Expr>) -> Expr + Send + Sync>;

pub struct Names(Cell<u32>);
impl Names {
    pub fn new_at(n: u32) -> Self {
        Names(Cell::new(n))
    }
    pub fn fresh(&self, p: &str) -> String {
        let n = self.0.get();
        self.0.set(n + 1);
        format!("{p}{n}")
    }
}

pub struct Op {
    pub name: String,
    pub ret: Ty,
    pub args: Vec<Ty>,
    /// positions where a never-typed operand (`todo()`, `return …`) is accepted by the compiler
    pub never_ok: Vec<bool>,
    /// operand combinations the type checker rejects although every operand has the listed type
    /// (a bare `None` has type `option[never]`, so a binder taken from it cannot be used as a struct)
    pub reject: Option<fn(&[Expr]) -> bool>,
    pub build: Build,
}

/// Does the expression have static type `option[never]`?
pub fn is_bare_none(e: &Expr) -> bool {
    match e {
        Expr::None_ => true,
        Expr::Some_(inner) => matches!(**inner, Expr::Todo | Expr::TestFail | Expr::Ret(_)),
        Expr::If(_, t, f) => is_bare_none(t) && is_bare_none(f),
        Expr::Block(stmts, v) => {
            is_bare_none(v)
                || matches!(&**v, Expr::Var(n) if stmts.iter().any(|s| matches!(s, Stmt::Let(m, e) if m == n && is_bare_none(e))))
        }
        Expr::Match(_, arms) => arms.iter().all(|(_, b)| is_bare_none(b)),
        _ => false,
    }
}

fn v(n: &str) -> Expr {
    Expr::Var(n.to_string())
}
fn bx(e: Expr) -> Box<Expr> {
    Box::new(e)
}

pub fn small_leaves(t: Ty) -> Vec<Expr> {
    match t {
        Ty::Int => vec![v("x"), Expr::Int(1)],
        Ty::Bool => vec![v("b"), Expr::Bool(true)],
        Ty::Str => vec![v("s"), Expr::Str("a")],
        Ty::Id => vec![v("i")],
        Ty::EnumE => vec![v("e"), Expr::EnumLit(1)],
        Ty::S => vec![v("st")],
        Ty::S2 => vec![],
        Ty::T => vec![v("tt")],
        Ty::OptInt => vec![v("oi"), Expr::None_],
        Ty::OptBool => vec![v("ob"), Expr::None_],
        Ty::OptS => vec![v("os"), Expr::None_],
        Ty::ResIB => vec![v("r")],
    }
}

pub fn rich_leaves(t: Ty) -> Vec<Expr> {
    match t {
        Ty::Int => vec![
            v("x"),
            v("y"),
            v("g"),
            Expr::Int(0),
            Expr::Int(1),
            Expr::Int(-1),
            Expr::Int(i64::MAX),
            Expr::Int(i64::MIN),
        ],
        Ty::Bool => vec![v("b"), v("c"), Expr::Bool(true), Expr::Bool(false)],
        Ty::Str => vec![v("s"), Expr::Str(""), Expr::Str("a")],
        Ty::Id => vec![v("i"), v("j")],
        Ty::EnumE => vec![v("e"), Expr::EnumLit(0), Expr::EnumLit(1), Expr::EnumLit(2)],
        other => small_leaves(other),
    }
}

/// Helper functions appended to every generated document (call targets).
pub const HELPERS: &str = "\
function h_int(v int) int { return v }
function h_neg(v bool) bool { return !v }
function h_opt(v int) option[int] { return add(v, 1) }
function h_s(p int, q bool) struct S { return S { a: p, b: q } }
function h_early(v int) int { if v == 0 { return 100 } let k = saturating_sub(v, 1) return k }
function h_chain(v int) int { return h_early(h_int(v)) }
function h_res(v int) result[int, bool] { if v < 0 { return Err(v == -1) } return Ok(v) }
function h3(p int, q int, u int) int { return saturating_add(p, saturating_sub(q, u)) }
function h4(p int, q bool, u string, w int) struct T { return T { a: saturating_sub(p, w), b: q, c: u } }
";

pub fn helper_defs() -> Vec<FnDef> {
    let p = |n: &str, t: Ty| (n.to_string(), t);
    let var = |n: &str| Expr::Var(n.to_string());
    vec![
        FnDef { name: "h_int".into(), params: vec![p("v", Ty::Int)], ret: Ty::Int, body: vec![Stmt::Return(var("v"))] },
        FnDef {
            name: "h_neg".into(),
            params: vec![p("v", Ty::Bool)],
            ret: Ty::Bool,
            body: vec![Stmt::Return(Expr::Not(bx(var("v"))))],
        },
        FnDef {
            name: "h_opt".into(),
            params: vec![p("v", Ty::Int)],
            ret: Ty::OptInt,
            body: vec![Stmt::Return(Expr::Builtin(Builtin::Add, bx(var("v")), bx(Expr::Int(1))))],
        },
        FnDef {
            name: "h_s".into(),
            params: vec![p("p", Ty::Int), p("q", Ty::Bool)],
            ret: Ty::S,
            body: vec![Stmt::Return(Expr::StructLit("S", vec![("a", var("p")), ("b", var("q"))], vec![]))],
        },
        FnDef {
            name: "h_early".into(),
            params: vec![p("v", Ty::Int)],
            ret: Ty::Int,
            body: vec![
                Stmt::If(
                    vec![(Expr::Bin(Bin::Eq, bx(var("v")), bx(Expr::Int(0))), vec![Stmt::Return(Expr::Int(100))])],
                    None,
                ),
                Stmt::Let("k".into(), Expr::Builtin(Builtin::SatSub, bx(var("v")), bx(Expr::Int(1)))),
                Stmt::Return(var("k")),
            ],
        },
        FnDef {
            name: "h_chain".into(),
            params: vec![p("v", Ty::Int)],
            ret: Ty::Int,
            body: vec![Stmt::Return(Expr::Call(
                "h_early".into(),
                vec![Expr::Call("h_int".into(), vec![var("v")])],
            ))],
        },
        FnDef {
            name: "h3".into(),
            params: vec![p("p", Ty::Int), p("q", Ty::Int), p("u", Ty::Int)],
            ret: Ty::Int,
            body: vec![Stmt::Return(Expr::Builtin(
                Builtin::SatAdd,
                bx(var("p")),
                bx(Expr::Builtin(Builtin::SatSub, bx(var("q")), bx(var("u")))),
            ))],
        },
        FnDef {
            name: "h4".into(),
            params: vec![p("p", Ty::Int), p("q", Ty::Bool), p("u", Ty::Str), p("w", Ty::Int)],
            ret: Ty::T,
            body: vec![Stmt::Return(Expr::StructLit(
                "T",
                vec![("a", Expr::Builtin(Builtin::SatSub, bx(var("p")), bx(var("w")))), ("b", var("q")), ("c", var("u"))],
                vec![],
            ))],
        },
        FnDef {
            name: "h_res".into(),
            params: vec![p("v", Ty::Int)],
            ret: Ty::ResIB,
            body: vec![
                Stmt::If(
                    vec![(
                        Expr::Bin(Bin::Lt, bx(var("v")), bx(Expr::Int(0))),
                        vec![Stmt::Return(Expr::Err_(bx(Expr::Bin(Bin::Eq, bx(var("v")), bx(Expr::Int(-1))))))],
                    )],
                    None,
                ),
                Stmt::Return(Expr::Ok_(bx(var("v")))),
            ],
        },
    ]
}

impl Op {
    pub fn rejects(&self, args: &[Expr]) -> bool {
        self.reject.is_some_and(|f| f(args))
    }
}

pub struct Gen {
    pub ops: Vec<Op>,
    names: Names,
}

fn op(name: &str, ret: Ty, args: &[Ty], never_ok: &[bool], build: Build) -> Op {
    assert_eq!(args.len(), never_ok.len());
    Op { name: name.to_string(), ret, args: args.to_vec(), never_ok: never_ok.to_vec(), reject: None, build }
}

impl Gen {
    pub fn new() -> Self {
        let mut ops: Vec<Op> = Vec::new();
        use Ty::*;
        // ---- bool
        ops.push(op("not", Bool, &[Bool], &[true], Box::new(|_, mut a| Expr::Not(bx(a.remove(0))))));
        for (n, b) in [("and", Bin::And), ("or", Bin::Or)] {
            ops.push(op(n, Bool, &[Bool, Bool], &[true, true], Box::new(move |_, mut a| {
                let r = a.pop().unwrap();
                Expr::Bin(b, bx(a.pop().unwrap()), bx(r))
            })));
        }
        for t in Ty::ALL {
            for (n, b) in [("eq", Bin::Eq), ("ne", Bin::Ne)] {
                ops.push(op(&format!("{n}_{t:?}"), Bool, &[t, t], &[true, true], Box::new(move |_, mut a| {
                    let r = a.pop().unwrap();
                    Expr::Bin(b, bx(a.pop().unwrap()), bx(r))
                })));
            }
        }
        for (n, b) in [("lt", Bin::Lt), ("gt", Bin::Gt), ("le", Bin::Le), ("ge", Bin::Ge)] {
            ops.push(op(n, Bool, &[Int, Int], &[true, true], Box::new(move |_, mut a| {
                let r = a.pop().unwrap();
                Expr::Bin(b, bx(a.pop().unwrap()), bx(r))
            })));
        }
        for t in [OptInt, OptBool, OptS] {
            for some in [true, false] {
                ops.push(op(
                    &format!("is_{}_{t:?}", if some { "some" } else { "none" }),
                    Bool,
                    &[t],
                    &[false],
                    Box::new(move |_, mut a| Expr::Is(bx(a.remove(0)), some)),
                ));
            }
        }
        // ---- arithmetic builtins
        for (f, ret) in [(Builtin::SatAdd, Int), (Builtin::SatSub, Int), (Builtin::Add, OptInt), (Builtin::Sub, OptInt)] {
            ops.push(op(f.name(), ret, &[Int, Int], &[true, true], Box::new(move |_, mut a| {
                let r = a.pop().unwrap();
                Expr::Builtin(f, bx(a.pop().unwrap()), bx(r))
            })));
        }
        // ---- coalesce
        for (o, t) in [(OptInt, Int), (OptBool, Bool), (OptS, S)] {
            ops.push(op(&format!("coalesce_{t:?}"), t, &[o, t], &[false, true], Box::new(|_, mut a| {
                let r = a.pop().unwrap();
                Expr::Bin(Bin::Coalesce, bx(a.pop().unwrap()), bx(r))
            })));
        }
        // ---- wrappers
        for (o, t) in [(OptInt, Int), (OptBool, Bool), (OptS, S)] {
            ops.push(op(&format!("some_{t:?}"), o, &[t], &[true], Box::new(|_, mut a| Expr::Some_(bx(a.remove(0))))));
        }
        ops.push(op("ok", ResIB, &[Int], &[true], Box::new(|_, mut a| Expr::Ok_(bx(a.remove(0))))));
        ops.push(op("err", ResIB, &[Bool], &[true], Box::new(|_, mut a| Expr::Err_(bx(a.remove(0))))));
        // ---- field access
        for (st, f, ft) in [
            (S, "a", Int),
            (S, "b", Bool),
            (S2, "a", Int),
            (S2, "b", Bool),
            (T, "a", Int),
            (T, "b", Bool),
            (T, "c", Str),
        ] {
            ops.push(op(&format!("dot_{st:?}_{f}"), ft, &[st], &[false], Box::new(move |_, mut a| {
                Expr::Dot(bx(a.remove(0)), f)
            })));
        }
        // ---- struct literals, composition, substruct, cast
        ops.push(op("lit_S", S, &[Int, Bool], &[true, true], Box::new(|_, mut a| {
            let b = a.pop().unwrap();
            Expr::StructLit("S", vec![("a", a.pop().unwrap()), ("b", b)], vec![])
        })));
        ops.push(op("lit_S_rev", S, &[Bool, Int], &[true, true], Box::new(|_, mut a| {
            // fields written in the opposite order of the declaration
            let x = a.pop().unwrap();
            Expr::StructLit("S", vec![("b", a.pop().unwrap()), ("a", x)], vec![])
        })));
        ops.push(op("lit_S2", S2, &[Bool, Int], &[true, true], Box::new(|_, mut a| {
            let x = a.pop().unwrap();
            Expr::StructLit("S2", vec![("b", a.pop().unwrap()), ("a", x)], vec![])
        })));
        ops.push(op("lit_T", T, &[Int, Bool, Str], &[true, true, true], Box::new(|_, mut a| {
            let c = a.pop().unwrap();
            let b = a.pop().unwrap();
            Expr::StructLit("T", vec![("a", a.pop().unwrap()), ("b", b), ("c", c)], vec![])
        })));
        // composition sources must be identifiers: bind the operand with a block-level let
        ops.push(op("comp_S_from_S", S, &[Int, S], &[true, false], Box::new(|n, mut a| {
            let src = a.pop().unwrap();
            let w = n.fresh("w");
            Expr::Block(
                vec![Stmt::Let(w.clone(), src)],
                bx(Expr::StructLit("S", vec![("a", a.pop().unwrap())], vec![w])),
            )
        })));
        ops.push(op("comp_T_from_S", T, &[Str, S], &[true, false], Box::new(|n, mut a| {
            let src = a.pop().unwrap();
            let w = n.fresh("w");
            Expr::Block(
                vec![Stmt::Let(w.clone(), src)],
                bx(Expr::StructLit("T", vec![("c", a.pop().unwrap())], vec![w])),
            )
        })));
        ops.push(op("comp_T_from_T", T, &[Int, T], &[true, false], Box::new(|n, mut a| {
            let src = a.pop().unwrap();
            let w = n.fresh("w");
            Expr::Block(
                vec![Stmt::Let(w.clone(), src)],
                bx(Expr::StructLit("T", vec![("a", a.pop().unwrap())], vec![w])),
            )
        })));
        ops.push(op("comp_T_all", T, &[T], &[false], Box::new(|n, mut a| {
            let w = n.fresh("w");
            Expr::Block(vec![Stmt::Let(w.clone(), a.remove(0))], bx(Expr::StructLit("T", vec![], vec![w])))
        })));
        ops.push(op("comp_T_two", T, &[S, Str], &[false, true], Box::new(|n, mut a| {
            // two sources: S gives a,b; nothing overlaps with the explicit field c
            let c = a.pop().unwrap();
            let w = n.fresh("w");
            Expr::Block(
                vec![Stmt::Let(w.clone(), a.pop().unwrap())],
                bx(Expr::StructLit("T", vec![("c", c)], vec![w])),
            )
        })));
        // struct literals with two and three composition sources over structs with disjoint fields
        ops.push(op("comp2_W", Int, &[Int, Bool, Int], &[true, true, true], Box::new(|n, mut a| {
            let z = a.pop().unwrap();
            let q = a.pop().unwrap();
            let (w1, w2) = (n.fresh("w"), n.fresh("w"));
            Expr::Block(
                vec![
                    Stmt::Let(w1.clone(), Expr::StructLit("P", vec![("p", a.pop().unwrap())], vec![])),
                    Stmt::Let(w2.clone(), Expr::StructLit("Q", vec![("q", q)], vec![])),
                ],
                bx(Expr::Dot(bx(Expr::StructLit("W", vec![("r", Expr::Str("a")), ("z", z)], vec![w1, w2])), "p")),
            )
        })));
        ops.push(op("comp3_W", Bool, &[Int, Bool, Str, Int], &[true, true, true, true], Box::new(|n, mut a| {
            let z = a.pop().unwrap();
            let r = a.pop().unwrap();
            let q = a.pop().unwrap();
            let (w1, w2, w3) = (n.fresh("w"), n.fresh("w"), n.fresh("w"));
            Expr::Block(
                vec![
                    Stmt::Let(w1.clone(), Expr::StructLit("P", vec![("p", a.pop().unwrap())], vec![])),
                    Stmt::Let(w2.clone(), Expr::StructLit("Q", vec![("q", q)], vec![])),
                    Stmt::Let(w3.clone(), Expr::StructLit("R", vec![("r", r)], vec![])),
                ],
                bx(Expr::Dot(bx(Expr::StructLit("W", vec![("z", z)], vec![w3, w1, w2])), "q")),
            )
        })));
        ops.push(op("comp3_W_eq", Bool, &[Int, Bool, Str], &[true, true, true], Box::new(|n, mut a| {
            let r = a.pop().unwrap();
            let q = a.pop().unwrap();
            let p = a.pop().unwrap();
            let (w1, w2, w3) = (n.fresh("w"), n.fresh("w"), n.fresh("w"));
            Expr::Block(
                vec![
                    Stmt::Let(w1.clone(), Expr::StructLit("P", vec![("p", p.clone())], vec![])),
                    Stmt::Let(w2.clone(), Expr::StructLit("Q", vec![("q", q.clone())], vec![])),
                    Stmt::Let(w3.clone(), Expr::StructLit("R", vec![("r", r.clone())], vec![])),
                ],
                bx(Expr::Bin(
                    Bin::Eq,
                    bx(Expr::StructLit("W", vec![("z", Expr::Int(0))], vec![w1, w2, w3])),
                    bx(Expr::StructLit("W", vec![("p", p), ("q", q), ("r", r), ("z", Expr::Int(0))], vec![])),
                )),
            )
        })));
        ops.push(op("substruct_T_S", S, &[T], &[false], Box::new(|_, mut a| Expr::Substruct(bx(a.remove(0)), "S"))));
        ops.push(op("substruct_S_S", S, &[S], &[false], Box::new(|_, mut a| Expr::Substruct(bx(a.remove(0)), "S"))));
        ops.push(op("substruct_S2_S", S, &[S2], &[false], Box::new(|_, mut a| Expr::Substruct(bx(a.remove(0)), "S"))));
        ops.push(op("substruct_T_S2", S2, &[T], &[false], Box::new(|_, mut a| Expr::Substruct(bx(a.remove(0)), "S2"))));
        ops.push(op("cast_S_S2", S2, &[S], &[false], Box::new(|_, mut a| Expr::Cast(bx(a.remove(0)), "S2"))));
        ops.push(op("cast_S2_S", S, &[S2], &[false], Box::new(|_, mut a| Expr::Cast(bx(a.remove(0)), "S"))));
        // ---- if / block for every type
        for t in Ty::ALL {
            ops.push(op(&format!("if_{t:?}"), t, &[Bool, t, t], &[true, true, true], Box::new(|_, mut a| {
                let f = a.pop().unwrap();
                let th = a.pop().unwrap();
                Expr::If(bx(a.pop().unwrap()), bx(th), bx(f))
            })));
            ops.push(op(&format!("block_{t:?}"), t, &[t], &[true], Box::new(|n, mut a| {
                let w = n.fresh("v");
                Expr::Block(vec![Stmt::Let(w.clone(), a.remove(0))], bx(Expr::Var(w)))
            })));
        }
        ops.push(op("block2_Int", Int, &[Int, Int], &[true, true], Box::new(|n, mut a| {
            let second = a.pop().unwrap();
            let w = n.fresh("v");
            let u = n.fresh("v");
            Expr::Block(
                vec![Stmt::Let(w.clone(), a.pop().unwrap()), Stmt::Let(u.clone(), second)],
                bx(Expr::Builtin(Builtin::SatSub, bx(Expr::Var(w)), bx(Expr::Var(u)))),
            )
        })));
        // ---- match expressions
        for t in [Int, Bool, Str, OptInt] {
            ops.push(op(&format!("match_int_{t:?}"), t, &[Int, t, t, t], &[true, true, true, true], Box::new(|_, mut a| {
                let d = a.pop().unwrap();
                let b = a.pop().unwrap();
                let f = a.pop().unwrap();
                Expr::Match(
                    bx(a.pop().unwrap()),
                    vec![
                        (Pat::Vals(vec![PatVal::Lit(Expr::Int(0))]), f),
                        (Pat::Vals(vec![PatVal::Lit(Expr::Int(1)), PatVal::Lit(Expr::Int(-1))]), b),
                        (Pat::Default, d),
                    ],
                )
            })));
            ops.push(op(&format!("match_bool_{t:?}"), t, &[Bool, t, t], &[true, true, true], Box::new(|_, mut a| {
                let f = a.pop().unwrap();
                let th = a.pop().unwrap();
                Expr::Match(
                    bx(a.pop().unwrap()),
                    vec![
                        (Pat::Vals(vec![PatVal::Lit(Expr::Bool(true))]), th),
                        (Pat::Vals(vec![PatVal::Lit(Expr::Bool(false))]), f),
                    ],
                )
            })));
            ops.push(op(&format!("match_enum_{t:?}"), t, &[EnumE, t, t], &[false, true, true], Box::new(|_, mut a| {
                let f = a.pop().unwrap();
                let th = a.pop().unwrap();
                Expr::Match(
                    bx(a.pop().unwrap()),
                    vec![
                        (Pat::Vals(vec![PatVal::Lit(Expr::EnumLit(0))]), th),
                        (Pat::Vals(vec![PatVal::Lit(Expr::EnumLit(1)), PatVal::Lit(Expr::EnumLit(2))]), f),
                    ],
                )
            })));
            ops.push(op(&format!("match_enum_default_{t:?}"), t, &[EnumE, t, t], &[false, true, true], Box::new(|_, mut a| {
                let f = a.pop().unwrap();
                let th = a.pop().unwrap();
                Expr::Match(
                    bx(a.pop().unwrap()),
                    vec![(Pat::Vals(vec![PatVal::Lit(Expr::EnumLit(2))]), th), (Pat::Default, f)],
                )
            })));
        }
        ops.push(op("match_optint_bind", Int, &[OptInt, Int, Int], &[false, true, true], Box::new(|n, mut a| {
            let none = a.pop().unwrap();
            let add = a.pop().unwrap();
            let w = n.fresh("m");
            Expr::Match(
                bx(a.pop().unwrap()),
                vec![
                    (
                        Pat::Vals(vec![PatVal::SomeBind(w.clone())]),
                        Expr::Builtin(Builtin::SatAdd, bx(Expr::Var(w)), bx(add)),
                    ),
                    (Pat::Vals(vec![PatVal::Lit(Expr::None_)]), none),
                ],
            )
        })));
        ops.push(op("match_optint_lit", Int, &[OptInt, Int, Int, Int], &[false, true, true, true], Box::new(|n, mut a| {
            let d = a.pop().unwrap();
            let none = a.pop().unwrap();
            let one = a.pop().unwrap();
            let w = n.fresh("m");
            Expr::Match(
                bx(a.pop().unwrap()),
                vec![
                    (Pat::Vals(vec![PatVal::Lit(Expr::Some_(bx(Expr::Int(1))))]), one),
                    (Pat::Vals(vec![PatVal::Lit(Expr::None_)]), none),
                    (
                        Pat::Vals(vec![PatVal::SomeBind(w.clone())]),
                        Expr::Builtin(Builtin::SatSub, bx(d), bx(Expr::Var(w))),
                    ),
                ],
            )
        })));
        ops.push(op("match_optbool", Int, &[OptBool, Int, Int, Int], &[false, true, true, true], Box::new(|_, mut a| {
            let none = a.pop().unwrap();
            let f = a.pop().unwrap();
            let t = a.pop().unwrap();
            Expr::Match(
                bx(a.pop().unwrap()),
                vec![
                    (Pat::Vals(vec![PatVal::Lit(Expr::Some_(bx(Expr::Bool(true))))]), t),
                    (Pat::Vals(vec![PatVal::Lit(Expr::Some_(bx(Expr::Bool(false))))]), f),
                    (Pat::Vals(vec![PatVal::Lit(Expr::None_)]), none),
                ],
            )
        })));
        ops.push(op("match_opts_bind", Int, &[OptS, Int], &[false, true], Box::new(|n, mut a| {
            let none = a.pop().unwrap();
            let w = n.fresh("m");
            Expr::Match(
                bx(a.pop().unwrap()),
                vec![
                    (Pat::Vals(vec![PatVal::SomeBind(w.clone())]), Expr::Dot(bx(Expr::Var(w)), "a")),
                    (Pat::Vals(vec![PatVal::Lit(Expr::None_)]), none),
                ],
            )
        })));
        ops.last_mut().unwrap().reject = Some(|a| is_bare_none(&a[0]));
        ops.push(op("match_res_bind", Int, &[ResIB, Int, Int], &[false, true, true], Box::new(|n, mut a| {
            let e = a.pop().unwrap();
            let add = a.pop().unwrap();
            let w = n.fresh("m");
            let u = n.fresh("m");
            Expr::Match(
                bx(a.pop().unwrap()),
                vec![
                    (
                        Pat::Vals(vec![PatVal::OkBind(w.clone())]),
                        Expr::Builtin(Builtin::SatAdd, bx(Expr::Var(w)), bx(add)),
                    ),
                    (
                        Pat::Vals(vec![PatVal::ErrBind(u.clone())]),
                        Expr::If(bx(Expr::Var(u)), bx(e), bx(Expr::Int(0))),
                    ),
                ],
            )
        })));
        ops.push(op("match_res_lit", Int, &[ResIB, Int, Int, Int], &[false, true, true, true], Box::new(|_, mut a| {
            let d = a.pop().unwrap();
            let e = a.pop().unwrap();
            let o = a.pop().unwrap();
            Expr::Match(
                bx(a.pop().unwrap()),
                vec![
                    (Pat::Vals(vec![PatVal::Lit(Expr::Ok_(bx(Expr::Int(0))))]), o),
                    (Pat::Vals(vec![PatVal::Lit(Expr::Err_(bx(Expr::Bool(true))))]), e),
                    (Pat::Default, d),
                ],
            )
        })));
        ops.push(op("match_str", Int, &[Str, Int, Int, Int], &[true, true, true, true], Box::new(|_, mut a| {
            let d = a.pop().unwrap();
            let b = a.pop().unwrap();
            let e = a.pop().unwrap();
            Expr::Match(
                bx(a.pop().unwrap()),
                vec![
                    (Pat::Vals(vec![PatVal::Lit(Expr::Str(""))]), e),
                    (Pat::Vals(vec![PatVal::Lit(Expr::Str("a"))]), b),
                    (Pat::Default, d),
                ],
            )
        })));
        ops.push(op("match_struct", Int, &[S, Int, Int], &[false, true, true], Box::new(|_, mut a| {
            let d = a.pop().unwrap();
            let m = a.pop().unwrap();
            Expr::Match(
                bx(a.pop().unwrap()),
                vec![
                    (
                        Pat::Vals(vec![PatVal::Lit(Expr::StructLit(
                            "S",
                            vec![("a", Expr::Int(1)), ("b", Expr::Bool(false))],
                            vec![],
                        ))]),
                        m,
                    ),
                    (Pat::Default, d),
                ],
            )
        })));
        // ---- helper calls
        ops.push(op("call_h_int", Int, &[Int], &[true], Box::new(|_, a| Expr::Call("h_int".into(), a))));
        ops.push(op("call_h_neg", Bool, &[Bool], &[true], Box::new(|_, a| Expr::Call("h_neg".into(), a))));
        ops.push(op("call_h_opt", OptInt, &[Int], &[true], Box::new(|_, a| Expr::Call("h_opt".into(), a))));
        ops.push(op("call_h_s", S, &[Int, Bool], &[true, true], Box::new(|_, a| Expr::Call("h_s".into(), a))));
        ops.push(op("call_h_early", Int, &[Int], &[true], Box::new(|_, a| Expr::Call("h_early".into(), a))));
        ops.push(op("call_h_chain", Int, &[Int], &[true], Box::new(|_, a| Expr::Call("h_chain".into(), a))));
        ops.push(op("call_h_res", ResIB, &[Int], &[true], Box::new(|_, a| Expr::Call("h_res".into(), a))));
        ops.push(op("call_h3", Int, &[Int, Int, Int], &[true, true, true], Box::new(|_, a| Expr::Call("h3".into(), a))));
        ops.push(op("call_h4", T, &[Int, Bool, Str, Int], &[true, true, true, true], Box::new(|_, a| Expr::Call("h4".into(), a))));
        Gen { ops, names: Names(Cell::new(0)) }
    }

    fn combos(&self, lists: &[Vec<Expr>], f: &mut dyn FnMut(Vec<Expr>)) {
        if lists.iter().any(|l| l.is_empty()) {
            return;
        }
        let mut idx = vec![0usize; lists.len()];
        loop {
            f(idx.iter().zip(lists).map(|(i, l)| l[*i].clone()).collect());
            let mut k = lists.len();
            loop {
                if k == 0 {
                    return;
                }
                k -= 1;
                idx[k] += 1;
                if idx[k] < lists[k].len() {
                    break;
                }
                idx[k] = 0;
            }
        }
    }

    /// Depth-1 expressions: each op over small-leaf combinations. Keyed by type.
    pub fn depth1_small(&self) -> BTreeMap<Ty, Vec<Expr>> {
        let mut out: BTreeMap<Ty, Vec<Expr>> = BTreeMap::new();
        for o in &self.ops {
            let lists: Vec<Vec<Expr>> = o.args.iter().map(|t| small_leaves(*t)).collect();
            self.combos(&lists, &mut |args| {
                if !o.rejects(&args) {
                    out.entry(o.ret).or_default().push((o.build)(&self.names, args))
                }
            });
        }
        out
    }

    /// `full1`: rich leaves.
    pub fn full1(&self) -> Vec<(Ty, Expr)> {
        let mut out = Vec::new();
        for o in &self.ops {
            if o.args.len() <= 2 {
                let lists: Vec<Vec<Expr>> = o.args.iter().map(|t| rich_leaves(*t)).collect();
                self.combos(&lists, &mut |args| {
                    if !o.rejects(&args) {
                        out.push((o.ret, (o.build)(&self.names, args)))
                    }
                });
            } else {
                for pos in 0..o.args.len() {
                    let lists: Vec<Vec<Expr>> = o
                        .args
                        .iter()
                        .enumerate()
                        .map(|(k, t)| if k == pos { rich_leaves(*t) } else { small_leaves(*t) })
                        .collect();
                    self.combos(&lists, &mut |args| {
                    if !o.rejects(&args) {
                        out.push((o.ret, (o.build)(&self.names, args)))
                    }
                });
                }
            }
        }
        out
    }

    /// One spine level: every op, every position filled from `sub[type]`, others small leaves.
    pub fn spine(&self, sub: &BTreeMap<Ty, Vec<Expr>>) -> BTreeMap<Ty, Vec<Expr>> {
        let mut out: BTreeMap<Ty, Vec<Expr>> = BTreeMap::new();
        for o in &self.ops {
            for pos in 0..o.args.len() {
                let Some(subs) = sub.get(&o.args[pos]) else { continue };
                let lists: Vec<Vec<Expr>> = o
                    .args
                    .iter()
                    .enumerate()
                    .map(|(k, t)| if k == pos { subs.clone() } else { small_leaves(*t) })
                    .collect();
                self.combos(&lists, &mut |args| {
                if !o.rejects(&args) {
                    out.entry(o.ret).or_default().push((o.build)(&self.names, args))
                }
            });
            }
        }
        out
    }

    /// Streaming spine level: like `spine`, but the other positions take only their first small
    /// leaf when `first_only`, and results are handed to `f` instead of being collected.
    pub fn spine_stream(&self, sub: &BTreeMap<Ty, Vec<Expr>>, first_only: bool, f: &mut dyn FnMut(Ty, Expr)) {
        for o in &self.ops {
            for pos in 0..o.args.len() {
                let Some(subs) = sub.get(&o.args[pos]) else { continue };
                let others: Vec<Vec<Expr>> = o
                    .args
                    .iter()
                    .enumerate()
                    .map(|(k, t)| {
                        if k == pos {
                            vec![Expr::Todo] // placeholder, replaced below
                        } else {
                            let mut l = small_leaves(*t);
                            if first_only {
                                l.truncate(1);
                            }
                            l
                        }
                    })
                    .collect();
                for s in subs {
                    self.combos(&others, &mut |mut args| {
                        args[pos] = s.clone();
                        if !o.rejects(&args) {
                            f(o.ret, (o.build)(&self.names, args));
                        }
                    });
                }
            }
        }
    }

    /// One representative depth-1 expression per operator (first small-leaf combination).
    pub fn reps1(&self) -> BTreeMap<Ty, Vec<Expr>> {
        let mut out: BTreeMap<Ty, Vec<Expr>> = BTreeMap::new();
        for o in &self.ops {
            let lists: Vec<Vec<Expr>> = o.args.iter().map(|t| small_leaves(*t)).collect();
            if lists.iter().any(|l| l.is_empty()) {
                continue;
            }
            let args = lists.iter().map(|l| l[0].clone()).collect();
            out.entry(o.ret).or_default().push((o.build)(&self.names, args));
        }
        out
    }

    /// Binary (and ternary) ops with *all* operands complex: representatives in every position.
    pub fn square2(&self) -> Vec<(Ty, Expr)> {
        let reps = self.reps1();
        let mut out = Vec::new();
        for o in &self.ops {
            if o.args.len() != 2 {
                continue;
            }
            let lists: Vec<Vec<Expr>> = o.args.iter().map(|t| reps.get(t).cloned().unwrap_or_default()).collect();
            self.combos(&lists, &mut |args| {
                    if !o.rejects(&args) {
                        out.push((o.ret, (o.build)(&self.names, args)))
                    }
                });
        }
        out
    }

    /// Diverging operands: every never-accepting position gets `todo()`, `test_fail()`, and
    /// `return <leaf of the op's result type>`; other positions take the first small leaf and
    /// (so that evaluation order against a second diverging operand is seen) `todo()`.
    pub fn never_family(&self) -> Vec<(Ty, Expr)> {
        let mut out = Vec::new();
        for o in &self.ops {
            let ret_leaves = small_leaves(o.ret);
            for pos in 0..o.args.len() {
                if !o.never_ok[pos] {
                    continue;
                }
                let mut fillers = vec![Expr::Todo, Expr::TestFail];
                if let Some(l) = ret_leaves.first() {
                    fillers.push(Expr::Ret(bx(l.clone())));
                }
                for f in fillers {
                    for other_diverges in [false, true] {
                        let mut args = Vec::new();
                        let mut ok = true;
                        let mut changed = false;
                        for (k, t) in o.args.iter().enumerate() {
                            if k == pos {
                                args.push(f.clone());
                            } else if other_diverges && o.never_ok[k] {
                                args.push(Expr::Todo);
                                changed = true;
                            } else {
                                match small_leaves(*t).first() {
                                    Some(l) => args.push(l.clone()),
                                    None => ok = false,
                                }
                            }
                        }
                        if !ok || (other_diverges && !changed) {
                            continue;
                        }
                        out.push((o.ret, (o.build)(&self.names, args)));
                    }
                }
            }
        }
        out
    }

    /// Diverging sub-expressions of the operand type `t` that return `ret_leaf` from the function:
    /// `return L`, `<option> or return L`, a block whose `check` diverges, `todo()`.
    fn diverging(t: Ty, ret_leaf: &Expr) -> Vec<Expr> {
        let ret = || Expr::Ret(bx(ret_leaf.clone()));
        let mut v = vec![ret(), Expr::Todo];
        let opt = match t {
            Ty::Int => Some("oi"),
            Ty::Bool => Some("ob"),
            Ty::S => Some("os"),
            _ => None,
        };
        if let Some(o) = opt {
            v.push(Expr::Bin(Bin::Coalesce, bx(Expr::Var(o.into())), bx(ret())));
        }
        if let Some(l) = small_leaves(t).first() {
            v.push(Expr::Block(vec![Stmt::Check(Expr::Var("b".into()), ret())], bx(l.clone())));
        }
        v
    }

    fn with_first_leaves(&self, o: &Op, pos: usize, at: Expr) -> Option<Expr> {
        let mut args = Vec::new();
        for (k, t) in o.args.iter().enumerate() {
            if k == pos {
                args.push(at.clone());
            } else {
                args.push(small_leaves(*t).first()?.clone());
            }
        }
        if o.rejects(&args) {
            return None;
        }
        Some((o.build)(&self.names, args))
    }

    /// Diverging sub-expressions one and two levels below the returned expression: every operator,
    /// every position, holding every operator that has a diverging operand in any of its positions
    /// (so that 0..3 operands are already evaluated when the function returns early); and, for
    /// calls / builtins / struct literals / comparisons, a third level.
    pub fn never_nested(&self) -> Vec<(Ty, Expr)> {
        let mut out = Vec::new();
        let deep = ["saturating_add", "add", "call_h_s", "call_h3", "call_h4", "lit_S", "lit_T", "eq_Int", "lt", "some_Int", "dot_T_a"];
        for o1 in &self.ops {
            let Some(ret_leaf) = small_leaves(o1.ret).first().cloned() else { continue };
            for p1 in 0..o1.args.len() {
                for o2 in self.ops.iter().filter(|o| o.ret == o1.args[p1]) {
                    for p2 in 0..o2.args.len() {
                        if !o2.never_ok[p2] {
                            continue;
                        }
                        // operators whose type is that of an operand become never-typed themselves
                        let transparent = ["block", "if_", "match_", "coalesce_", "comp"].iter().any(|p| o2.name.starts_with(p));
                        for d in Self::diverging(o2.args[p2], &ret_leaf) {
                            if transparent && matches!(d, Expr::Ret(_) | Expr::Todo) && !o1.never_ok[p1] {
                                continue;
                            }
                            let Some(mid) = self.with_first_leaves(o2, p2, d) else { continue };
                            if let Some(e) = self.with_first_leaves(o1, p1, mid) {
                                out.push((o1.ret, e));
                            }
                        }
                        // third level
                        if !deep.contains(&o1.name.as_str()) || !deep.contains(&o2.name.as_str()) {
                            continue;
                        }
                        for o3 in self.ops.iter().filter(|o| o.ret == o2.args[p2] && deep.contains(&o.name.as_str())) {
                            for p3 in 0..o3.args.len() {
                                if !o3.never_ok[p3] {
                                    continue;
                                }
                                for d in Self::diverging(o3.args[p3], &ret_leaf) {
                                    let Some(inner) = self.with_first_leaves(o3, p3, d) else { continue };
                                    let Some(mid) = self.with_first_leaves(o2, p2, inner) else { continue };
                                    if let Some(e) = self.with_first_leaves(o1, p1, mid) {
                                        out.push((o1.ret, e));
                                    }
                                }
                            }
                        }
                    }
                }
            }
        }
        out
    }

    /// Statement-level bodies. Each hole runs over `pool[type]`; other holes take small leaves.
    pub fn statement_bodies(&self, pool: &BTreeMap<Ty, Vec<Expr>>) -> Vec<(Ty, Vec<Stmt>)> {
        let mut out: Vec<(Ty, Vec<Stmt>)> = Vec::new();
        self.statement_bodies_stream(pool, false, &mut |t, b| out.push((t, b)));
        out
    }

    /// Streaming form; with `first_only` the non-pool holes take only their first small leaf.
    pub fn statement_bodies_stream(&self, pool: &BTreeMap<Ty, Vec<Expr>>, first_only: bool, sink: &mut dyn FnMut(Ty, Vec<Stmt>)) {
        let hole = |t: Ty, is_pool: bool| -> Vec<Expr> {
            if is_pool {
                pool.get(&t).cloned().unwrap_or_default()
            } else {
                let mut l = small_leaves(t);
                if first_only {
                    l.truncate(1);
                }
                l
            }
        };
        // templates: (hole types, builder)
        type TB = Box<dyn Fn(&Names, Vec<Expr>) -> Vec<Stmt>>;
        let mut templates: Vec<(Ty, Vec<Ty>, TB)> = Vec::new();
        for t in Ty::ALL {
            // let w = E  return w
            templates.push((t, vec![t], Box::new(|n, mut a| {
                let w = n.fresh("w");
                vec![Stmt::Let(w.clone(), a.remove(0)), Stmt::Return(Expr::Var(w))]
            })));
            // if C { return A } return B
            templates.push((t, vec![Ty::Bool, t, t], Box::new(|_, mut a| {
                let b = a.pop().unwrap();
                let x = a.pop().unwrap();
                vec![Stmt::If(vec![(a.pop().unwrap(), vec![Stmt::Return(x)])], None), Stmt::Return(b)]
            })));
            // check C else return A   return B
            templates.push((t, vec![Ty::Bool, t, t], Box::new(|_, mut a| {
                let b = a.pop().unwrap();
                let x = a.pop().unwrap();
                vec![Stmt::Check(a.pop().unwrap(), Expr::Ret(bx(x))), Stmt::Return(b)]
            })));
        }
        // if / else if / else with returns in every branch
        templates.push((Ty::Int, vec![Ty::Bool, Ty::Int, Ty::Bool, Ty::Int, Ty::Int], Box::new(|_, mut a| {
            let e = a.pop().unwrap();
            let b2 = a.pop().unwrap();
            let c2 = a.pop().unwrap();
            let b1 = a.pop().unwrap();
            vec![Stmt::If(
                vec![(a.pop().unwrap(), vec![Stmt::Return(b1)]), (c2, vec![Stmt::Return(b2)])],
                Some(vec![Stmt::Return(e)]),
            )]
        })));
        // fall off the end when the condition is false (panic)
        templates.push((Ty::Int, vec![Ty::Bool, Ty::Int], Box::new(|_, mut a| {
            let x = a.pop().unwrap();
            vec![Stmt::If(vec![(a.pop().unwrap(), vec![Stmt::Return(x)])], None)]
        })));
        // match statement on int with alternation and default
        templates.push((Ty::Int, vec![Ty::Int, Ty::Int, Ty::Int, Ty::Int], Box::new(|_, mut a| {
            let d = a.pop().unwrap();
            let b = a.pop().unwrap();
            let f = a.pop().unwrap();
            vec![Stmt::Match(
                a.pop().unwrap(),
                vec![
                    (Pat::Vals(vec![PatVal::Lit(Expr::Int(0))]), vec![Stmt::Return(f)]),
                    (
                        Pat::Vals(vec![PatVal::Lit(Expr::Int(1)), PatVal::Lit(Expr::Int(-1))]),
                        vec![Stmt::Return(b)],
                    ),
                    (Pat::Default, vec![Stmt::Return(d)]),
                ],
            )]
        })));
        // match statement with Some(x) binding; a let inside the arm; statement after the match
        templates.push((Ty::Int, vec![Ty::OptInt, Ty::Int, Ty::Int], Box::new(|n, mut a| {
            let after = a.pop().unwrap();
            let add = a.pop().unwrap();
            let m = n.fresh("m");
            let w = n.fresh("w");
            vec![
                Stmt::Match(
                    a.pop().unwrap(),
                    vec![
                        (
                            Pat::Vals(vec![PatVal::SomeBind(m.clone())]),
                            vec![
                                Stmt::Let(w.clone(), Expr::Builtin(Builtin::SatAdd, bx(Expr::Var(m)), bx(add))),
                                Stmt::Return(Expr::Var(w)),
                            ],
                        ),
                        (Pat::Vals(vec![PatVal::Lit(Expr::None_)]), vec![]),
                    ],
                ),
                Stmt::Return(after),
            ]
        })));
        // match statement on result with both bindings
        templates.push((Ty::Int, vec![Ty::ResIB, Ty::Int, Ty::Int], Box::new(|n, mut a| {
            let eb = a.pop().unwrap();
            let add = a.pop().unwrap();
            let m = n.fresh("m");
            let u = n.fresh("m");
            vec![Stmt::Match(
                a.pop().unwrap(),
                vec![
                    (
                        Pat::Vals(vec![PatVal::OkBind(m.clone())]),
                        vec![Stmt::Return(Expr::Builtin(Builtin::SatAdd, bx(Expr::Var(m)), bx(add)))],
                    ),
                    (
                        Pat::Vals(vec![PatVal::ErrBind(u.clone())]),
                        vec![Stmt::If(vec![(Expr::Var(u), vec![Stmt::Return(eb)])], None), Stmt::Return(Expr::Int(-7))],
                    ),
                ],
            )]
        })));
        // nested scopes: let, then a let inside an if block, use of both
        templates.push((Ty::Int, vec![Ty::Int, Ty::Bool, Ty::Int], Box::new(|n, mut a| {
            let inner = a.pop().unwrap();
            let c = a.pop().unwrap();
            let w0 = n.fresh("w");
            let w1 = n.fresh("w");
            vec![
                Stmt::Let(w0.clone(), a.pop().unwrap()),
                Stmt::If(
                    vec![(
                        c,
                        vec![
                            Stmt::Let(w1.clone(), inner),
                            Stmt::Return(Expr::Builtin(Builtin::SatSub, bx(Expr::Var(w0.clone())), bx(Expr::Var(w1.clone())))),
                        ],
                    )],
                    Some(vec![Stmt::Let(w1, Expr::Int(5))]),
                ),
                Stmt::Return(Expr::Var(w0)),
            ]
        })));
        // debug_assert
        templates.push((Ty::Int, vec![Ty::Bool, Ty::Int], Box::new(|_, mut a| {
            let x = a.pop().unwrap();
            vec![Stmt::DebugAssert(a.pop().unwrap()), Stmt::Return(x)]
        })));
        for (ret, holes, build) in &templates {
            for pos in 0..holes.len() {
                let lists: Vec<Vec<Expr>> = holes.iter().enumerate().map(|(k, t)| hole(*t, k == pos)).collect();
                self.combos(&lists, &mut |args| sink(*ret, build(&self.names, args)));
            }
        }
    }
}

impl Gen {
    /// Conditional constructs whose condition is a short-circuit expression over one
    /// representative of every bool-valued operator (comparisons, negation, is Some/None, …).
    pub fn cond_bodies(&self) -> Vec<(Ty, Vec<Stmt>)> {
        let reps = self.reps1().remove(&Ty::Bool).unwrap_or_default();
        let x = || Expr::Var("x".into());
        let mut out = Vec::new();
        for op in [Bin::And, Bin::Or] {
            for a in &reps {
                for b in &reps {
                    let c = Expr::Bin(op, bx(a.clone()), bx(b.clone()));
                    out.push((Ty::Int, vec![Stmt::If(vec![(c.clone(), vec![Stmt::Return(x())])], None), Stmt::Return(Expr::Int(1))]));
                    out.push((
                        Ty::Int,
                        vec![Stmt::If(vec![(c.clone(), vec![Stmt::Return(x())])], Some(vec![Stmt::Return(Expr::Int(1))]))],
                    ));
                    out.push((
                        Ty::Int,
                        vec![Stmt::If(
                            vec![(Expr::Var("c".into()), vec![Stmt::Return(Expr::Int(-1))]), (c.clone(), vec![Stmt::Return(x())])],
                            Some(vec![Stmt::Return(Expr::Int(1))]),
                        )],
                    ));
                    out.push((Ty::Int, vec![Stmt::Check(c.clone(), Expr::Ret(bx(x()))), Stmt::Return(Expr::Int(1))]));
                    // the conditional nested in an operand position (stack discipline around it)
                    out.push((
                        Ty::Int,
                        vec![Stmt::Return(Expr::Builtin(
                            Builtin::SatAdd,
                            bx(Expr::Var("y".into())),
                            bx(Expr::If(bx(c.clone()), bx(Expr::Int(1)), bx(Expr::Int(0)))),
                        ))],
                    ));
                    out.push((
                        Ty::Int,
                        vec![
                            Stmt::Let("w0".into(), Expr::Var("y".into())),
                            Stmt::If(vec![(c.clone(), vec![Stmt::Let("w1".into(), x())])], Some(vec![Stmt::Let("w2".into(), Expr::Int(1))])),
                            Stmt::Return(Expr::Var("w0".into())),
                        ],
                    ));
                }
            }
        }
        out
    }
}

impl Gen {
    /// Unary `!` applied to short-circuit `&&` / `||` (also nested) over one representative of
    /// every bool-valued operator, in value position, in a `let`, as an operand and in conditions.
    pub fn negated_short_circuit_bodies(&self) -> Vec<(Ty, Vec<Stmt>)> {
        let reps = self.reps1().remove(&Ty::Bool).unwrap_or_default();
        // operands whose code ends in a negation, plus plain ones, for the three-operand nestings
        let few: Vec<Expr> = vec![
            Expr::Not(bx(Expr::Var("c".into()))),
            Expr::Bin(Bin::Ne, bx(Expr::Var("x".into())), bx(Expr::Var("y".into()))),
            Expr::Bin(Bin::Ge, bx(Expr::Var("x".into())), bx(Expr::Var("y".into()))),
            Expr::Bin(Bin::Le, bx(Expr::Var("x".into())), bx(Expr::Int(0))),
            Expr::Is(bx(Expr::Var("oi".into())), false),
            Expr::Var("b".into()),
        ];
        let not = |e: Expr| Expr::Not(bx(e));
        let bin = |op: Bin, a: &Expr, b: &Expr| Expr::Bin(op, bx(a.clone()), bx(b.clone()));
        // (condition, all four positions?) — the three-operand nestings only in value and if position
        let mut conds: Vec<Expr> = Vec::new();
        for op in [Bin::And, Bin::Or] {
            for a in &reps {
                for b in &reps {
                    conds.push(not(bin(op, a, b)));
                }
            }
        }
        let n_pairs = conds.len();
        for op1 in [Bin::And, Bin::Or] {
            for op2 in [Bin::And, Bin::Or] {
                for a in &few {
                    for b in &few {
                        for c in &few {
                            conds.push(not(bin(op1, a, &bin(op2, b, c))));
                            conds.push(not(bin(op1, &bin(op2, a, b), c)));
                            conds.push(bin(op1, a, &not(bin(op2, b, c))));
                            conds.push(not(bin(op1, &not(bin(op2, a, b)), c)));
                            conds.push(not(not(bin(op1, a, &not(b.clone())))));
                        }
                    }
                }
            }
        }
        let x = || Expr::Var("x".into());
        let mut out = Vec::new();
        for (k, c) in conds.into_iter().enumerate() {
            out.push((Ty::Bool, vec![Stmt::Return(c.clone())]));
            if k >= n_pairs {
                out.push((Ty::Int, vec![Stmt::If(vec![(c.clone(), vec![Stmt::Return(x())])], Some(vec![Stmt::Return(Expr::Int(1))]))]));
                continue;
            }
            out.push((
                Ty::Bool,
                vec![Stmt::Let("w0".into(), c.clone()), Stmt::Let("w1".into(), x()), Stmt::Return(Expr::Bin(Bin::Eq, bx(Expr::Var("w0".into())), bx(Expr::Var("b".into()))))],
            ));
            out.push((Ty::Int, vec![Stmt::If(vec![(c.clone(), vec![Stmt::Return(x())])], Some(vec![Stmt::Return(Expr::Int(1))]))]));
            out.push((
                Ty::Int,
                vec![Stmt::Return(Expr::Builtin(
                    Builtin::SatAdd,
                    bx(Expr::Var("y".into())),
                    bx(Expr::If(bx(Expr::Call("h_neg".into(), vec![c.clone()])), bx(Expr::Int(1)), bx(Expr::Int(0)))),
                ))],
            ));
        }
        out
    }
}

/// Wrap an expression as `return e`.
pub fn ret_body(e: Expr) -> Vec<Stmt> {
    vec![Stmt::Return(e)]
}
