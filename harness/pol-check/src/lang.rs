//! Generator-side model of the policy language: types, expression/statement AST, a printer that
//! produces V2 policy text, and a deliberately boring tree-walking reference interpreter.
//!
//! The interpreter evaluates *this* AST (never the parsed one).  Semantics implemented here are
//! only those evident from the grammar comments (`policy.pest`), the compiler's own comments
//! (`a && b` becomes `if a { b } else { false }`, checked builtins return `option[int]`, a
//! function that does not hit `return` panics, `finish` ends policy evaluation, …) and the
//! instruction docs.  Constructs without evident semantics are not representable here.

use std::collections::BTreeMap;
use std::fmt::Write as _;

#[derive(Clone, Copy, Debug, PartialEq, Eq, Hash, PartialOrd, Ord)]
pub enum Ty {
    Int,
    Bool,
    Str,
    Id,
    EnumE,
    S,
    S2,
    T,
    OptInt,
    OptBool,
    OptS,
    ResIB,
}

impl Ty {
    pub const ALL: [Ty; 12] = [
        Ty::Int,
        Ty::Bool,
        Ty::Str,
        Ty::Id,
        Ty::EnumE,
        Ty::S,
        Ty::S2,
        Ty::T,
        Ty::OptInt,
        Ty::OptBool,
        Ty::OptS,
        Ty::ResIB,
    ];
    pub fn text(self) -> &'static str {
        match self {
            Ty::Int => "int",
            Ty::Bool => "bool",
            Ty::Str => "string",
            Ty::Id => "id",
            Ty::EnumE => "enum E",
            Ty::S => "struct S",
            Ty::S2 => "struct S2",
            Ty::T => "struct T",
            Ty::OptInt => "option[int]",
            Ty::OptBool => "option[bool]",
            Ty::OptS => "option[struct S]",
            Ty::ResIB => "result[int, bool]",
        }
    }
    pub fn opt_inner(self) -> Option<Ty> {
        match self {
            Ty::OptInt => Some(Ty::Int),
            Ty::OptBool => Some(Ty::Bool),
            Ty::OptS => Some(Ty::S),
            _ => None,
        }
    }
    pub fn opt_of(self) -> Option<Ty> {
        match self {
            Ty::Int => Some(Ty::OptInt),
            Ty::Bool => Some(Ty::OptBool),
            Ty::S => Some(Ty::OptS),
            _ => None,
        }
    }
    pub fn struct_name(self) -> Option<&'static str> {
        match self {
            Ty::S => Some("S"),
            Ty::S2 => Some("S2"),
            Ty::T => Some("T"),
            _ => None,
        }
    }
}

/// Field lists of the declared structs (declaration order).
pub fn struct_fields(name: &str) -> &'static [(&'static str, Ty)] {
    match name {
        "S" => &[("a", Ty::Int), ("b", Ty::Bool)],
        "S2" => &[("b", Ty::Bool), ("a", Ty::Int)],
        "T" => &[("a", Ty::Int), ("b", Ty::Bool), ("c", Ty::Str)],
        "P" => &[("p", Ty::Int)],
        "Q" => &[("q", Ty::Bool)],
        "R" => &[("r", Ty::Str)],
        "W" => &[("p", Ty::Int), ("q", Ty::Bool), ("r", Ty::Str), ("z", Ty::Int)],
        _ => &[],
    }
}

pub const ENUM_VARIANTS: [&str; 3] = ["A", "B", "C"];

/// The declarations every generated document starts with.
pub const PRELUDE: &str = "enum E { A, B, C }\nstruct S { a int, b bool }\nstruct S2 { b bool, a int }\nstruct T { a int, b bool, c string }\nstruct P { p int }\nstruct Q { q bool }\nstruct R { r string }\nstruct W { p int, q bool, r string, z int }\nlet g = 7\n";

/// Fixed parameter list of every generated function.
pub const PARAMS: [(&str, Ty); 14] = [
    ("x", Ty::Int),
    ("y", Ty::Int),
    ("b", Ty::Bool),
    ("c", Ty::Bool),
    ("s", Ty::Str),
    ("i", Ty::Id),
    ("j", Ty::Id),
    ("e", Ty::EnumE),
    ("st", Ty::S),
    ("tt", Ty::T),
    ("oi", Ty::OptInt),
    ("ob", Ty::OptBool),
    ("os", Ty::OptS),
    ("r", Ty::ResIB),
];

pub fn params_text() -> String {
    PARAMS.iter().map(|(n, t)| format!("{n} {}", t.text())).collect::<Vec<_>>().join(", ")
}

#[derive(Clone, Debug, PartialEq, Eq, PartialOrd, Ord)]
pub enum Val {
    Int(i64),
    Bool(bool),
    Str(String),
    /// ids are opaque: index into a table of fixed 32-byte ids
    Id(u8),
    Enum(u8),
    Struct(&'static str, BTreeMap<&'static str, Val>),
    Opt(Option<Box<Val>>),
    Res(Result<Box<Val>, Box<Val>>),
}

impl Val {
    pub fn some(v: Val) -> Val {
        Val::Opt(Some(Box::new(v)))
    }
    pub fn none() -> Val {
        Val::Opt(None)
    }
    pub fn strukt(name: &'static str, f: &[(&'static str, Val)]) -> Val {
        Val::Struct(name, f.iter().cloned().collect())
    }
}

#[derive(Clone, Copy, Debug, PartialEq, Eq)]
pub enum Bin {
    And,
    Or,
    Eq,
    Ne,
    Lt,
    Gt,
    Le,
    Ge,
    Coalesce,
}

#[derive(Clone, Copy, Debug, PartialEq, Eq)]
pub enum Builtin {
    Add,
    Sub,
    SatAdd,
    SatSub,
}

impl Builtin {
    pub fn name(self) -> &'static str {
        match self {
            Builtin::Add => "add",
            Builtin::Sub => "sub",
            Builtin::SatAdd => "saturating_add",
            Builtin::SatSub => "saturating_sub",
        }
    }
}

#[derive(Clone, Debug, PartialEq)]
pub enum Expr {
    Int(i64),
    Bool(bool),
    Str(&'static str),
    EnumLit(u8),
    None_,
    Var(String),
    Todo,
    TestFail,
    /// `return e` used as an expression (type never)
    Ret(Box<Expr>),
    /// `recall name(args)` used as an expression (type never; policy blocks only)
    RecallE(String, Vec<Expr>),
    Not(Box<Expr>),
    Bin(Bin, Box<Expr>, Box<Expr>),
    Builtin(Builtin, Box<Expr>, Box<Expr>),
    Is(Box<Expr>, bool),
    Some_(Box<Expr>),
    Ok_(Box<Expr>),
    Err_(Box<Expr>),
    If(Box<Expr>, Box<Expr>, Box<Expr>),
    Block(Vec<Stmt>, Box<Expr>),
    Match(Box<Expr>, Vec<(Pat, Expr)>),
    StructLit(&'static str, Vec<(&'static str, Expr)>, Vec<String>),
    Dot(Box<Expr>, &'static str),
    Substruct(Box<Expr>, &'static str),
    Cast(Box<Expr>, &'static str),
    Call(String, Vec<Expr>),
    /// foreign call `module::name(args)`
    Ffi(&'static str, &'static str, Vec<Expr>),
}

#[derive(Clone, Debug, PartialEq)]
pub enum Pat {
    Default,
    Vals(Vec<PatVal>),
}

#[derive(Clone, Debug, PartialEq)]
pub enum PatVal {
    /// a literal expression (int/bool/string/enum/None/Some(lit)/Ok(lit)/Err(lit)/struct literal)
    Lit(Expr),
    SomeBind(String),
    OkBind(String),
    ErrBind(String),
}

#[derive(Clone, Debug, PartialEq)]
pub struct FactLit {
    pub name: &'static str,
    pub keys: Vec<(&'static str, Expr)>,
    pub vals: Option<Vec<(&'static str, Expr)>>,
}

#[derive(Clone, Debug, PartialEq)]
pub enum Stmt {
    Let(String, Expr),
    /// `check cond else <never-typed expression>`
    Check(Expr, Expr),
    Return(Expr),
    If(Vec<(Expr, Vec<Stmt>)>, Option<Vec<Stmt>>),
    Match(Expr, Vec<(Pat, Vec<Stmt>)>),
    DebugAssert(Expr),
    // command-policy / finish statements
    Finish(Vec<Stmt>),
    Create(FactLit),
    Update(FactLit, Vec<(&'static str, Expr)>),
    Delete(FactLit),
    Emit(Expr),
    /// call of a finish function (statement)
    CallStmt(String, Vec<Expr>),
    Recall(String, Vec<Expr>),
}

#[derive(Clone, Debug, PartialEq)]
pub struct FnDef {
    pub name: String,
    pub params: Vec<(String, Ty)>,
    pub ret: Ty,
    pub body: Vec<Stmt>,
}

// ---------------------------------------------------------------------------------------------
// printer

fn atomic(e: &Expr) -> bool {
    matches!(
        e,
        Expr::Int(_)
            | Expr::Bool(_)
            | Expr::Str(_)
            | Expr::EnumLit(_)
            | Expr::None_
            | Expr::Var(_)
            | Expr::Todo
            | Expr::TestFail
            | Expr::Some_(_)
            | Expr::Ok_(_)
            | Expr::Err_(_)
            | Expr::Builtin(..)
            | Expr::Call(..)
            | Expr::Ffi(..)
            | Expr::StructLit(..)
    )
}

fn operand(out: &mut String, e: &Expr) {
    if atomic(e) {
        print_expr(out, e);
    } else {
        out.push('(');
        print_expr(out, e);
        out.push(')');
    }
}

fn print_args(out: &mut String, args: &[Expr]) {
    out.push('(');
    for (k, a) in args.iter().enumerate() {
        if k > 0 {
            out.push_str(", ");
        }
        print_expr(out, a);
    }
    out.push(')');
}

fn print_block_expr(out: &mut String, e: &Expr) {
    match e {
        Expr::Block(stmts, v) => {
            out.push_str("{ ");
            for s in stmts {
                print_stmt(out, s);
                out.push(' ');
            }
            out.push(':');
            print_expr(out, v);
            out.push_str(" }");
        }
        other => {
            out.push_str("{ :");
            print_expr(out, other);
            out.push_str(" }");
        }
    }
}

fn print_pat(out: &mut String, p: &Pat) {
    match p {
        Pat::Default => out.push('_'),
        Pat::Vals(vs) => {
            for (k, v) in vs.iter().enumerate() {
                if k > 0 {
                    out.push_str(" | ");
                }
                match v {
                    PatVal::Lit(e) => print_expr(out, e),
                    PatVal::SomeBind(n) => {
                        let _ = write!(out, "Some({n})");
                    }
                    PatVal::OkBind(n) => {
                        let _ = write!(out, "Ok({n})");
                    }
                    PatVal::ErrBind(n) => {
                        let _ = write!(out, "Err({n})");
                    }
                }
            }
        }
    }
}

pub fn print_expr(out: &mut String, e: &Expr) {
    match e {
        Expr::Int(n) => {
            let _ = write!(out, "{n}");
        }
        Expr::Bool(b) => {
            let _ = write!(out, "{b}");
        }
        Expr::Str(s) => {
            let _ = write!(out, "\"{s}\"");
        }
        Expr::EnumLit(k) => {
            let _ = write!(out, "E::{}", ENUM_VARIANTS[*k as usize]);
        }
        Expr::None_ => out.push_str("None"),
        Expr::Var(n) => out.push_str(n),
        Expr::Todo => out.push_str("todo()"),
        Expr::TestFail => out.push_str("test_fail(\"x\")"),
        Expr::Ret(v) => {
            out.push_str("return ");
            operand(out, v);
        }
        Expr::RecallE(n, args) => {
            let _ = write!(out, "recall {n}");
            print_args(out, args);
        }
        Expr::Not(a) => {
            out.push('!');
            operand(out, a);
        }
        Expr::Bin(op, a, b) => {
            operand(out, a);
            out.push_str(match op {
                Bin::And => " && ",
                Bin::Or => " || ",
                Bin::Eq => " == ",
                Bin::Ne => " != ",
                Bin::Lt => " < ",
                Bin::Gt => " > ",
                Bin::Le => " <= ",
                Bin::Ge => " >= ",
                Bin::Coalesce => " or ",
            });
            operand(out, b);
        }
        Expr::Builtin(f, a, b) => {
            out.push_str(f.name());
            out.push('(');
            print_expr(out, a);
            out.push_str(", ");
            print_expr(out, b);
            out.push(')');
        }
        Expr::Is(a, some) => {
            operand(out, a);
            out.push_str(if *some { " is Some" } else { " is None" });
        }
        Expr::Some_(a) => {
            out.push_str("Some(");
            print_expr(out, a);
            out.push(')');
        }
        Expr::Ok_(a) => {
            out.push_str("Ok(");
            print_expr(out, a);
            out.push(')');
        }
        Expr::Err_(a) => {
            out.push_str("Err(");
            print_expr(out, a);
            out.push(')');
        }
        Expr::If(c, t, f) => {
            out.push_str("if ");
            operand(out, c);
            out.push(' ');
            print_block_expr(out, t);
            out.push_str(" else ");
            print_block_expr(out, f);
        }
        Expr::Block(..) => print_block_expr(out, e),
        Expr::Match(s, arms) => {
            out.push_str("match ");
            operand(out, s);
            out.push_str(" {");
            for (p, body) in arms {
                out.push(' ');
                print_pat(out, p);
                out.push_str(" => ");
                operand(out, body);
            }
            out.push_str(" }");
        }
        Expr::StructLit(name, fields, sources) => {
            let _ = write!(out, "{name} {{");
            let mut first = true;
            for (f, v) in fields {
                if !first {
                    out.push(',');
                }
                first = false;
                let _ = write!(out, " {f}: ");
                print_expr(out, v);
            }
            for s in sources {
                if !first {
                    out.push(',');
                }
                first = false;
                let _ = write!(out, " ...{s}");
            }
            out.push_str(" }");
        }
        Expr::Dot(a, f) => {
            operand(out, a);
            let _ = write!(out, ".{f}");
        }
        Expr::Substruct(a, n) => {
            operand(out, a);
            let _ = write!(out, " substruct {n}");
        }
        Expr::Cast(a, n) => {
            operand(out, a);
            let _ = write!(out, " as {n}");
        }
        Expr::Call(n, args) => {
            out.push_str(n);
            print_args(out, args);
        }
        Expr::Ffi(m, n, args) => {
            let _ = write!(out, "{m}::{n}");
            print_args(out, args);
        }
    }
}

fn print_fact(out: &mut String, f: &FactLit) {
    let _ = write!(out, "{}[", f.name);
    for (k, (n, e)) in f.keys.iter().enumerate() {
        if k > 0 {
            out.push_str(", ");
        }
        let _ = write!(out, "{n}: ");
        print_expr(out, e);
    }
    out.push(']');
    if let Some(vals) = &f.vals {
        out.push_str("=>{");
        for (k, (n, e)) in vals.iter().enumerate() {
            if k > 0 {
                out.push_str(", ");
            }
            let _ = write!(out, "{n}: ");
            print_expr(out, e);
        }
        out.push('}');
    }
}

pub fn print_stmts(out: &mut String, stmts: &[Stmt]) {
    for s in stmts {
        out.push(' ');
        print_stmt(out, s);
    }
}

pub fn print_stmt(out: &mut String, s: &Stmt) {
    match s {
        Stmt::Let(n, e) => {
            let _ = write!(out, "let {n} = ");
            print_expr(out, e);
        }
        Stmt::Check(c, e) => {
            out.push_str("check ");
            print_expr(out, c);
            out.push_str(" else ");
            print_expr(out, e);
        }
        Stmt::Return(e) => {
            out.push_str("return ");
            print_expr(out, e);
        }
        Stmt::If(branches, fallback) => {
            for (k, (c, body)) in branches.iter().enumerate() {
                out.push_str(if k == 0 { "if " } else { " else if " });
                print_expr(out, c);
                out.push_str(" {");
                print_stmts(out, body);
                out.push_str(" }");
            }
            if let Some(fb) = fallback {
                out.push_str(" else {");
                print_stmts(out, fb);
                out.push_str(" }");
            }
        }
        Stmt::Match(sc, arms) => {
            out.push_str("match ");
            print_expr(out, sc);
            out.push_str(" {");
            for (p, body) in arms {
                out.push(' ');
                print_pat(out, p);
                out.push_str(" => {");
                print_stmts(out, body);
                out.push_str(" }");
            }
            out.push_str(" }");
        }
        Stmt::DebugAssert(e) => {
            out.push_str("debug_assert(");
            print_expr(out, e);
            out.push(')');
        }
        Stmt::Finish(body) => {
            out.push_str("finish {");
            print_stmts(out, body);
            out.push_str(" }");
        }
        Stmt::Create(f) => {
            out.push_str("create ");
            print_fact(out, f);
        }
        Stmt::Update(f, to) => {
            out.push_str("update ");
            print_fact(out, f);
            out.push_str(" to {");
            for (k, (n, e)) in to.iter().enumerate() {
                if k > 0 {
                    out.push_str(", ");
                }
                let _ = write!(out, "{n}: ");
                print_expr(out, e);
            }
            out.push('}');
        }
        Stmt::Delete(f) => {
            out.push_str("delete ");
            print_fact(out, f);
        }
        Stmt::Emit(e) => {
            out.push_str("emit ");
            print_expr(out, e);
        }
        Stmt::CallStmt(n, args) => {
            out.push_str(n);
            print_args(out, args);
        }
        Stmt::Recall(n, args) => {
            let _ = write!(out, "recall {n}");
            print_args(out, args);
        }
    }
}

pub fn print_fn(f: &FnDef) -> String {
    let mut out = String::new();
    let params = f.params.iter().map(|(n, t)| format!("{n} {}", t.text())).collect::<Vec<_>>().join(", ");
    let _ = write!(out, "function {}({}) {} {{", f.name, params, f.ret.text());
    print_stmts(&mut out, &f.body);
    out.push_str(" }");
    out
}

pub fn expr_text(e: &Expr) -> String {
    let mut s = String::new();
    print_expr(&mut s, e);
    s
}

// ---------------------------------------------------------------------------------------------
// reference interpreter

#[derive(Clone, Debug, PartialEq)]
pub enum IoEvent {
    Insert { fact: &'static str, keys: Vec<Val>, vals: Vec<Val> },
    Delete { fact: &'static str, keys: Vec<Val> },
    Effect { name: &'static str, fields: BTreeMap<&'static str, Val>, recalled: bool },
}

#[derive(Clone, Debug, PartialEq)]
pub enum Stop {
    /// `return v` unwinding to the enclosing function
    Return(Val),
    /// policy panic (`todo()`, `test_fail()`, falling off a function, failed debug_assert, …)
    Panic,
    /// evaluation of the whole entry point has ended (finish executed / recall block ended)
    Exit(Exit),
    /// the fact store refused the operation (create of an existing fact, delete/update of a
    /// missing one, update whose expected values differ): the VM reports a machine error
    IoError(&'static str),
    /// the construct is outside what the interpreter models (reported, never compared)
    Unmodelled(&'static str),
}

#[derive(Clone, Copy, Debug, PartialEq, Eq)]
pub enum Exit {
    Normal,
    Check,
}

/// A user-defined callable of the generated document.
#[derive(Clone, Debug)]
pub enum Callable {
    Pure(FnDef),
    /// finish function: params + finish statements
    Finish { params: Vec<String>, body: Vec<Stmt> },
}

pub type FfiHandler = fn(&str, &[Val], &mut Vec<i64>) -> Option<Val>;

pub struct Interp<'a> {
    pub fns: &'a BTreeMap<String, Callable>,
    pub globals: &'a BTreeMap<String, Val>,
    /// recall blocks of the command under evaluation: name -> (params, body)
    pub recalls: &'a BTreeMap<String, (Vec<String>, Vec<Stmt>)>,
    pub io: Vec<IoEvent>,
    pub ffi_log: Vec<i64>,
    pub ffi: Option<FfiHandler>,
    /// current fact store model for update/delete preconditions (fact name, keys) -> vals
    pub facts: BTreeMap<(&'static str, Vec<Val>), Vec<Val>>,
    pub in_recall: bool,
    pub recall_taken: bool,
    pub finish_entered: bool,
    pub steps: u64,
    depth: u32,
}

pub struct Env {
    scopes: Vec<Vec<(String, Val)>>,
}

impl Env {
    pub fn new() -> Self {
        Env { scopes: vec![Vec::new()] }
    }
    pub fn with(bindings: Vec<(String, Val)>) -> Self {
        Env { scopes: vec![bindings] }
    }
    fn push(&mut self) {
        self.scopes.push(Vec::new());
    }
    fn pop(&mut self) {
        self.scopes.pop();
    }
    fn truncate(&mut self, n: usize) {
        self.scopes.truncate(n);
    }
    fn depth(&self) -> usize {
        self.scopes.len()
    }
    fn def(&mut self, n: &str, v: Val) {
        self.scopes.last_mut().unwrap().push((n.to_string(), v));
    }
    fn get(&self, n: &str) -> Option<&Val> {
        for sc in self.scopes.iter().rev() {
            for (k, v) in sc.iter().rev() {
                if k == n {
                    return Some(v);
                }
            }
        }
        None
    }
}

type R<T> = Result<T, Stop>;

impl<'a> Interp<'a> {
    pub fn new(
        fns: &'a BTreeMap<String, Callable>,
        globals: &'a BTreeMap<String, Val>,
        recalls: &'a BTreeMap<String, (Vec<String>, Vec<Stmt>)>,
    ) -> Self {
        Interp {
            fns,
            globals,
            recalls,
            io: Vec::new(),
            ffi_log: Vec::new(),
            ffi: None,
            facts: BTreeMap::new(),
            in_recall: false,
            recall_taken: false,
            finish_entered: false,
            steps: 0,
            depth: 0,
        }
    }

    /// Evaluate a pure function on argument values: `Ok(v)` = returned v; `Err(Stop::Panic)`.
    pub fn call_fn(&mut self, name: &str, args: Vec<Val>) -> R<Val> {
        let Some(Callable::Pure(f)) = self.fns.get(name) else {
            return Err(Stop::Unmodelled("unknown function"));
        };
        if f.params.len() != args.len() {
            return Err(Stop::Unmodelled("arity"));
        }
        self.depth += 1;
        if self.depth > 64 {
            return Err(Stop::Unmodelled("call depth"));
        }
        let mut env = Env::with(f.params.iter().map(|(n, _)| n.clone()).zip(args).collect());
        let body = &f.body;
        let r = self.exec_block(body, &mut env);
        self.depth -= 1;
        match r {
            // falling off the end of a function body: the compiler appends Exit(Panic)
            Ok(()) => Err(Stop::Panic),
            Err(Stop::Return(v)) => Ok(v),
            Err(e) => Err(e),
        }
    }

    fn recall(&mut self, name: &str, args: Vec<Val>, this: Option<Val>, envelope: Option<Val>) -> Stop {
        let Some((params, body)) = self.recalls.get(name) else {
            return Stop::Unmodelled("unknown recall block");
        };
        self.in_recall = true;
        self.recall_taken = true;
        let mut b: Vec<(String, Val)> = params.iter().cloned().zip(args).collect();
        if let Some(t) = this {
            b.push(("this".into(), t));
        }
        if let Some(e) = envelope {
            b.push(("envelope".into(), e));
        }
        let mut env = Env::with(b);
        match self.exec_block(body, &mut env) {
            // recall blocks end with Exit(Check)
            Ok(()) => Stop::Exit(Exit::Check),
            Err(e) => e,
        }
    }

    /// Run a command policy body. Returns the exit.
    pub fn run_policy(&mut self, body: &[Stmt], this: Val) -> Stop {
        let mut env = Env::with(vec![("this".into(), this)]);
        match self.exec_block(body, &mut env) {
            // policy blocks that do not reach `finish` panic
            Ok(()) => Stop::Panic,
            Err(e) => e,
        }
    }

    pub fn exec_block(&mut self, stmts: &[Stmt], env: &mut Env) -> R<()> {
        for s in stmts {
            self.exec(s, env)?;
        }
        Ok(())
    }

    fn scoped(&mut self, stmts: &[Stmt], env: &mut Env) -> R<()> {
        let d = env.depth();
        env.push();
        let r = self.exec_block(stmts, env);
        env.truncate(d);
        r
    }

    fn eval_bool(&mut self, e: &Expr, env: &mut Env) -> R<bool> {
        match self.eval(e, env)? {
            Val::Bool(b) => Ok(b),
            _ => Err(Stop::Unmodelled("non-bool condition")),
        }
    }

    fn match_arm(&mut self, sc: &Val, pat: &Pat, env: &mut Env) -> R<Option<Option<(String, Val)>>> {
        // Ok(None) = no match; Ok(Some(binding?)) = match
        match pat {
            Pat::Default => Ok(Some(None)),
            Pat::Vals(vs) => {
                for pv in vs {
                    match pv {
                        PatVal::Lit(l) => {
                            let lv = self.eval(l, env)?;
                            if &lv == sc {
                                return Ok(Some(None));
                            }
                        }
                        PatVal::SomeBind(n) => {
                            if let Val::Opt(Some(inner)) = sc {
                                return Ok(Some(Some((n.clone(), (**inner).clone()))));
                            }
                        }
                        PatVal::OkBind(n) => {
                            if let Val::Res(Ok(inner)) = sc {
                                return Ok(Some(Some((n.clone(), (**inner).clone()))));
                            }
                        }
                        PatVal::ErrBind(n) => {
                            if let Val::Res(Err(inner)) = sc {
                                return Ok(Some(Some((n.clone(), (**inner).clone()))));
                            }
                        }
                    }
                }
                Ok(None)
            }
        }
    }

    fn fact_lit(&mut self, f: &FactLit, env: &mut Env) -> R<(Vec<Val>, Vec<Val>)> {
        let mut keys = Vec::new();
        for (_, e) in &f.keys {
            keys.push(self.eval(e, env)?);
        }
        let mut vals = Vec::new();
        if let Some(vs) = &f.vals {
            for (_, e) in vs {
                vals.push(self.eval(e, env)?);
            }
        }
        Ok((keys, vals))
    }

    pub fn exec(&mut self, s: &Stmt, env: &mut Env) -> R<()> {
        self.steps += 1;
        match s {
            Stmt::Let(n, e) => {
                let v = self.eval(e, env)?;
                env.def(n, v);
                Ok(())
            }
            Stmt::Check(c, els) => {
                if self.eval_bool(c, env)? {
                    Ok(())
                } else {
                    // the else expression has type never: evaluating it always stops
                    self.eval(els, env)?;
                    Err(Stop::Unmodelled("check else returned"))
                }
            }
            Stmt::Return(e) => {
                let v = self.eval(e, env)?;
                Err(Stop::Return(v))
            }
            Stmt::If(branches, fallback) => {
                for (c, body) in branches {
                    if self.eval_bool(c, env)? {
                        return self.scoped(body, env);
                    }
                }
                if let Some(fb) = fallback {
                    return self.scoped(fb, env);
                }
                Ok(())
            }
            Stmt::Match(sc, arms) => {
                let v = self.eval(sc, env)?;
                for (p, body) in arms {
                    if let Some(binding) = self.match_arm(&v, p, env)? {
                        let d = env.depth();
                        env.push();
                        if let Some((n, bv)) = binding {
                            env.def(&n, bv);
                        }
                        let r = self.exec_block(body, env);
                        env.truncate(d);
                        return r;
                    }
                }
                Err(Stop::Unmodelled("no match arm"))
            }
            Stmt::DebugAssert(e) => {
                if self.eval_bool(e, env)? {
                    Ok(())
                } else {
                    Err(Stop::Panic)
                }
            }
            Stmt::Finish(body) => {
                self.finish_entered = true;
                self.scoped(body, env)?;
                // "The finish statement ends further policy processing after executing its
                // statements"; in a recall block the exit is Check.
                Err(Stop::Exit(if self.in_recall { Exit::Check } else { Exit::Normal }))
            }
            Stmt::Create(f) => {
                let (keys, vals) = self.fact_lit(f, env)?;
                // the I/O layer sees the call before it can refuse it
                self.io.push(IoEvent::Insert { fact: f.name, keys: keys.clone(), vals: vals.clone() });
                if self.facts.contains_key(&(f.name, keys.clone())) {
                    return Err(Stop::IoError("fact exists"));
                }
                self.facts.insert((f.name, keys), vals);
                Ok(())
            }
            Stmt::Delete(f) => {
                let (keys, _) = self.fact_lit(f, env)?;
                self.io.push(IoEvent::Delete { fact: f.name, keys: keys.clone() });
                if self.facts.remove(&(f.name, keys)).is_none() {
                    return Err(Stop::IoError("fact not found"));
                }
                Ok(())
            }
            Stmt::Update(f, to) => {
                let (keys, from_vals) = self.fact_lit(f, env)?;
                let mut to_vals = Vec::new();
                for (_, e) in to {
                    to_vals.push(self.eval(e, env)?);
                }
                match self.facts.get(&(f.name, keys.clone())) {
                    None => return Err(Stop::IoError("update of missing fact")),
                    Some(cur) => {
                        if f.vals.is_some() && cur != &from_vals {
                            return Err(Stop::IoError("update precondition mismatch"));
                        }
                    }
                }
                self.facts.insert((f.name, keys.clone()), to_vals.clone());
                self.io.push(IoEvent::Delete { fact: f.name, keys: keys.clone() });
                self.io.push(IoEvent::Insert { fact: f.name, keys, vals: to_vals });
                Ok(())
            }
            Stmt::Emit(e) => {
                let v = self.eval(e, env)?;
                let Val::Struct(name, fields) = v else {
                    return Err(Stop::Unmodelled("emit of non-struct"));
                };
                self.io.push(IoEvent::Effect { name, fields, recalled: self.in_recall });
                Ok(())
            }
            Stmt::CallStmt(name, args) => {
                let mut vals = Vec::new();
                for a in args {
                    vals.push(self.eval(a, env)?);
                }
                let Some(Callable::Finish { params, body }) = self.fns.get(name.as_str()) else {
                    return Err(Stop::Unmodelled("unknown finish function"));
                };
                self.depth += 1;
                if self.depth > 64 {
                    return Err(Stop::Unmodelled("call depth"));
                }
                let mut fenv = Env::with(params.iter().cloned().zip(vals).collect());
                let r = self.exec_block(body, &mut fenv);
                self.depth -= 1;
                r
            }
            Stmt::Recall(name, args) => {
                let mut vals = Vec::new();
                for a in args {
                    vals.push(self.eval(a, env)?);
                }
                let this = env.get("this").cloned();
                let envelope = env.get("envelope").cloned();
                Err(self.recall(name, vals, this, envelope))
            }
        }
    }

    pub fn eval(&mut self, e: &Expr, env: &mut Env) -> R<Val> {
        self.steps += 1;
        Ok(match e {
            Expr::Int(n) => Val::Int(*n),
            Expr::Bool(b) => Val::Bool(*b),
            Expr::Str(s) => Val::Str((*s).to_string()),
            Expr::EnumLit(k) => Val::Enum(*k),
            Expr::None_ => Val::none(),
            Expr::Var(n) => match env.get(n) {
                Some(v) => v.clone(),
                None => match self.globals.get(n.as_str()) {
                    Some(v) => v.clone(),
                    None => return Err(Stop::Unmodelled("unbound variable")),
                },
            },
            Expr::Todo | Expr::TestFail => return Err(Stop::Panic),
            Expr::Ret(v) => {
                let v = self.eval(v, env)?;
                return Err(Stop::Return(v));
            }
            Expr::RecallE(name, args) => {
                let mut vals = Vec::new();
                for a in args {
                    vals.push(self.eval(a, env)?);
                }
                let this = env.get("this").cloned();
                let envelope = env.get("envelope").cloned();
                return Err(self.recall(name, vals, this, envelope));
            }
            Expr::Not(a) => Val::Bool(!self.eval_bool(a, env)?),
            Expr::Bin(op, a, b) => match op {
                Bin::And => {
                    if self.eval_bool(a, env)? {
                        Val::Bool(self.eval_bool(b, env)?)
                    } else {
                        Val::Bool(false)
                    }
                }
                Bin::Or => {
                    if self.eval_bool(a, env)? {
                        Val::Bool(true)
                    } else {
                        Val::Bool(self.eval_bool(b, env)?)
                    }
                }
                Bin::Coalesce => match self.eval(a, env)? {
                    Val::Opt(Some(v)) => *v,
                    Val::Opt(None) => self.eval(b, env)?,
                    _ => return Err(Stop::Unmodelled("coalesce of non-option")),
                },
                Bin::Eq | Bin::Ne => {
                    let av = self.eval(a, env)?;
                    let bv = self.eval(b, env)?;
                    Val::Bool((av == bv) == (*op == Bin::Eq))
                }
                Bin::Lt | Bin::Gt | Bin::Le | Bin::Ge => {
                    let (Val::Int(av), Val::Int(bv)) = (self.eval(a, env)?, self.eval(b, env)?) else {
                        return Err(Stop::Unmodelled("comparison of non-int"));
                    };
                    Val::Bool(match op {
                        Bin::Lt => av < bv,
                        Bin::Gt => av > bv,
                        Bin::Le => av <= bv,
                        _ => av >= bv,
                    })
                }
            },
            Expr::Builtin(f, a, b) => {
                let (Val::Int(av), Val::Int(bv)) = (self.eval(a, env)?, self.eval(b, env)?) else {
                    return Err(Stop::Unmodelled("arithmetic on non-int"));
                };
                // i128 arithmetic: independent of the std checked_/saturating_ helpers the VM uses
                let wide = match f {
                    Builtin::Add | Builtin::SatAdd => av as i128 + bv as i128,
                    Builtin::Sub | Builtin::SatSub => av as i128 - bv as i128,
                };
                let in_range = wide >= i64::MIN as i128 && wide <= i64::MAX as i128;
                match f {
                    Builtin::Add | Builtin::Sub => {
                        if in_range {
                            Val::some(Val::Int(wide as i64))
                        } else {
                            Val::none()
                        }
                    }
                    Builtin::SatAdd | Builtin::SatSub => Val::Int(if in_range {
                        wide as i64
                    } else if wide < 0 {
                        i64::MIN
                    } else {
                        i64::MAX
                    }),
                }
            }
            Expr::Is(a, some) => match self.eval(a, env)? {
                Val::Opt(o) => Val::Bool(o.is_some() == *some),
                _ => return Err(Stop::Unmodelled("is on non-option")),
            },
            Expr::Some_(a) => Val::some(self.eval(a, env)?),
            Expr::Ok_(a) => Val::Res(Ok(Box::new(self.eval(a, env)?))),
            Expr::Err_(a) => Val::Res(Err(Box::new(self.eval(a, env)?))),
            Expr::If(c, t, f) => {
                if self.eval_bool(c, env)? {
                    self.eval(t, env)?
                } else {
                    self.eval(f, env)?
                }
            }
            Expr::Block(stmts, v) => {
                let d = env.depth();
                env.push();
                let r = match self.exec_block(stmts, env) {
                    Ok(()) => self.eval(v, env),
                    Err(e) => Err(e),
                };
                env.truncate(d);
                r?
            }
            Expr::Match(sc, arms) => {
                let v = self.eval(sc, env)?;
                let mut result = None;
                for (p, body) in arms {
                    if let Some(binding) = self.match_arm(&v, p, env)? {
                        let d = env.depth();
                        env.push();
                        if let Some((n, bv)) = binding {
                            env.def(&n, bv);
                        }
                        let r = self.eval(body, env);
                        env.truncate(d);
                        result = Some(r?);
                        break;
                    }
                }
                match result {
                    Some(v) => v,
                    None => return Err(Stop::Unmodelled("no match arm")),
                }
            }
            Expr::StructLit(name, fields, sources) => {
                let mut m = BTreeMap::new();
                for (f, fe) in fields {
                    m.insert(*f, self.eval(fe, env)?);
                }
                // `...src` copies every field of src that the literal did not set
                for src in sources {
                    let Some(Val::Struct(_, sf)) = env.get(src).cloned() else {
                        return Err(Stop::Unmodelled("composition source"));
                    };
                    for (k, v) in sf {
                        m.entry(k).or_insert(v);
                    }
                }
                Val::Struct(name, m)
            }
            Expr::Dot(a, f) => match self.eval(a, env)? {
                Val::Struct(_, m) => match m.get(f) {
                    Some(v) => v.clone(),
                    None => return Err(Stop::Unmodelled("missing field")),
                },
                _ => return Err(Stop::Unmodelled("dot on non-struct")),
            },
            Expr::Substruct(a, name) => match self.eval(a, env)? {
                Val::Struct(_, m) => {
                    let mut out = BTreeMap::new();
                    for (f, _) in struct_fields(name) {
                        match m.get(f) {
                            Some(v) => {
                                out.insert(*f, v.clone());
                            }
                            None => return Err(Stop::Unmodelled("substruct field")),
                        }
                    }
                    Val::Struct(name, out)
                }
                _ => return Err(Stop::Unmodelled("substruct on non-struct")),
            },
            Expr::Cast(a, name) => match self.eval(a, env)? {
                Val::Struct(_, m) => Val::Struct(name, m),
                _ => return Err(Stop::Unmodelled("cast on non-struct")),
            },
            Expr::Call(name, args) => {
                let mut vals = Vec::new();
                for a in args {
                    vals.push(self.eval(a, env)?);
                }
                self.call_fn(name, vals)?
            }
            Expr::Ffi(_m, name, args) => {
                let mut vals = Vec::new();
                for a in args {
                    vals.push(self.eval(a, env)?);
                }
                let Some(h) = self.ffi else {
                    return Err(Stop::Unmodelled("ffi without handler"));
                };
                match h(name, &vals, &mut self.ffi_log) {
                    Some(v) => v,
                    None => return Err(Stop::Unmodelled("ffi function")),
                }
            }
        })
    }
}

impl Env {
    #[allow(dead_code)]
    pub fn pop_scope(&mut self) {
        self.pop()
    }
}
