//! pol-check: C22, C23, C24, C28, C30 — bounded exhaustive enumeration of policy programs run on the
//! real parser + compiler + VM against a reference interpreter written in the harness.
#![allow(dead_code)]
mod c22;
mod c23;
mod c24;
mod c28;
mod c30;
mod gen;
mod lang;
mod vmrun;

fn main() {
    let args = mcx::parse_args();
    mcx::quiet_panics();
    match args.prop.as_str() {
        "C22" => c22::run(&args),
        "C23" => c23::run(&args),
        "C24" => c24::run(&args),
        "C28" => c28::run(&args),
        "C30" => c30::run(&args),
        p => mcx::machinery_error(&format!("pol-check does not serve {p}")),
    }
}
