//! Driving the real parser + compiler + VM, with a recording `MachineIO` and the `probe` FFI module.

use std::{cell::RefCell, collections::BTreeMap, str::FromStr};

use aranya_crypto::{policy::CmdId, DeviceId};
use aranya_policy_ast::Version;
use aranya_policy_compiler::Compiler;
use aranya_policy_lang::lang::{parse_policy_document, parse_policy_str};
use aranya_policy_vm::{
    ffi::{Arg, Func, ModuleSchema, Type},
    ident, ActionContext, BaseId, CommandContext, ExitReason, FactKey, FactKeyList, FactValue, FactValueList,
    Identifier, KVPair, Label, LabelType, Machine, MachineError, MachineErrorType, MachineIO, MachineIOError,
    MachineStatus, Module, PolicyContext, Stack, Struct, Text, Value,
};

use crate::lang::Val;

pub fn ident_of(s: &str) -> Identifier {
    Identifier::from_str(s).unwrap_or_else(|_| mcx::machinery_error(&format!("bad identifier {s}")))
}

pub fn text_of(s: &str) -> Text {
    Text::from_str(s).unwrap_or_else(|_| mcx::machinery_error(&format!("bad text {s:?}")))
}

pub fn id_of(k: u8) -> BaseId {
    let mut b = [k; 32];
    b[0] = 0xA0 | (k & 0x0f);
    BaseId::from_bytes(b)
}

pub fn to_value(v: &Val) -> Value {
    match v {
        Val::Int(n) => Value::Int(*n),
        Val::Bool(b) => Value::Bool(*b),
        Val::Str(s) => Value::String(text_of(s)),
        Val::Id(k) => Value::Id(id_of(*k)),
        Val::Enum(k) => Value::Enum(ident!("E"), *k as i64),
        Val::Struct(name, fields) => Value::Struct(Struct {
            name: ident_of(name),
            fields: fields.iter().map(|(k, v)| (ident_of(k), to_value(v))).collect(),
        }),
        Val::Opt(o) => Value::Option(o.as_ref().map(|b| Box::new(to_value(b)))),
        Val::Res(r) => Value::Result(match r {
            Ok(v) => Ok(Box::new(to_value(v))),
            Err(v) => Err(Box::new(to_value(v))),
        }),
    }
}

/// FFI schema of the harness module `probe`:
///   0: function hit(i int) int        — logs i, returns i
///   1: function hitb(i int, v bool) bool — logs i, returns v
///   2: function hito(i int) option[int] — logs i, returns Some(i)
pub static PROBE_SCHEMA: &[ModuleSchema<'static>] = &[ModuleSchema {
    name: ident!("probe"),
    functions: &[
        Func { name: ident!("hit"), args: &[Arg { name: ident!("i"), vtype: Type::Int }], return_type: Type::Int },
        Func {
            name: ident!("hitb"),
            args: &[Arg { name: ident!("i"), vtype: Type::Int }, Arg { name: ident!("v"), vtype: Type::Bool }],
            return_type: Type::Bool,
        },
        Func {
            name: ident!("hito"),
            args: &[Arg { name: ident!("i"), vtype: Type::Int }],
            return_type: Type::Optional(&Type::Int),
        },
    ],
    structs: &[],
    enums: &[],
}];

/// Reference-side model of the probe module (same numbering).
pub fn probe_model(name: &str, args: &[Val], log: &mut Vec<i64>) -> Option<Val> {
    match (name, args) {
        ("hit", [Val::Int(i)]) => {
            log.push(*i);
            Some(Val::Int(*i))
        }
        ("hitb", [Val::Int(i), Val::Bool(v)]) => {
            log.push(*i);
            Some(Val::Bool(*v))
        }
        ("hito", [Val::Int(i)]) => {
            log.push(*i);
            Some(Val::some(Val::Int(*i)))
        }
        _ => None,
    }
}

#[derive(Clone, Debug, PartialEq)]
pub enum IoCall {
    Insert(Identifier, FactKeyList, FactValueList),
    Delete(Identifier, FactKeyList),
    Effect(Identifier, Vec<KVPair>, bool),
}

/// Recording I/O: a plain map fact store plus a log of every mutating call, and the probe FFI.
#[derive(Default)]
pub struct RecIo {
    pub facts: BTreeMap<(Identifier, FactKeyList), FactValueList>,
    pub log: Vec<IoCall>,
    pub queries: u64,
    pub ffi_log: RefCell<Vec<i64>>,
}

impl RecIo {
    pub fn new() -> Self {
        Self::default()
    }
}

impl<S: Stack> MachineIO<S> for RecIo {
    type QueryIterator = std::vec::IntoIter<Result<(FactKeyList, FactValueList), MachineIOError>>;

    fn fact_insert(
        &mut self,
        name: Identifier,
        key: impl IntoIterator<Item = FactKey>,
        value: impl IntoIterator<Item = FactValue>,
    ) -> Result<(), MachineIOError> {
        let key: Vec<_> = key.into_iter().collect();
        let value: Vec<_> = value.into_iter().collect();
        self.log.push(IoCall::Insert(name.clone(), key.clone(), value.clone()));
        if self.facts.contains_key(&(name.clone(), key.clone())) {
            return Err(MachineIOError::FactExists);
        }
        self.facts.insert((name, key), value);
        Ok(())
    }

    fn fact_delete(&mut self, name: Identifier, key: impl IntoIterator<Item = FactKey>) -> Result<(), MachineIOError> {
        let key: Vec<_> = key.into_iter().collect();
        self.log.push(IoCall::Delete(name.clone(), key.clone()));
        match self.facts.remove(&(name, key)) {
            Some(_) => Ok(()),
            None => Err(MachineIOError::FactNotFound),
        }
    }

    fn fact_query(
        &self,
        name: Identifier,
        key: impl IntoIterator<Item = FactKey>,
    ) -> Result<Self::QueryIterator, MachineIOError> {
        let key: Vec<_> = key.into_iter().collect();
        let v: Vec<_> = self
            .facts
            .iter()
            .filter(|((n, k), _)| *n == name && k.starts_with(&key))
            .map(|((_, k), v)| Ok((k.clone(), v.clone())))
            .collect();
        Ok(v.into_iter())
    }

    fn effect(&mut self, name: Identifier, fields: impl IntoIterator<Item = KVPair>, _command: CmdId, recalled: bool) {
        let mut fields: Vec<_> = fields.into_iter().collect();
        fields.sort_by(|a, b| a.key().cmp(b.key()));
        self.log.push(IoCall::Effect(name, fields, recalled));
    }

    fn call(&self, module: usize, procedure: usize, stack: &mut S, _ctx: &CommandContext) -> Result<(), MachineError> {
        if module != 0 {
            return Err(MachineError::new(MachineErrorType::FfiModuleNotDefined(module)));
        }
        match procedure {
            0 => {
                let i: i64 = stack.pop()?;
                self.ffi_log.borrow_mut().push(i);
                stack.push(Value::Int(i))?;
                Ok(())
            }
            1 => {
                let v: bool = stack.pop()?;
                let i: i64 = stack.pop()?;
                self.ffi_log.borrow_mut().push(i);
                stack.push(Value::Bool(v))?;
                Ok(())
            }
            2 => {
                let i: i64 = stack.pop()?;
                self.ffi_log.borrow_mut().push(i);
                stack.push(Value::Option(Some(Box::new(Value::Int(i)))))?;
                Ok(())
            }
            p => Err(MachineError::new(MachineErrorType::FfiProcedureNotDefined(ident!("probe"), p))),
        }
    }
}

#[derive(Clone, Copy, Debug, PartialEq, Eq)]
pub enum Ffi {
    None,
    Probe,
    /// every foreign call compiles to a panic (used for repository documents whose FFI modules
    /// are not linked into the harness)
    Stub,
    /// the schemas of the repository's own FFI modules (crypto, device, envelope, idam,
    /// perspective); at run time every foreign call fails with an FFI error
    Real,
}

pub fn real_schemas() -> [ModuleSchema<'static>; 5] {
    use aranya_crypto::keystore::memstore::MemStore;
    use aranya_policy_vm::ffi::FfiModule as _;
    [
        aranya_crypto_ffi::Ffi::<MemStore>::SCHEMA,
        aranya_device_ffi::FfiDevice::SCHEMA,
        aranya_envelope_ffi::Ffi::SCHEMA,
        aranya_idam_ffi::Ffi::<MemStore>::SCHEMA,
        aranya_perspective_ffi::FfiPerspective::SCHEMA,
    ]
}

/// Parse (V2) + compile (debug mode). `Err` carries the first line of the front-end's message.
/// A host panic inside the front end is reported as `Err("front-end panic: …")`: it is C27's
/// subject (front ends are total), not a verdict of the checks here.
pub fn compile_text(src: &str, ffi: Ffi) -> Result<Module, String> {
    match mcx::catch(|| {
        let ast = parse_policy_str(src, Version::V2).map_err(|e| format!("parse: {}", first_lines(&e.to_string())))?;
        compile_ast(&ast, ffi)
    }) {
        Ok(r) => r,
        Err(p) => Err(format!("front-end panic: {p}")),
    }
}

/// Like `compile_text` but without rendering the diagnostic of a rejection (rendering dominates
/// when most candidates are rejected). `Err(true)` = the front end panicked.
pub fn compile_text_quiet(src: &str, ffi: Ffi) -> Result<Module, bool> {
    compile_quiet(src, false, ffi)
}

pub fn compile_quiet(src: &str, markdown: bool, ffi: Ffi) -> Result<Module, bool> {
    match mcx::catch(|| {
        let ast = if markdown { parse_policy_document(src).map_err(|_| ())? } else { parse_policy_str(src, Version::V2).map_err(|_| ())? };
        let c = Compiler::new(&ast).debug(true);
        let c = match ffi {
            Ffi::None => c,
            Ffi::Probe => c.ffi_modules(PROBE_SCHEMA),
            Ffi::Stub => c.stub_ffi(true),
            Ffi::Real => return Compiler::new(&ast).debug(true).ffi_modules(&real_schemas()).compile().map_err(|_| ()),
        };
        c.compile().map_err(|_| ())
    }) {
        Ok(Ok(m)) => Ok(m),
        Ok(Err(())) => Err(false),
        Err(_) => Err(true),
    }
}

pub fn compile_markdown(doc: &str, ffi: Ffi) -> Result<Module, String> {
    match mcx::catch(|| {
        let ast = parse_policy_document(doc).map_err(|e| format!("parse: {}", first_lines(&e.to_string())))?;
        compile_ast(&ast, ffi)
    }) {
        Ok(r) => r,
        Err(p) => Err(format!("front-end panic: {p}")),
    }
}

fn compile_ast(ast: &aranya_policy_ast::Policy, ffi: Ffi) -> Result<Module, String> {
    let c = Compiler::new(ast).debug(true);
    let real = real_schemas();
    let c = match ffi {
        Ffi::None => c,
        Ffi::Probe => c.ffi_modules(PROBE_SCHEMA),
        Ffi::Stub => c.stub_ffi(true),
        Ffi::Real => c.ffi_modules(&real),
    };
    c.compile().map_err(|e| format!("compile: {}", first_lines(&e.to_string())))
}

fn first_lines(s: &str) -> String {
    let mut out = String::new();
    for l in s.lines().take(2) {
        if !out.is_empty() {
            out.push_str(" / ");
        }
        out.push_str(l.trim());
    }
    out
}

pub fn policy_ctx(name: &str) -> CommandContext {
    CommandContext::Policy(PolicyContext {
        name: ident_of(name),
        id: CmdId::default(),
        author: DeviceId::default(),
        version: BaseId::default(),
    })
}

pub fn action_ctx(name: &str) -> CommandContext {
    CommandContext::Action(ActionContext { name: ident_of(name), head_id: CmdId::default() })
}

/// What a VM run did, in a form that can be compared and printed.
#[derive(Clone, Debug, PartialEq)]
pub enum Outcome {
    /// `ExitReason::Normal`; the value on top of the stack (if any)
    Normal(Option<Value>),
    Panic,
    Check,
    Yield,
    /// a `MachineError`; the kind name and the rendered message
    Error(String, String),
    /// step horizon reached
    Horizon,
}

impl Outcome {
    pub fn class(&self) -> &'static str {
        match self {
            Outcome::Normal(_) => "normal",
            Outcome::Panic => "panic",
            Outcome::Check => "check",
            Outcome::Yield => "yield",
            Outcome::Error(..) => "machine_error",
            Outcome::Horizon => "horizon",
        }
    }
}

pub fn error_kind(e: &MachineErrorType) -> &'static str {
    match e {
        MachineErrorType::StackUnderflow => "StackUnderflow",
        MachineErrorType::StackOverflow => "StackOverflow",
        MachineErrorType::AlreadyDefined(_) => "AlreadyDefined",
        MachineErrorType::NotDefined(_) => "NotDefined",
        MachineErrorType::InvalidType { .. } => "InvalidType",
        MachineErrorType::InvalidStructMember(_) => "InvalidStructMember",
        MachineErrorType::InvalidFact(_) => "InvalidFact",
        MachineErrorType::InvalidSchema(_) => "InvalidSchema",
        MachineErrorType::UnresolvedTarget(_) => "UnresolvedTarget",
        MachineErrorType::InvalidAddress(_) => "InvalidAddress",
        MachineErrorType::BadState(_) => "BadState",
        MachineErrorType::IntegerOverflow => "IntegerOverflow",
        MachineErrorType::InvalidInstruction => "InvalidInstruction",
        MachineErrorType::CallStack => "CallStack",
        MachineErrorType::IO(_) => "IO",
        MachineErrorType::FfiModuleNotDefined(_) => "FfiModuleNotDefined",
        MachineErrorType::FfiProcedureNotDefined(..) => "FfiProcedureNotDefined",
        MachineErrorType::ContextMismatch => "ContextMismatch",
        MachineErrorType::Serialize(_) => "Serialize",
        MachineErrorType::Deserialize(_) => "Deserialize",
        MachineErrorType::Bug(_) => "Bug",
        MachineErrorType::Unknown(_) => "Unknown",
    }
}

pub const STEP_HORIZON: u64 = 200_000;

fn drive<M: MachineIO<aranya_policy_vm::MachineStack>>(
    rs: &mut aranya_policy_vm::RunState<'_, M>,
    steps: &mut u64,
) -> Outcome {
    let mut n = 0u64;
    loop {
        n += 1;
        if n > STEP_HORIZON {
            *steps += n;
            return Outcome::Horizon;
        }
        match rs.step() {
            Ok(MachineStatus::Executing) => {}
            Ok(MachineStatus::Exited(reason)) => {
                *steps += n;
                return match reason {
                    ExitReason::Normal => Outcome::Normal(rs.stack.as_slice().last().cloned()),
                    ExitReason::Panic => Outcome::Panic,
                    ExitReason::Check => Outcome::Check,
                    ExitReason::Yield => Outcome::Yield,
                };
            }
            Err(e) => {
                *steps += n;
                return Outcome::Error(error_kind(&e.err_type).to_string(), e.err_type.to_string());
            }
        }
    }
}

/// Call a pure function by label with the arguments pushed in order.
pub fn run_function(machine: &Machine, io: &mut RecIo, name: &str, args: &[Value], steps: &mut u64) -> Outcome {
    let mut rs = machine.create_run_state(io, policy_ctx("harness"));
    if let Err(e) = rs.set_pc_by_label(&Label::new(ident_of(name), LabelType::Function)) {
        return Outcome::Error(error_kind(&e.err_type).to_string(), e.err_type.to_string());
    }
    for a in args {
        if rs.stack.push_value(a.clone()).is_err() {
            return Outcome::Error("StackOverflow".into(), "pushing arguments".into());
        }
    }
    drive(&mut rs, steps)
}

/// Run a command's policy block through `call_command_policy`-equivalent setup, stepping manually.
pub fn run_command(machine: &Machine, io: &mut RecIo, this: Struct, steps: &mut u64) -> Outcome {
    let name = this.name.clone();
    let mut rs = machine.create_run_state(io, policy_ctx(name.as_str()));
    if let Err(e) = rs.setup_command(Label::new(name, LabelType::CommandPolicy), this) {
        return Outcome::Error(error_kind(&e.err_type).to_string(), e.err_type.to_string());
    }
    let envelope = Struct { name: ident!("Envelope"), fields: BTreeMap::new() };
    if rs.stack.push_value(Value::Struct(envelope)).is_err() {
        return Outcome::Error("StackOverflow".into(), "pushing envelope".into());
    }
    drive(&mut rs, steps)
}

/// Run an action; on `Yield` (publish) keep resuming, collecting the published structs.
pub fn run_action(
    machine: &Machine,
    io: &mut RecIo,
    name: &str,
    args: &[Value],
    published: &mut Vec<Value>,
    steps: &mut u64,
) -> Outcome {
    let mut rs = machine.create_run_state(io, action_ctx(name));
    if let Err(e) = rs.setup_action(ident_of(name), args.iter().cloned()) {
        return Outcome::Error(error_kind(&e.err_type).to_string(), e.err_type.to_string());
    }
    loop {
        match drive(&mut rs, steps) {
            Outcome::Yield => {
                match rs.stack.pop_value() {
                    Ok(v) => published.push(v),
                    Err(_) => return Outcome::Error("StackUnderflow".into(), "yield without value".into()),
                }
                if published.len() > 64 {
                    return Outcome::Horizon;
                }
            }
            other => return other,
        }
    }
}
