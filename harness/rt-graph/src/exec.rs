//! Run one delivery history on a fresh real replica and apply the graph oracles.

use std::collections::BTreeMap;

use rtlib::{
    dag::{node_name, Cmd, Dag, Kind},
    policy::{dump_facts, Place},
    refmodel::{dump, BraidError, Ref},
    replica::{addr, MemReplica, Obs, SinkEv, SPILL_READS, SPILL_WRITES},
    rt::{Storage as _, StorageProvider as _},
};

use crate::history::{Cut, History};

pub struct Point {
    pub pos: usize,
    pub mask: u128,
    pub obs: Result<Obs, String>,
}

pub struct Exec {
    pub points: Vec<Point>,
    /// (position, node, error) for add_commands failures
    pub add_errors: Vec<(usize, usize, String)>,
    pub commit_errors: Vec<(usize, String)>,
    pub replica: MemReplica,
    pub transitions: u64,
    pub spill_writes: u64,
    pub spill_reads: u64,
}

/// Runs `h`. On an add error the failing batch is abandoned at the failing command (the runtime
/// stops there); the history continues with the next batch.
pub fn run_history(dag: &Dag, cmds: &[Cmd], h: &History) -> Exec {
    let graph = rtlib::replica::graph_id_of(cmds[0].id);
    let mut r = MemReplica::new_mem(graph);
    let w0 = SPILL_WRITES.with(|c| c.get());
    let r0 = SPILL_READS.with(|c| c.get());
    let mut points = Vec::new();
    let mut add_errors = Vec::new();
    let mut commit_errors = Vec::new();
    let mut committed: u128 = 0;
    let mut in_trx: u128 = 0;
    let mut trx = r.trx();
    let mut transitions = 0u64;
    let mut i = 0;
    let n = h.order.len();
    let _ = dag;
    while i < n {
        // gather a batch
        let mut j = i;
        while j < n - 1 && h.cuts[j] == Cut::None {
            j += 1;
        }
        let batch: Vec<Cmd> = h.order[i..=j].iter().map(|&x| cmds[x].clone()).collect();
        transitions += 1;
        match r.add(&mut trx, &batch) {
            Ok(_) => {
                for &x in &h.order[i..=j] {
                    in_trx |= 1 << x;
                }
            }
            Err(e) => {
                // find how many were accepted: the runtime processes in order and stops at the
                // first failure; we cannot see the index, so attribute to the whole batch when
                // it has more than one command. Oracles that expect errors use single-command batches.
                add_errors.push((i, h.order[i], format!("{e}")));
            }
        }
        match h.cuts[j] {
            Cut::None | Cut::Batch => {}
            Cut::Flush => {
                transitions += 1;
                if let Err(e) = r.flush(&mut trx) {
                    commit_errors.push((j, format!("flush: {e}")));
                }
            }
            Cut::Commit => {
                transitions += 1;
                let t = std::mem::replace(&mut trx, r.trx());
                match r.commit(t) {
                    Ok(_) => {
                        committed |= in_trx;
                        in_trx = 0;
                        points.push(Point { pos: j, mask: committed, obs: r.observe() });
                    }
                    Err(e) => {
                        commit_errors.push((j, format!("commit: {e}")));
                        in_trx = 0;
                        points.push(Point { pos: j, mask: committed, obs: r.observe() });
                    }
                }
            }
        }
        i = j + 1;
    }
    Exec {
        points,
        add_errors,
        commit_errors,
        replica: r,
        transitions,
        spill_writes: SPILL_WRITES.with(|c| c.get()) - w0,
        spill_reads: SPILL_READS.with(|c| c.get()) - r0,
    }
}

#[derive(Default, Clone, Copy)]
pub struct Oracles {
    /// C09: heads == frontier, sorted, dedup; committed set == expected
    pub frontier: bool,
    /// C03: fact cache == reference braid; facts at every command == reference state
    pub reference_facts: bool,
    /// C02: audit: once, after ancestors, merges never evaluated
    pub audit: bool,
    /// C04/C19 piece: hello head == reference merge fold
    pub hello: bool,
}

/// Checks one execution against the reference. Returns violations as (key-suffix, description).
pub fn check_exec(dag: &Dag, refm: &mut Ref<'_>, h: &History, ex: &mut Exec, o: Oracles) -> Vec<(String, String)> {
    let mut v = Vec::new();
    let ids = dag.ids();
    let mc = dag.max_cuts();
    for (pos, node, e) in &ex.add_errors {
        v.push(("add-error".into(), format!("add_commands failed at position {pos} (node {}): {e}", node_name(*node))));
    }
    for (pos, e) in &ex.commit_errors {
        v.push(("commit-error".into(), format!("after position {pos}: {e}")));
    }
    for p in &ex.points {
        let obs = match &p.obs {
            Ok(o) => o,
            Err(e) => {
                v.push(("observe-error".into(), format!("observation failed after position {}: {e}", p.pos)));
                continue;
            }
        };
        let fr = dag.frontier(p.mask);
        if fr.is_empty() {
            v.push(("empty-commit".into(), format!("after position {}: nothing committed", p.pos)));
            continue;
        }
        if o.frontier {
            let mut want: Vec<_> = fr.iter().map(|&i| (ids[i], mc[i])).collect();
            want.sort();
            if obs.heads != want {
                v.push((
                    "heads".into(),
                    format!("after position {}: heads {:?} != frontier {:?} of committed set", p.pos, short_ids(&obs.heads), short_ids(&want)),
                ));
            }
            if obs.heads.windows(2).any(|w| w[0].0 >= w[1].0) {
                v.push(("heads-order".into(), format!("after position {}: head set not strictly increasing by id", p.pos)));
            }
            let want_cmds: std::collections::BTreeSet<_> = (0..dag.len()).filter(|&i| p.mask >> i & 1 == 1).map(|i| ids[i]).collect();
            let got: std::collections::BTreeSet<_> = obs.cmds.keys().copied().collect();
            if want_cmds != got {
                v.push(("cmdset".into(), format!("after position {}: committed command set differs from delivered set ({} vs {})", p.pos, got.len(), want_cmds.len())));
            }
        }
        if o.reference_facts {
            match refm.facts(&fr) {
                Ok((f, _)) => {
                    let want = dump(&f);
                    if obs.facts != want {
                        v.push((
                            "facts".into(),
                            format!("after position {}: fact cache {} != reference {}", p.pos, show_facts(&obs.facts), show_facts(&want)),
                        ));
                    }
                }
                Err(BraidError::ParallelFinalize) => v.push(("harness".into(), "universe has parallel finalizes".into())),
                Err(e) => v.push(("harness".into(), format!("reference failed: {e:?}"))),
            }
        }
        if o.hello {
            let want = refm.merge_fold(&fr);
            match &obs.hello {
                Ok(h) if *h == want => {}
                other => v.push(("hello".into(), format!("after position {}: hello_head {:?} != reference fold {:?}", p.pos, other, want))),
            }
        }
        if o.audit {
            if let Some((_, _, seq)) = obs.facts.iter().find(|(n, _, _)| n == "seq") {
                let names: Vec<&str> = std::str::from_utf8(seq).unwrap_or("").split(':').collect();
                let mut seen: BTreeMap<&str, usize> = BTreeMap::new();
                for (k, nm) in names.iter().enumerate() {
                    if seen.insert(nm, k).is_some() {
                        v.push(("audit-twice".into(), format!("after position {}: command {nm} applied twice in {:?}", p.pos, names)));
                    }
                }
                let anc = dag.ancestors();
                for i in 0..dag.len() {
                    if p.mask >> i & 1 == 0 || dag.nodes[i].kind == Kind::Merge {
                        continue;
                    }
                    let nm = node_name(i);
                    match seen.get(nm.as_str()) {
                        None => v.push(("audit-missing".into(), format!("after position {}: command {nm} never applied in {:?}", p.pos, names))),
                        Some(&k) => {
                            for a in 0..dag.len() {
                                if anc[i] >> a & 1 == 1 && dag.nodes[a].kind != Kind::Merge {
                                    if let Some(&ka) = seen.get(node_name(a).as_str()) {
                                        if ka > k {
                                            v.push(("audit-order".into(), format!("after position {}: {nm} applied before its ancestor {} in {:?}", p.pos, node_name(a), names)));
                                        }
                                    }
                                }
                            }
                        }
                    }
                }
                let extra = names.len() as i64 - (0..dag.len()).filter(|&i| p.mask >> i & 1 == 1 && dag.nodes[i].kind != Kind::Merge).count() as i64;
                if extra != 0 {
                    v.push(("audit-count".into(), format!("after position {}: seq has {} entries beyond the committed non-merge commands", p.pos, extra)));
                }
            }
        }
    }
    if o.audit {
        let log = ex.replica.log.borrow();
        if log.rule_calls.iter().any(|c| c.is_merge) {
            v.push(("merge-evaluated".into(), "the policy was asked to evaluate a merge command".into()));
        }
        // every origin call is for a distinct command or a re-delivery that was skipped: at most once per name
        let mut origin: BTreeMap<&str, u32> = BTreeMap::new();
        for c in log.rule_calls.iter().filter(|c| c.place == Place::Origin) {
            *origin.entry(c.name.as_str()).or_default() += 1;
        }
        for (nm, k) in origin {
            if k > 1 {
                v.push(("origin-twice".into(), format!("command {nm} evaluated at origin {k} times")));
            }
        }
    }
    if o.reference_facts {
        // facts stored at every committed command == reference state
        if let Some(last) = ex.points.last() {
            let mask = last.mask;
            let graph = ex.replica.graph;
            let mut buf = rtlib::rt::TraversalBuffer::new();
            let storage = match ex.replica.client.provider().get_storage(graph) {
                Ok(s) => s,
                Err(e) => {
                    v.push(("observe-error".into(), format!("get_storage: {e}")));
                    return v;
                }
            };
            for i in 0..dag.len() {
                if mask >> i & 1 == 0 {
                    continue;
                }
                let a = addr(ids[i], mc[i]);
                let loc = match storage.get_location(a, &mut buf) {
                    Ok(Some(l)) => l,
                    other => {
                        v.push(("locate".into(), format!("committed command {} not found by get_location: {:?}", node_name(i), other.map(|o| o.map(|l| l.to_string())))));
                        continue;
                    }
                };
                let fp = match storage.get_fact_perspective(loc) {
                    Ok(f) => f,
                    Err(e) => {
                        v.push(("state-read".into(), format!("get_fact_perspective({}) failed: {e}", node_name(i))));
                        continue;
                    }
                };
                let got = match dump_facts(&fp) {
                    Ok(g) => g,
                    Err(e) => {
                        v.push(("state-read".into(), format!("fact dump at {} failed: {e}", node_name(i))));
                        continue;
                    }
                };
                match refm.state(i) {
                    Ok(f) => {
                        let want = dump(&f);
                        if got != want {
                            v.push(("state".into(), format!("facts stored at {}: {} != reference {}", node_name(i), show_facts(&got), show_facts(&want))));
                        }
                    }
                    Err(e) => v.push(("harness".into(), format!("reference state failed: {e:?}"))),
                }
            }
        }
    }
    let _ = h;
    v
}

pub fn short_ids(v: &[(rtlib::rt::CmdId, u64)]) -> Vec<String> {
    v.iter().map(|(id, m)| format!("{:02x}@{m}", id.as_bytes()[0])).collect()
}

pub fn show_facts(f: &rtlib::policy::FactDump) -> String {
    let mut s = String::from("{");
    for (n, k, v) in f {
        if n == "seq" {
            s.push_str(&format!("seq={} ", String::from_utf8_lossy(v)));
        } else {
            s.push_str(&format!("{n}{:?}={:?} ", k, v));
        }
    }
    s.push('}');
    s
}

pub fn sink_summary(ev: &[SinkEv]) -> String {
    ev.iter()
        .map(|e| match e {
            SinkEv::Begin => "B".to_string(),
            SinkEv::Consume(s) => format!("E({s})"),
            SinkEv::Rollback => "R".to_string(),
            SinkEv::Commit => "C".to_string(),
        })
        .collect::<Vec<_>>()
        .join(" ")
}
