//! Delivery histories (DESIGN.md 4.4).

use rtlib::dag::Dag;

#[derive(Clone, Copy, Debug, PartialEq, Eq, Hash, PartialOrd, Ord)]
pub enum Cut {
    /// stay in the same `add_commands` call
    None,
    /// new `add_commands` call, same transaction
    Batch,
    /// `Transaction::flush`, then new call
    Flush,
    /// commit, then a new transaction
    Commit,
}

/// A history: delivery order (node indices, possibly with duplicates) and the cut taken after
/// each position (the last position always commits).
#[derive(Clone, Debug, PartialEq, Eq, Hash, PartialOrd, Ord)]
pub struct History {
    pub order: Vec<usize>,
    pub cuts: Vec<Cut>,
}

impl History {
    pub fn describe(&self) -> String {
        let mut s = String::new();
        for (i, &n) in self.order.iter().enumerate() {
            s.push_str(&rtlib::dag::node_name(n));
            match self.cuts.get(i).copied().unwrap_or(Cut::Commit) {
                Cut::None => {}
                Cut::Batch => s.push('|'),
                Cut::Flush => s.push_str("|F|"),
                Cut::Commit => s.push_str("|C|"),
            }
        }
        s
    }
    pub fn deviations(&self, n: usize) -> usize {
        let _ = n;
        0
    }
}

pub fn default_history(n: usize) -> History {
    let mut cuts = vec![Cut::None; n];
    cuts[n - 1] = Cut::Commit;
    History { order: (0..n).collect(), cuts }
}

/// All histories: every linear extension × every cut vector over `cut_alpha` at the n-1 gaps.
pub fn all_histories(dag: &Dag, cut_alpha: &[Cut], mut f: impl FnMut(&History)) {
    let parents: Vec<Vec<usize>> = dag.nodes.iter().map(|n| n.parents.clone()).collect();
    let n = dag.len();
    mcx::enumerate::linear_extensions(&parents, |order| {
        mcx::enumerate::sequences(cut_alpha.len(), n - 1, |cs| {
            let mut cuts: Vec<Cut> = cs.iter().map(|&c| cut_alpha[c]).collect();
            cuts.push(Cut::Commit);
            f(&History { order: order.to_vec(), cuts });
        });
    });
}

/// Histories within `bound` deviations of the default: a deviation is one adjacent swap of
/// causally unordered commands, one non-`None` cut, or one duplicate re-delivery.
pub fn bounded_histories(dag: &Dag, bound: usize, with_dups: bool, mut f: impl FnMut(&History)) {
    let n = dag.len();
    let anc = dag.ancestors();
    // orders reachable with k swaps, k = 0..=bound
    let mut seen: std::collections::BTreeMap<Vec<usize>, usize> = std::collections::BTreeMap::new();
    let mut frontier = vec![(0..n).collect::<Vec<usize>>()];
    seen.insert(frontier[0].clone(), 0);
    for k in 1..=bound {
        let mut next = Vec::new();
        for o in &frontier {
            for i in 1..n.saturating_sub(1) {
                let (a, b) = (o[i], o[i + 1]);
                if anc[b] >> a & 1 == 1 {
                    continue; // a is an ancestor of b: not swappable
                }
                let mut p = o.clone();
                p.swap(i, i + 1);
                if !seen.contains_key(&p) {
                    seen.insert(p.clone(), k);
                    next.push(p);
                }
            }
        }
        frontier = next;
    }
    let kinds = [Cut::Batch, Cut::Flush, Cut::Commit];
    for (order, &k) in &seen {
        let left = bound - k;
        // choose up to `left` deviations among: cuts at gaps 0..n-1 (3 kinds), dups
        let mut cuts = vec![Cut::None; n];
        cuts[n - 1] = Cut::Commit;
        // 0 extra
        f(&History { order: order.clone(), cuts: cuts.clone() });
        if left >= 1 {
            for g in 0..n - 1 {
                for &c in &kinds {
                    let mut cs = cuts.clone();
                    cs[g] = c;
                    f(&History { order: order.clone(), cuts: cs.clone() });
                    if left >= 2 {
                        for g2 in g + 1..n - 1 {
                            for &c2 in &kinds {
                                let mut cs2 = cs.clone();
                                cs2[g2] = c2;
                                f(&History { order: order.clone(), cuts: cs2.clone() });
                                if left >= 3 {
                                    for g3 in g2 + 1..n - 1 {
                                        for &c3 in &kinds {
                                            let mut cs3 = cs2.clone();
                                            cs3[g3] = c3;
                                            f(&History { order: order.clone(), cuts: cs3 });
                                        }
                                    }
                                }
                            }
                        }
                        if with_dups {
                            dups(order, &cs, &mut f);
                        }
                    }
                }
            }
            if with_dups {
                dups(order, &cuts, &mut f);
            }
        }
    }
}

/// One duplicate re-delivery: node at position i is delivered again right after position j ≥ i.
fn dups(order: &[usize], cuts: &[Cut], f: &mut impl FnMut(&History)) {
    let n = order.len();
    for i in 0..n {
        for j in i..n {
            let mut o = order.to_vec();
            let mut c = cuts.to_vec();
            o.insert(j + 1, order[i]);
            // the duplicate inherits the cut that followed position j; position j gets None…
            let after = c[j];
            c[j] = if after == Cut::Commit && j == n - 1 { Cut::Commit } else { after };
            c.insert(j + 1, if j == n - 1 { Cut::Commit } else { Cut::None });
            if j == n - 1 {
                // deliver the duplicate in a fresh transaction after the final commit
                c[j] = Cut::Commit;
            }
            f(&History { order: o, cuts: c });
        }
    }
}
