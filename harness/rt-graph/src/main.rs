//! rt-graph: C01–C10, C14 on the real aranya-runtime with the AuditPolicy instrument.
mod exec;
mod history;
mod props;
mod universe;

fn main() {
    let args = mcx::parse_args();
    match args.prop.as_str() {
        p @ ("C01" | "C02" | "C03" | "C09") => props::graph::run(&args, p),
        p => mcx::machinery_error(&format!("rt-graph does not serve {p}")),
    }
}
