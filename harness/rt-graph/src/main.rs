//! rt-graph: C01–C10, C14 on the real aranya-runtime with the AuditPolicy instrument.
mod exec;
mod history;
mod probe;
mod props;
mod sim;
mod universe;

fn main() {
    let args = mcx::parse_args();
    mcx::quiet_panics();
    match args.prop.as_str() {
        p @ ("C01" | "C02" | "C03" | "C09") => props::graph::run(&args, p),
        p @ ("C04" | "C07") => props::action::run(&args, p),
        "C08" => props::trx::run(&args),
        "C10" => props::init::run(&args),
        "C14" => props::session::run(&args),
        "PROBE" => probe::run(),
        "C05" => props::finalize::run(&args),
        "C06" => props::reject::run(&args),
        p => mcx::machinery_error(&format!("rt-graph does not serve {p}")),
    }
}
