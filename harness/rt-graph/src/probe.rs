//! Ad-hoc probes (not registered as checks).
use rtlib::{
    dag::{Dag, Kind, MergeRank, Node, Op},
    replica::{addr, MemReplica},
    rt::Prior,
};

pub fn run() {
    // a; b<-a; c<-b with a WRONG parent max_cut (writes kv[1]); d<-b
    let dag = Dag {
        nodes: vec![
            Node { kind: Kind::Init, parents: vec![], rank: 0x08, prog: vec![Op::Append] },
            Node { kind: Kind::Basic(0), parents: vec![0], rank: 0x10, prog: vec![Op::Append] },
            Node { kind: Kind::Basic(0), parents: vec![1], rank: 0x20, prog: vec![Op::Put(1, 1), Op::Append, Op::Emit(5)] },
            Node { kind: Kind::Basic(0), parents: vec![1], rank: 0x30, prog: vec![Op::Append] },
        ],
        merge_rank: MergeRank::Hash,
    };
    let mut cmds = dag.cmds();
    let ids = dag.ids();
    cmds[2].prior = Prior::Single(addr(ids[1], 7)); // right id, wrong max cut
    let mut r = MemReplica::new_mem(rtlib::replica::graph_id_of(ids[0]));
    let mut t = r.trx();
    println!("add a,b: {:?}", r.add(&mut t, &cmds[0..2]).map_err(|e| e.to_string()));
    println!("add c' : {:?}", r.add(&mut t, &cmds[2..3]).map_err(|e| e.to_string()));
    println!("add d  : {:?}", r.add(&mut t, &cmds[3..4]).map_err(|e| e.to_string()));
    println!("commit : {:?}", r.commit(t).map_err(|e| e.to_string()));
    match r.observe() {
        Ok(o) => println!("obs: {}", o.short()),
        Err(e) => println!("observe: {e}"),
    }
    println!("sink: {}", crate::exec::sink_summary(&r.sink.events));
}
