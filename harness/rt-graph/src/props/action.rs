//! C07 — actions are atomic; C04 — lazy merges: queries and actions see the same state.

use mcx::{json, Args, Level, Report, Tier};
use rtlib::dag::{Dag, MergeRank, Op};

use crate::{
    history::{bounded_histories, Cut},
    props::simrun::{finish, run_all},
    sim::{ActScript, Ev, SimOracles},
    universe::{for_each_universe, UniverseOpts},
};

type Pub = (u8, bool, u32, Vec<Op>);

fn pub_alpha(full: bool) -> Vec<Pub> {
    let mut v: Vec<Pub> = vec![
        (0xa0, false, 0, vec![Op::Append, Op::Emit(1)]),
        (0x05, false, 1, vec![Op::Put(1, 3), Op::Append, Op::Emit(2)]),
        (0xa1, false, 0, vec![Op::WriteThenFail(0)]),
        (0xa2, false, 0, vec![Op::Require(1), Op::Append, Op::Emit(3)]),
    ];
    if full {
        v.push((0xa3, false, 0, vec![Op::WriteThenFail(1)]));
        v.push((0xa4, false, 0, vec![Op::WriteThenFail(2)]));
        v.push((0xa5, true, 0, vec![Op::Append]));
    }
    v
}

/// Scripts: k = 0..=kmax publishes over the alphabet (distinct ranks per position), each with
/// every fail_after option.
fn scripts(kmax: usize, full: bool) -> Vec<ActScript> {
    let alpha = pub_alpha(full);
    let mut out = Vec::new();
    for k in 0..=kmax {
        mcx::enumerate::sequences(alpha.len(), k, |sel| {
            let publish: Vec<Pub> = sel
                .iter()
                .enumerate()
                .map(|(j, &a)| {
                    let (r, f, p, prog) = alpha[a].clone();
                    (r.wrapping_add(0x08 * j as u8), f, p, prog)
                })
                .collect();
            out.push(ActScript { publish: publish.clone(), fail_after: None });
            let kinds: &[u8] = if full { &[0, 1, 2] } else { &[0, 1] };
            for j in 0..=k {
                for &kind in kinds {
                    out.push(ActScript { publish: publish.clone(), fail_after: Some((j, kind)) });
                }
            }
        });
    }
    out
}

/// Star graphs: init plus `k` sibling commands (k concurrent heads), k = 2..=kmax, delivered by one or by
/// two sync transactions, then an action (which collapses the k heads) and a follow-up action.
pub fn wide_dags(kmax: usize) -> Vec<Dag> {
    use rtlib::dag::{Kind, Node};
    (2..=kmax)
        .map(|k| {
            let mut nodes = vec![Node { kind: Kind::Init, parents: vec![], rank: 0x08, prog: vec![Op::Append] }];
            for i in 0..k {
                nodes.push(Node { kind: Kind::Basic(0), parents: vec![0], rank: 0x10 + 0x0d * i as u8, prog: vec![Op::Append, Op::Emit(1)] });
            }
            Dag { nodes, merge_rank: MergeRank::Hash }
        })
        .collect()
}

pub fn wide_cases(d: &Dag, act: &ActScript, follow: &ActScript, f: &mut dyn FnMut(&[Ev])) {
    let n = d.len();
    // all heads in one transaction
    f(&[Ev::Add { trx: 0, nodes: (0..n).collect() }, Ev::Commit { trx: 0 }, Ev::Action(act.clone()), Ev::Action(follow.clone())]);
    // heads arriving in two transactions (every split point)
    for cut in 2..n {
        f(&[
            Ev::Add { trx: 0, nodes: (0..cut).collect() },
            Ev::Commit { trx: 0 },
            Ev::Add { trx: 1, nodes: (cut..n).collect() },
            Ev::Commit { trx: 1 },
            Ev::Action(act.clone()),
            Ev::Action(follow.clone()),
        ]);
    }
}

fn base_events(h: &crate::history::History) -> Vec<Ev> {
    let mut evs = Vec::new();
    let n = h.order.len();
    let mut i = 0;
    while i < n {
        let mut j = i;
        while j < n - 1 && h.cuts[j] == Cut::None {
            j += 1;
        }
        evs.push(Ev::Add { trx: 0, nodes: h.order[i..=j].to_vec() });
        match h.cuts[j] {
            Cut::Flush => evs.push(Ev::Flush { trx: 0 }),
            Cut::Commit => evs.push(Ev::Commit { trx: 0 }),
            _ => {}
        }
        i = j + 1;
    }
    evs
}

pub fn run(args: &Args, prop: &str) {
    let mut rep = Report::new(args, Level::ModelChecking);
    let uni = |n_min, n_max, full| UniverseOpts {
        n_min,
        n_max,
        allow_merges: true,
        prios: vec![0, 1],
        max_finalize: 1,
        ordered_finalize_only: true,
        full_rank_perms_upto: full,
        merge_ranks: vec![MergeRank::Hash, MergeRank::Low, MergeRank::High],
    };
    let oracles = SimOracles { outcomes: true, state: true, effects: true, monotone: true };
    let mut families = Vec::new();
    let follow = ActScript { publish: vec![(0xb8, false, 0, vec![Op::Append, Op::Emit(9)])], fail_after: None };
    let pub1 = ActScript { publish: vec![(0xa0, false, 0, vec![Op::Append, Op::Emit(1)])], fail_after: None };
    let plans: Vec<(&str, UniverseOpts, usize, Vec<ActScript>, bool)> = match (prop, args.tier) {
        ("C07", Tier::Quick) => vec![
            ("states n<=4 (<=1 deviation) x scripts k<=2 x follow-up action", uni(1, 4, 0), 1, scripts(2, false), true),
            ("states n=5 default history x scripts k<=1", uni(5, 5, 0), 0, scripts(1, false), false),
        ],
        ("C07", Tier::Thorough) => vec![
            ("states n<=4 (<=2 deviations) x scripts k<=2 full alphabet x follow-up", uni(1, 4, 4), 2, scripts(2, true), true),
            ("states n=5 (<=1 deviation) x scripts k<=2", uni(5, 5, 0), 1, scripts(2, false), true),
            ("states n<=3 x scripts k<=3", uni(1, 3, 3), 0, scripts(3, false), false),
        ],
        ("C04", Tier::Quick) => vec![
            ("multi-head states n<=5 (<=1 deviation) x publish 1|2", uni(3, 5, 5), 1, vec![pub1.clone(), ActScript { publish: vec![(0xa0, false, 0, vec![Op::Append, Op::Emit(1)]), (0x04, false, 0, vec![Op::Append])], fail_after: None }], true),
        ],
        ("C04", _) => vec![
            ("multi-head states n<=5 (<=2 deviations) x publish 1|2", uni(3, 5, 5), 2, vec![pub1.clone(), ActScript { publish: vec![(0xa0, false, 0, vec![Op::Append, Op::Emit(1)]), (0x04, false, 0, vec![Op::Append])], fail_after: None }], true),
            ("multi-head states n=6 default history x publish 1", uni(6, 6, 0), 0, vec![pub1.clone()], true),
        ],
        _ => unreachable!(),
    };
    for (name, opts, bound, scr, followup) in plans {
        let mut dags: Vec<Dag> = Vec::new();
        for_each_universe(&opts, |d| {
            if prop == "C04" && d.frontier(d.full_mask()).len() < 2 {
                return;
            }
            dags.push(d.clone())
        });
        let filter: crate::props::simrun::Filter = if prop == "C04" {
            |c, _| matches!(c, "action-view" | "lazy-merge-view" | "action-parent" | "hello-vs-collapse" | "hello" | "action-sink" | "action-outcome")
        } else {
            |c, _| matches!(c, "action-outcome" | "action-sink" | "failed-op-changed-state" | "heads" | "cmdset" | "facts" | "effects" | "history-shrank")
        };
        let ex = run_all(&mut rep, name, &dags, oracles, false, filter, |d, f| {
            bounded_histories(d, bound, false, |h| {
                let base = base_events(h);
                for s in &scr {
                    let mut evs = base.clone();
                    evs.push(Ev::Action(s.clone()));
                    if followup {
                        evs.push(Ev::Action(follow.clone()));
                    }
                    f(&evs);
                }
            });
        });
        families.push(json!({"family": name, "universes": dags.len(), "executions": ex}));
    }
    if prop == "C07" {
        // Backend fault: the head-set commit of the action fails with an I/O error after the policy
        // succeeded. The action must fail atomically (state unchanged, no effects committed); a
        // retry without the fault must then succeed.
        let mut dags: Vec<Dag> = Vec::new();
        for_each_universe(&uni(1, if args.tier == Tier::Thorough { 5 } else { 4 }, 0), |d| dags.push(d.clone()));
        let scr = scripts(2, false);
        let filter: crate::props::simrun::Filter = |c, _| matches!(c, "action-outcome" | "action-sink" | "failed-op-changed-state" | "heads" | "cmdset" | "facts" | "effects" | "history-shrank");
        let ex = crate::props::simrun::run_all_faulty(&mut rep, "fault", &dags, oracles, filter, |d, f| {
            bounded_histories(d, 0, false, |h| {
                let base = base_events(h);
                for s in scr.iter().filter(|s| s.fail_after.is_none() && !s.publish.is_empty()) {
                    let mut evs = base.clone();
                    evs.push(Ev::FailNextCommit);
                    evs.push(Ev::Action(s.clone()));
                    evs.push(Ev::Action(s.clone()));
                    f(&evs);
                }
            });
        });
        families.push(json!({"family": "backend commit fault during the action's head-set commit, then retry", "universes": dags.len(), "executions": ex}));
        rep.require_nonzero("faults_fired");
    }
    if prop == "C04" {
        // A sync transaction whose final head-set commit is refused by the backend (I/O error) must
        // leave queries and a following action in agreement (the in-memory head set must not run
        // ahead of the committed fact cache).
        let mut dags: Vec<Dag> = Vec::new();
        for_each_universe(&uni(3, if args.tier == Tier::Thorough { 5 } else { 4 }, 0), |d| dags.push(d.clone()));
        let filter: crate::props::simrun::Filter = |c, _| matches!(c, "action-view" | "lazy-merge-view" | "action-parent" | "hello-vs-collapse" | "hello" | "failed-op-changed-state");
        let ex = crate::props::simrun::run_all_faulty(&mut rep, "fault", &dags, oracles, filter, |d, f| {
            let n = d.len();
            let evs = vec![
                Ev::Add { trx: 0, nodes: (0..n - 1).collect() },
                Ev::Commit { trx: 0 },
                Ev::FailNextCommit,
                Ev::Add { trx: 1, nodes: vec![n - 1] },
                Ev::Commit { trx: 1 },
                Ev::Action(pub1.clone()),
                Ev::Action(follow.clone()),
            ];
            f(&evs);
        });
        families.push(json!({"family": "backend refuses the head-set commit of a sync transaction, then an action", "universes": dags.len(), "executions": ex}));
        rep.require_nonzero("faults_fired");
    }
    if prop == "C04" {
        // Multi-head states reached by sync transactions in which some commands were refused at
        // origin (rule failure after a write, unmet requirement, wrong parent max cut), with the
        // refused command arriving at every position (parent a head / an interior command; first
        // command of a fresh perspective or not): whatever head set the transaction commits, queries
        // and the action that collapses it must agree.
        let nmax = 5;
        let dags: Vec<Dag> = crate::props::reject::universes(4, nmax, 1, args.tier == Tier::Thorough);
        let cuts: &[Cut] = if args.tier == Tier::Thorough { &[Cut::None, Cut::Batch, Cut::Flush, Cut::Commit] } else { &[Cut::None, Cut::Batch] };
        let filter: crate::props::simrun::Filter = |c, _| matches!(c, "action-view" | "lazy-merge-view" | "action-parent" | "hello-vs-collapse" | "hello");
        let ex = run_all(&mut rep, "rejecting", &dags, oracles, false, filter, |d, f| {
            crate::props::reject::histories(d, cuts, &mut |base: &[Ev]| {
                let mut evs = base.to_vec();
                evs.push(Ev::Action(pub1.clone()));
                evs.push(Ev::Action(follow.clone()));
                f(&evs);
            });
        });
        families.push(json!({"family": "states reached by sync with one command refused at origin (every position), then an action", "universes": dags.len(), "executions": ex}));
        rep.require_nonzero("rejected_adds");
    }
    {
        // wide head sets: an action on k = 2..=16 concurrent heads must commit ONE head that descends
        // from every previous head (nothing a sync committed may drop out of the collapse chain)
        let dags = wide_dags(16);
        let filter: crate::props::simrun::Filter = if prop == "C04" {
            |c, _| matches!(c, "action-view" | "lazy-merge-view" | "action-parent" | "hello-vs-collapse" | "hello")
        } else {
            |c, _| matches!(c, "action-outcome" | "action-sink" | "failed-op-changed-state" | "heads" | "cmdset" | "facts" | "effects" | "history-shrank")
        };
        let ex = run_all(&mut rep, "wide", &dags, oracles, false, filter, |d, f| wide_cases(d, &pub1, &follow, f));
        rep.count("wide_head_set_executions", ex);
        families.push(json!({"family": "k = 2..16 concurrent heads (one or two sync transactions), then an action and a follow-up", "universes": dags.len(), "executions": ex}));
        rep.require_nonzero("wide_head_set_executions");
    }
    rep.require_nonzero("ok_actions");
    rep.require_nonzero("collapses");
    rep.require_nonzero("action_views_checked");
    if prop == "C07" {
        rep.require_nonzero("failed_actions");
    }
    finish(rep, families)
}
